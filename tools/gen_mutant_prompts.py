#!/venv/bin/python
"""Writes /tmp/prompts/cNN.txt: the complete instructions for an independent 'seed a regression'
sub-agent. The agent gets ONLY this text (property statement + its own scratch worktree
/tmp/wt-cNN made with tools/mk_worktree.sh) - nothing from /verif."""
import json, os
T = '''You are testing how well a semantic property of the Python library `molli` (SEDenmarkLab/molli, a cheminformatics toolbox) is protected against regressions. You have your own scratch git worktree of the repository at {wt} (python: /venv/bin/python; run everything from inside {wt} so that `import molli` resolves to {wt}/molli - verify with `cd {wt} && /venv/bin/python -c 'import molli; print(molli.__file__)'`). Work ONLY inside {wt}; do not read or write /repo, /verif or any other directory except scratch files of your own under {wt} or /tmp/scratch-{lid}. There is no network. Set the environment variable MOLLI_HOME to a scratch directory (e.g. /tmp/scratch-{lid}/home) in your demo programs before importing molli.

THE PROPERTY (title: "{title}"):
{statement}
Quantified: {quant}
Code the property is anchored in: {files}. Mechanisms meant to make it hold: {mech}.

TASK: produce TWO independent, realistic changes to the library source (each as its own patch against the worktree HEAD) that BREAK this property while (1) the package still imports, and (2) the existing test suite still passes exactly as before: `cd {wt} && /venv/bin/python -m pytest -q -p no:cacheprovider --timeout=900 molli_test` gives 81 passed / 4 failed on the clean HEAD (the 4 failures test_conformer_to_lib, test_ensemble_lib, test_load_all, test_loads_all are pre-existing and must remain the only failures; run it first on the clean tree to see). Each change must look like a plausible regression a developer could introduce (a refactoring slip, an optimisation, a reordering of statements, an off-by-one, a shortcut on a cached value, a sign/convention slip, a swapped pair of fields, a default masking a value, shared mutable state, ...), not sabotage, and it must need something SPECIFIC to manifest - a multi-step sequence of operations, an unusual but legitimate input (a particular value, size, ordering or combination of fields), a particular configuration, or two cooperating sites that each look fine alone - not something that ordinary everyday use (and the existing tests) would expose at once. The two changes should be different in nature (different code sites / mechanisms). If the clean HEAD already violates the property for some input class, do not rely on that class: your demo must pass on the clean HEAD.

For each change n in {{1,2}} deliver in {wt}/_seeded/<n>/ : patch.diff (git diff of the source change only; must apply with `git apply` to a clean HEAD), demo.py (a small self-contained program using molli's public API; exit code 0 = property holds, non-zero = property violated with a printed explanation; it must FAIL with the patch applied and PASS on the clean HEAD - run both and keep the outputs), and notes.md (what the change is, why the existing tests stay green, what exactly is needed for it to manifest). NEVER use `git stash` (the stash is shared by all worktrees of this repository and other reviewers work in sibling worktrees at the same time): switch between clean and patched trees with `git apply` / `git apply -R` / `git checkout -- .` only. Leave the worktree's tracked files clean at the end (`git checkout -- .`), keeping only the untracked _seeded directory. Your final message must contain: both patches inline, the demo outputs with and without each patch, and the pytest summary line with each patch applied.'''
os.makedirs('/tmp/prompts', exist_ok=True)
for l in open('/verif/properties.jsonl'):
    p = json.loads(l)
    lid = p['id'].lower()
    mech = '; '.join(f"{m['name']} ({m['where']})" for m in p['anchors']['mechanism'])
    open(f'/tmp/prompts/{lid}.txt', 'w').write(T.format(wt=f'/tmp/wt-{lid}', lid=lid, title=p['title'], statement=p['statement'], quant=p['quantifier']['text'], files=', '.join(p['anchors']['files']), mech=mech))
print('prompts written to /tmp/prompts')
