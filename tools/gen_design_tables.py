#!/venv/bin/python
"""Rewrites the generated tables of DESIGN.md (between the BEGIN/END GENERATED markers) from
known_findings.json and seeded/*/meta.json."""
import json, re
from pathlib import Path

V = Path("/verif")
kf = json.loads((V / "known_findings.json").read_text())["findings"]
rows = []
for e in kf:
    what = e["what"].replace("|", "\\|")
    sig = e["signature"].replace("|", "\\|")
    rows.append(f"| {e['property']} | {e['status']} | {e.get('commit','-')} | {what} | `{sig}` |")
t1 = "| property | status | /repo commit | what failed on the pinned tree | signature (first of its root cause) |\n|---|---|---|---|---|\n" + "\n".join(rows)

rows = []
for d in sorted((V / "seeded").iterdir()):
    m = d / "meta.json"
    if not m.exists():
        continue
    meta = json.loads(m.read_text())
    det = meta.get("detected_by") or {}
    sigs = det.get("signatures") or []
    caught = "yes" if det.get("exit") == 1 and sigs else ("NO" if det else "not run")
    if caught == "NO" and meta.get("cross_detected_by"):
        caught = f"no - by {meta['cross_detected_by']['check']} (see note)"
        sigs = meta["cross_detected_by"]["signatures"]
    if meta.get("neutralised_by_fix"):
        nf = meta["neutralised_by_fix"]
        caught = f"no longer a violation since fix {nf['commit']} (see note); on its base tree: yes"
        sigs = nf["signatures_on_base"]
    s = "; ".join(f"`{x}`".replace("|", "\\|") for x in sigs[:2]) + (f" (+{det.get('n_signatures',0)-2} more)" if det.get("n_signatures", 0) > 2 else "")
    needs = meta["needs_to_manifest"].replace("|", "\\|")
    rows.append(f"| {d.name} | {meta['property']} | {needs} | {caught} | {s} |")
t2 = "| seeded change | property | what it needs in order to manifest | caught by the property's quick check | first signatures |\n|---|---|---|---|---|\n" + "\n".join(rows)

p = V / "DESIGN.md"
s = p.read_text()
def put(tag, body):
    global s
    a, b = f"<!-- BEGIN GENERATED {tag} -->", f"<!-- END GENERATED {tag} -->"
    if a not in s:
        raise SystemExit(f"marker {tag} missing")
    s = s[: s.index(a) + len(a)] + "\n" + body + "\n" + s[s.index(b):]
put("findings", t1)
put("seeded", t2)
p.write_text(s)
print("DESIGN.md tables regenerated:", len(kf), "findings,", len(rows), "seeded changes")
