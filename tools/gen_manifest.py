#!/venv/bin/python
"""Regenerates /verif/MANIFEST.json from the table below (single source of truth)."""
import json
from pathlib import Path

V = Path(__file__).resolve().parent.parent

CHECKS = {
    # id: (engine, category, technique, level text, level note, design_ref)
    "C02": (
        "seqx",
        "model_checking",
        "explicit-state BFS over operation histories of the real UKVFile/Collection code against a dict reference model",
        "Every history of opens/closes/reopens/puts (incl. failing ones) up to the stated depth over 2..3 handles and 4 buffer sizes is executed on the real "
        "implementation with state deduplication; after every step every open handle and the file itself (independent parser) are compared with a dict of "
        "successful puts. Exhaustive within the bound, which is where stale-index and failed-op defects live (they need <= 5 steps). The Collection layer also takes "
        "every accessor as the first call after a put / session entry, puts that are followed by no read at all (the queued state is carried forward), an explicit flush, and a "
        "second library on another path used by the same process, and handles constructed with overwrite=True (the library starts again, older handles follow); the UKVFile layer has copy_items as a read "
        "route and as a put route, creation with mode w, reopening without a mode and pickled handles.",
        "Bounded depth and alphabet (6 keys incl. 255/256 byte and binary, 3..4 values incl. 70 kB in thorough); single process (the reader/writer discipline is C04's); python dict as reference.",
        "4 C02",
    ),
}

CHECKS["C03"] = (
    "crashx",
    "fault_enumeration",
    "exhaustive crash-point enumeration: every byte prefix of the recorded write history of real append sessions x every recovery history of a menu (incl. a second crash at every byte)",
    "The real write history of each append session of a small alphabet is recorded through a stream proxy; the file image for EVERY crash point (every op prefix, every byte "
    "of every write) is built and every recovery history (reopen r; reopen a + put + reopen r; via UKVFile and via Collection sessions; second crash at every byte of the "
    "recovery append followed by both again; one long-lived object reading then appending; handles that pre-date the crash) is executed on it with real molli objects and compared with the "
    "reference (committed exact; session records whole or absent; no foreign key; later appends exact). Value contents that parse as file structure (zeros, little blocks, an all-zero record) and an "
    "alignment layer (a pad record of every length 0..12399 shifts the block headers across the reader's buffer-window edges) are part of the alphabet.",
    "Crash = process death: the file holds an in-order prefix of the session's writes (append-only premise checked by the recorder on every run); power-loss block reordering is outside the property. Sessions of 1..3 puts over 4..6 size classes (70 kB in thorough), 4 pre-states.",
    "4 C03",
)

CHECKS["C04"] = (
    "schedx",
    "model_checking",
    "stateless model checking of the implementation: controlled scheduler over real OS processes, all schedules up to a preemption bound (iterative context bounding) + one injected fault at every fault point",
    "2..3 real processes with long-lived Collection handles (different spellings of one path, different buffer sizes) run every program tuple of reading()/writing() sessions; a controller "
    "owns every lock and file action (fasteners trylock/unlock and the library stream are wrapped at run time) and executes EVERY schedule with <= 2 (thorough: 3) preemptions; a second "
    "family injects one exception at every fault point of a session (body, encoder, n-th file write, close, open, final flush losing the buffered data, an item that can never be written); further families: "
    "the library re-created by another process, processes configured by different routes (environment / configure()), writing sessions that read before they store, handles received by pickle from a parent that created the library with overwrite=True, one process working on two libraries (sequentially, and with a session on the second one nested inside a session on the first), a process that gives up on a session, continues with a new handle and drops the old one in the middle of a session, sessions ended by KeyboardInterrupt/GeneratorExit/SystemExit; before every action of a lock holder the controller (a third process) probes the lock file with a conflicting non-blocking lock, which must be refused; a lifecycle family adds sessions with a timeout (they give up instead of waiting) and processes that terminate normally while others keep working (the library's atexit hooks run under the scheduler). Oracles: file-level writer exclusion monitor, lock compatibility, no "
    "deadlock, state idle/file closed/lock acquirable by a third process after every session, final contents (fresh reader + independent parser) vs. the records of completed sessions, "
    "readers see complete committed records only; each reported schedule is replayed and must give the same verdict. A TLA+ session-level model (models/Sessions.tla) is explored exhaustively by TLC; ALL of its "
    "behaviours are replayed against the implementation through the scheduler (the implementation must follow each and satisfy the same oracles), and every lock-level event sequence the explorer observes on the "
    "implementation must be a behaviour of the model (conformance in both directions). Handle construction itself runs under the scheduler in a dedicated family (concurrent creation of the library).",
    "Scheduling points are Python-level lock/file calls, so preemption inside one call and real multi-core simultaneity are not explored; the OS fcntl lock is trusted; bounded programs (<= 4..5 sessions, 2 records per writer).",
    "4 C04",
)

_E = "bounded-exhaustive enumeration executed on the real implementation against an independent reference model"
CHECKS["C01"] = ("enumx", "model_checking", "small-scope exhaustive input enumeration (all 1-way and 2-way field-value combinations, all shapes 0..3, all put/read orders) through the real libraries, v2 and v1 codecs",
    "Every molecule/ensemble of a small-scope grammar (23 field dimensions incl. all enum members, None/empty/non-ASCII labels, nested attributes, NaN/inf/non-float32-exact floats, 0..3 atoms/bonds/conformers; every 1-way value and every 2-way pair; 800 put/read sequences) is written to and read from real MoleculeLibrary/ConformerLibrary files in both encodings and compared field by field with a snapshot taken by the harness's own walker.",
    "Field alphabets are finite (4 elements in quick, all 119 in thorough); pairwise (thorough: 3-way inside the atom/bond record) rather than full product; msgpack data model (list==tuple), float32 comparison as the property states.", "4 C01")
CHECKS["C09"] = ("enumx", "model_checking", "exhaustive configuration-matrix enumeration of every public load/dump entry point against the class-level codec",
    "The full matrix {load, loads, load_all, loads_all, dump, dumps} x formats (incl. unsupported) x source/target kinds (str path, Path, open stream, StringIO, string) x output types x name override x parser/writer names x file modes is executed on bundled and generated files; each cell is compared with the corresponding class method by a structural snapshot, or must raise the documented exception.",
    "openbabel is absent: its cells are only checked for the documented error; files are the bundled ones plus generated multi-block files (thorough: every bundled mol2).", "4 C09")
CHECKS["C10"] = ("faultx", "fault_enumeration", "exhaustive single-fault enumeration (every truncation point, line deletion/duplication, token deletion/garbling/insertion, count +-1, section rename; thorough: all fault pairs on small texts) of mol2/xyz texts",
    "For every base text every structural single fault is generated (thorough: all pairs on the small texts, ~5x10^5 texts) and handed to the real readers under a step budget and CPU watchdog; the result must be an exception or an order-preserving list of complete molecules of the undamaged file. A strict independent reference reader decides whether a damaged text is still a well-formed other file (then only termination is demanded).",
    "Only structural damage is generated (edits yielding another well-formed file are not damage), except byte truncation of the last record which the property names; one inherent xyz case is a recorded known finding.", "4 C10")
CHECKS["C11"] = ("enumx", "model_checking", "exhaustive enumeration of finite vector/axis/angle lattices incl. the antiparallel neighbourhood and every answer of the RNG seam, every rotatable bond of the test molecules, 6 start poses",
    "All 78x78 vector pairs (+ antiparallel neighbourhoods down to 1e-12 and exact), 78 axes x 13 angles, every acyclic bond x (a,d) choice x 12 targets, translate/transform/substructure/ensemble operations and alignment from 6 poses are executed on the real code; oracles are independent float64 numerics (orthogonality, det, mapped direction, distance matrices, signed volumes, bit-identity outside selections, dihedral == target, returned RMSD == achieved, pose independence). numpy.random is replaced by every answer of a finite menu.",
    "Numeric claim holds on the lattice points (seed-rotated), not on all reals; tolerances derived from magnitudes (1e-9 rel. for float64 paths).", "4 C11")
CHECKS["C12"] = ("enumx", "model_checking", "exhaustive enumeration of small fragments x attachment atoms x poses x options x charge/mult/override products x (anti)parallel attachment vectors x RNG-seam answers, iterated joins through the real combine loop",
    "Every pair of small tree/ring fragments with 1..3 attachment points, 6 poses, dist/optimize_rotation options, the full charge/mult/override product, exactly (anti)parallel attachment vectors with every RNG answer, and the real _ml_assemble loop for every order of core attachment points are executed; oracle = atom/bond tables, per-fragment congruence (distances + signed volumes), new bond length/direction, charge/mult rule, inputs untouched, identical result under different hidden random state.",
    "Fragments up to 4 heavy atoms; lattice coordinates; quick runs 2 of 6 option combinations per (A,B,pose) rotated so each pair meets all 6.", "4 C12")
CHECKS["C13"] = ("enumx", "model_checking", "every labelled fragment of every bundled CDXML x finite menu of metamorphic rewrites (mirror, translations, permutations, renumberings; thorough: all pairs) with an independent ElementTree oracle",
    "All 116 labelled fragments x rewrites are parsed by the real CDXML parser (twice in process, once in a second interpreter) and compared with an independent ElementTree walk (constitution, isotopes, charges, radicals, attachment points), absolute anchors taken from the drawing (xy orientation, wedge z order, handedness of single-wedge centres), sign inversion of non-planar centres under mirroring, bit-identical determinism and stable label resolution.",
    "Only the bundled drawings and their rewrites; hapto centres excluded as the property states; planarity threshold 0.10 on normalised triple products.", "4 C13")
CHECKS["C14"] = ("seqx", "model_checking", "explicit-state BFS over ensemble operation histories (15 constructors, append/extend, collective transformations, writes through conformers, stepwise/nested iterators, dumps, library storage) against a numpy reference model",
    "Every history up to depth 6 (thorough 8..9) is executed on real ConformerEnsemble objects with state deduplication on a value-free canonical form; after every step rectangularity, view semantics (reads equal row i, a write changes exactly that row), iteration sequences of 2..3 concurrent iterators, and dump/serialise round trips are compared with the reference.",
    "Values stored by constructors/transformations are C06/C11 territory and not asserted here; ensembles of 1..3 atoms, up to 4..5 conformers.", "4 C14")
CHECKS["C16"] = ("enumx", "model_checking", "exhaustive enumeration of a local-environment grammar (centre x charge x spin x hint x 0..3 neighbours x bond types x poses) + all bundled CDXML fragments, each called once and twice",
    "Every environment (8 centres x 3 charges x 3 spins / hints 0..3, neighbours from {C,H,F,metal} x 5..6 bond types pairwise (thorough: full product) x 5..8 poses incl. bonds along +-z) plus hadd_test.mol2 and all 123 CDXML fragments goes through the real add_implicit_hydrogens; oracle = the property's count formula with independent tables, frame conditions (nothing else changes), every new H bonded once at r_cov sum, finite, pointing away; idempotence.",
    "Distance tolerance 1e-3 A (the routine's 4-digit constants); direction clause judged against either centroid definition; hints > 3 and explicit-atom calls not enumerated.", "4 C16")

CHECKS["C05"] = ("seqx", "model_checking", "explicit-state BFS over edit histories of real Molecule/Structure objects (and Substructure/Conformer views) from 12 start states against a reference model keyed by atom identity",
    "Every edit history (add/new/del atom by object, index, label, element incl. impossible variants; connect; append_bond(s) with member/foreign atoms; del_bond; remove_substituent; add_implicit_hydrogens) up to the stated depths from empty, built, file-loaded, cloned and unpickled molecules is executed with state deduplication; after every step one coordinate row and one numeric charge per atom, every survivor's row/charge, the bond multiset, parents and indices are compared with the reference model.",
    "Depth 2 full alphabet / 3 small starts / 5 add-del-connect core in quick (thorough 3/4/8); atom-count-changing edits on views are outside 'where the operation is defined'.", "4 C05")
CHECKS["C06"] = ("seqx", "model_checking", "exhaustive matrix source class x copy route x mutation x direction (thorough: all chains of two routes and ordered pairs of mutations), each a short history on real objects",
    "All 57 (source class, route) combinations (copy constructors, pickle, deepcopy, concatenate, |, join, ensemble constructors) x 24 mutations x both directions are executed; a deep structural snapshot walker written for the check compares copy with source right after copying and the untouched side before/after the other side was edited.",
    "copy.copy and Substructure are views by definition and not claimed; name/charge/mult/attrib of products and join geometry belong to C12.", "4 C06")
CHECKS["C07"] = ("enumx", "model_checking", "exhaustive enumeration of all (element x atom type x geometry) typings atom-locally and through text, all bond types and set-histories, small-scope structures through every writer/reader entry point",
    "All 44 982 typings (119 x 21 x 18 in this tree) and all bond types go through get/set/get and through written text; every small-scope structure (0..3 atoms, name/label/coordinate/charge alphabets incl. NaN, 1e7, half-way decimals, every bond subset, 1..3 conformers) goes through 3 writers x 15 readers and a second write; oracle = independent spec of the structure with the tolerances the property states (1e-6 / 1e-3) and byte-identical second write.",
    "Whitespace-free labels and one-line names only (as the property states).", "4 C07")
CHECKS["C08"] = ("enumx", "model_checking", "exhaustive enumeration of small geometries (0..3 atoms, all 119 elements, dummy atoms, coordinate alphabet, 1..3 frames, explicit formats) through every xyz writer/reader entry point, and of every DistanceUnit member through every xyz and mol2 reader",
    "Every geometry of the alphabet is written by 3 writers and read by 21 readers as CartesianGeometry/Structure/Molecule/ConformerEnsemble and compared to written precision; for every member of DistanceUnit the same geometry expressed in that unit by the harness's own CODATA table is read with source_units and its coordinates compared (rel. 1e-5) with the Angstrom original.",
    "Coordinate lattice (no +-inf, |x| <= 1e7); <= 3 atoms (thorough 4).", "4 C08")
CHECKS["C17"] = ("seqx", "model_checking", "exhaustive enumeration of driver creation/use histories (2..3 drivers, 2..3 jobs, held handles) and of command lists of length 1..4 x failure positions x missing return files x input/env variants, executed through the real runner in-process and through the installed console script",
    "Every history of creating/using drivers with pairwise distinct settings is executed and each JobInput compared with its own driver; every command list over a 7-command alphabet (thorough: all 7^4) with all naming masks, return-file subsets, text/binary inputs and env overrides is run through molli.pipeline.runner.run_local (and a representative/all subset through /venv/bin/_molli_run) and compared with a reference interpreter observed through marker files (order, stop at first failure, captured output, returned bytes, hash, exit rule, no scratch residue).",
    "External QM programs are absent: harness-defined drivers in the style of XTBDriver exercise the generic machinery; timeouts and n_workers>1 not enumerated.", "4 C17")
CHECKS["C18"] = ("seqx", "model_checking", "exhaustive DFS over histories of 1..2 (thorough 3) jobmap runs with scripted per-item outcomes, cache tampering, kwargs changes, pre-populated and fresh destinations, single and vectorised jobs, deduplicated by model state",
    "Every history over 2 (thorough 3) items with per-unit scripts {succeed, fail, fail-then-succeed, omit file, fail after writing}, between-run actions {none, delete/corrupt a cached output} x {same/changed kwargs} x {same/fresh destination}, foreign destination keys, single and per-conformer jobs is executed through the real jobmap (runner in-process; thorough re-runs a subset through the real subprocess runner); oracle = reference model of destination contents and per-unit execution counts read from marker files.",
    "n_workers=1; jobmap_sge (no qsub) not executed; where all commands exit 0 but the return file is missing both 0 and 1 re-executions are accepted (the code's own notion of success is ambiguous there).", "4 C18")

CHECKS["C15"] = ("enumx", "model_checking", "exhaustive enumeration of all labelled simple graphs on 1..5 (thorough 6) atoms x every start atom, direction, bond and atom query, and of all targets x patterns for substructure matching, against own BFS / bridge finder / brute-force induced embeddings",
    "Every labelled graph (1 099 quick, 33 867 thorough) is built as five real molli objects; yield_bfsd/yield_bfs from every atom (by object, index, label) and through every neighbour as direction, is_bond_in_ring for every bond, the adjacency queries for every atom, and match/get_substr_indices for every target x pattern (labelled targets <= 4 x all 120 labelled patterns <= 3 plus class representatives for 5 atoms in quick; the full labelled product <= 5 x <= 3 in thorough) are compared as sets with the harness's own graph algorithms (networkx is used by the code under test and is not the oracle).",
    "Graphs up to 6 atoms, patterns up to 3 (4 by class representatives); bond-type compatibility is not part of the property.", "4 C15")
CHECKS["C19"] = ("enumx", "model_checking", "exhaustive enumeration of shapes x dtypes x memory layouts x point-alphabet subsets for the distance kernels (shipped extension AND distance.cpp recompiled from the current tree against a pybind11 stand-in), and of box/padding/spacing and ensemble/grid/cut-off menus for the grid descriptors, against float64 numpy from the definition",
    "All 12 kernel entry points are run over every shape n,m in 0..4 (thorough 0..6), x in 1..3, C/Fortran/sliced/transposed layouts, f4/f8/i8 and mixed dtypes on all pairs of point subsets; the same enumeration runs through ctypes on distance.cpp compiled unchanged from /repo at every run (guard zones detect out-of-bounds writes, a crash is a finding). rectangular_grid, nearest_atom_index, prune, aso, aeif and atomic_indicator_field are enumerated over corner/padding/spacing/dtype menus and 216 (648) small ensembles x 3 grids x cut-off/eps menus, weighted and unweighted.",
    "pybind11 is not installed, so the shipped .so cannot be rebuilt: overload dispatch/forcecast of the *current* binding source is not covered; grid points within 1e-5 of a sphere surface/cut-off excluded as the property states; inexact decimal multiples accept k or k+1 grid points.", "4 C19")

PENDING = {
}

NOT_APPLICABLE = {
}


def main():
    props = [json.loads(l) for l in (V / "properties.jsonl").read_text().splitlines() if l.strip()]
    checks = []
    for pid, (engine, cat, tech, text, note, ref) in sorted(CHECKS.items()):
        checks.append(
            {
                "property_id": pid,
                "quick_cmd": f"./check {pid} --tier quick",
                "thorough_cmd": f"./check {pid} --tier thorough",
                "evidence_file": f"evidence/{pid}.json",
                "replay_cmd_template": f"./check {pid} --replay {{path}}",
                "engine": engine,
                "level_claimed": {"category": cat, "text": text, "design_ref": f"DESIGN.md section {ref}"},
                "level_note": note,
                "technique": tech,
            }
        )
    na = []
    for p in props:
        pid = p["id"]
        if pid in CHECKS:
            continue
        reason = NOT_APPLICABLE.get(pid) or PENDING.get(pid) or "check not built yet in this round (planned, see DESIGN.md section 4); nothing is claimed for it"
        na.append({"property_id": pid, "reason": reason})
    man = {
        "version": 1,
        "setup_cmd": "./setup.sh",
        "hooks": {
            "guard": "MOLLI_VERIF",
            "enable": "no source hooks: every seam (file stream proxy, fasteners lock primitive, numpy.random, job runner) is installed by the harness at run time in its own process; checks import /repo's working tree directly (editable install / sys.path)",
            "baseline_off_cmd": "./tools_baseline.sh",
            "source_commits": [],
            "add_only": True,
        },
        "engines": [
            {"name": "seqx", "path": "mc/seqx.py", "serves_properties": sorted(k for k, v in CHECKS.items() if v[0] == "seqx"), "kind_free_text": "explicit-state BFS over histories of real operations, replay-from-scratch, canonical-state dedup, differential check on collisions"},
            {"name": "crashx", "path": "mc/crashx.py", "serves_properties": sorted(k for k, v in CHECKS.items() if v[0] == "crashx"), "kind_free_text": "every byte prefix of a recorded write history x recovery histories"},
            {"name": "schedx", "path": "mc/schedx.py", "serves_properties": sorted(k for k, v in CHECKS.items() if v[0] == "schedx"), "kind_free_text": "controlled scheduler over real OS processes, preemption-bounded exhaustive schedule enumeration + fault injection"},
            {"name": "tlcx", "path": "mc/tlcx.py", "serves_properties": ["C04"], "kind_free_text": "TLC explicit-state exploration of models/Sessions.tla; all behaviours extracted (history variable) and replayed against the implementation; implementation traces checked for membership"},
            {"name": "enumx", "path": "mc/props", "serves_properties": sorted(k for k, v in CHECKS.items() if v[0] == "enumx"), "kind_free_text": "bounded-exhaustive enumeration of inputs/configurations/environment answers against an independent reference"},
        ],
        "checks": checks,
        "not_applicable": na,
        "notes": "All checks are bounded-exhaustive explorations of the real implementation (model checking family). Genuine defects found are either repaired in /repo by 'fix:' commits or listed in known_findings.json; see DESIGN.md.",
    }
    (V / "MANIFEST.json").write_text(json.dumps(man, indent=1) + "\n")
    print(f"MANIFEST.json: {len(checks)} checks, {len(na)} not_applicable")


if __name__ == "__main__":
    main()
