#!/venv/bin/python
"""Regenerates /verif/MANIFEST.json from the table below (single source of truth)."""
import json
from pathlib import Path

V = Path(__file__).resolve().parent.parent

CHECKS = {
    # id: (engine, category, technique, level text, level note, design_ref)
    "C02": (
        "seqx",
        "model_checking",
        "explicit-state BFS over operation histories of the real UKVFile/Collection code against a dict reference model",
        "Every history of opens/closes/reopens/puts (incl. failing ones) up to the stated depth over 2..3 handles and 4 buffer sizes is executed on the real "
        "implementation with state deduplication; after every step every open handle and the file itself (independent parser) are compared with a dict of "
        "successful puts. Exhaustive within the bound, which is where stale-index and failed-op defects live (they need <= 5 steps).",
        "Bounded depth and alphabet (6 keys incl. 255/256 byte and binary, 3..4 values incl. 70 kB in thorough); single process (the reader/writer discipline is C04's); python dict as reference.",
        "4 C02",
    ),
}

CHECKS["C03"] = (
    "crashx",
    "fault_enumeration",
    "exhaustive crash-point enumeration: every byte prefix of the recorded write history of real append sessions x every recovery history of a menu (incl. a second crash at every byte)",
    "The real write history of each append session of a small alphabet is recorded through a stream proxy; the file image for EVERY crash point (every op prefix, every byte "
    "of every write) is built and every recovery history (reopen r; reopen a + put + reopen r; via UKVFile and via Collection sessions; second crash at every byte of the "
    "recovery append followed by both again) is executed on it with real molli objects and compared with the reference (committed exact; session records whole or absent; no foreign key; later appends exact).",
    "Crash = process death: the file holds an in-order prefix of the session's writes (append-only premise checked by the recorder on every run); power-loss block reordering is outside the property. Sessions of 1..3 puts over 4..6 size classes (70 kB in thorough), 4 pre-states.",
    "4 C03",
)

CHECKS["C04"] = (
    "schedx",
    "model_checking",
    "stateless model checking of the implementation: controlled scheduler over real OS processes, all schedules up to a preemption bound (iterative context bounding) + one injected fault at every fault point",
    "2..3 real processes with long-lived Collection handles (different spellings of one path, different buffer sizes) run every program tuple of reading()/writing() sessions; a controller "
    "owns every lock and file action (fasteners trylock/unlock and the library stream are wrapped at run time) and executes EVERY schedule with <= 2 (thorough: 3) preemptions; a second "
    "family injects one exception at every fault point of a session (body, encoder, n-th file write, close, open). Oracles: file-level writer exclusion monitor, lock compatibility, no "
    "deadlock, state idle/file closed/lock acquirable by a third process after every session, final contents (fresh reader + independent parser) vs. the records of completed sessions, "
    "readers see complete committed records only; each reported schedule is replayed and must give the same verdict.",
    "Scheduling points are Python-level lock/file calls, so preemption inside one call and real multi-core simultaneity are not explored; the OS fcntl lock is trusted; bounded programs (<= 4..5 sessions, 2 records per writer).",
    "4 C04",
)

PENDING = {
}

NOT_APPLICABLE = {
}


def main():
    props = [json.loads(l) for l in (V / "properties.jsonl").read_text().splitlines() if l.strip()]
    checks = []
    for pid, (engine, cat, tech, text, note, ref) in sorted(CHECKS.items()):
        checks.append(
            {
                "property_id": pid,
                "quick_cmd": f"./check {pid} --tier quick",
                "thorough_cmd": f"./check {pid} --tier thorough",
                "evidence_file": f"evidence/{pid}.json",
                "replay_cmd_template": f"./check {pid} --replay {{path}}",
                "engine": engine,
                "level_claimed": {"category": cat, "text": text, "design_ref": f"DESIGN.md section {ref}"},
                "level_note": note,
                "technique": tech,
            }
        )
    na = []
    for p in props:
        pid = p["id"]
        if pid in CHECKS:
            continue
        reason = NOT_APPLICABLE.get(pid) or PENDING.get(pid) or "check not built yet in this round (planned, see DESIGN.md section 4); nothing is claimed for it"
        na.append({"property_id": pid, "reason": reason})
    man = {
        "version": 1,
        "setup_cmd": "./setup.sh",
        "hooks": {
            "guard": "MOLLI_VERIF",
            "enable": "no source hooks: every seam (file stream proxy, fasteners lock primitive, numpy.random, job runner) is installed by the harness at run time in its own process; checks import /repo's working tree directly (editable install / sys.path)",
            "baseline_off_cmd": "./tools_baseline.sh",
            "source_commits": [],
            "add_only": True,
        },
        "engines": [
            {"name": "seqx", "path": "mc/seqx.py", "serves_properties": sorted(k for k, v in CHECKS.items() if v[0] == "seqx"), "kind_free_text": "explicit-state BFS over histories of real operations, replay-from-scratch, canonical-state dedup, differential check on collisions"},
            {"name": "crashx", "path": "mc/crashx.py", "serves_properties": sorted(k for k, v in CHECKS.items() if v[0] == "crashx"), "kind_free_text": "every byte prefix of a recorded write history x recovery histories"},
            {"name": "schedx", "path": "mc/schedx.py", "serves_properties": sorted(k for k, v in CHECKS.items() if v[0] == "schedx"), "kind_free_text": "controlled scheduler over real OS processes, preemption-bounded exhaustive schedule enumeration + fault injection"},
            {"name": "enumx", "path": "mc/props", "serves_properties": sorted(k for k, v in CHECKS.items() if v[0] == "enumx"), "kind_free_text": "bounded-exhaustive enumeration of inputs/configurations/environment answers against an independent reference"},
        ],
        "checks": checks,
        "not_applicable": na,
        "notes": "All checks are bounded-exhaustive explorations of the real implementation (model checking family). Genuine defects found are either repaired in /repo by 'fix:' commits or listed in known_findings.json; see DESIGN.md.",
    }
    (V / "MANIFEST.json").write_text(json.dumps(man, indent=1) + "\n")
    print(f"MANIFEST.json: {len(checks)} checks, {len(na)} not_applicable")


if __name__ == "__main__":
    main()
