#!/venv/bin/python
"""Writes /tmp/prompts/cNN_w<k>.txt for a later wave of 'seed a regression' sub-agents: the base prompt of
tools/gen_mutant_prompts.py + the list of regressions already recorded under /verif/seeded (only their
'needs_to_manifest' lines - nothing else from /verif) + house notes.  usage: gen_wave_prompts.py <k> [n_changes]"""
import json, os, sys, glob, subprocess
k = sys.argv[1]; n = int(sys.argv[2]) if len(sys.argv) > 2 else 3
subprocess.check_call(['/venv/bin/python', os.path.join(os.path.dirname(__file__), 'gen_mutant_prompts.py')], stdout=subprocess.DEVNULL)
words = {2: 'TWO', 3: 'THREE', 4: 'FOUR'}
for l in open('/verif/properties.jsonl'):
    p = json.loads(l); lid = p['id'].lower()
    base = open(f'/tmp/prompts/{lid}.txt').read()
    base = base.replace('produce TWO independent', f'produce {words[n]} independent').replace('The two changes should be different', 'The changes should be different') \
        .replace('For each change n in {1,2}', 'For each change n in {' + ','.join(str(i + 1) for i in range(n)) + '}').replace('both patches inline', 'all patches inline')
    avoid = []
    for m in sorted(glob.glob(f'/verif/seeded/{p["id"]}-*/meta.json')):
        avoid.append('  - ' + json.load(open(m))['needs_to_manifest'])
    extra = '\nOther reviewers have already produced the following regressions for this property; do NOT repeat them or close variants of them - find different code sites and different mechanisms (look also at helper functions, base classes, property setters, __init__ paths, caches, default arguments and less-used entry points that the property\'s statement covers but the list below does not touch):\n' + '\n'.join(avoid) + '\n'
    notes = f'\nNotes: a script started from a subdirectory would import molli from the installed location instead of the worktree - make your demo programs insert the worktree root (/tmp/wt-{lid}) at the front of sys.path and print molli.__file__; child processes need PYTHONPATH=/tmp/wt-{lid}; anything that can block (inter-process library locks, subprocesses) must have a timeout, run demos under `timeout 300`. The compiled extension molli_xt*.so in the worktree is a copy; C++ sources are only compiled by callers that build them explicitly, so prefer Python-level changes. Keep the machine load low: do not run more than one pytest at a time.\n'
    open(f'/tmp/prompts/{lid}_w{k}.txt', 'w').write(base + extra + notes)
print('wave', k, 'prompts written')
