#!/bin/bash
# usage: mk_worktree.sh <dir>   - scratch git worktree of /repo HEAD (detached) incl. the untracked compiled extension
set -e
d="$1"
git -C /repo worktree add --detach -q "$d" HEAD
cp /repo/molli_xt*.so "$d"/ 2>/dev/null || true
echo "$d"
