#!/venv/bin/python
"""run_seeded.py [seed-id ...]  - runs the property's quick check against every seeded change
(applied to a scratch copy of /repo) and records which signatures caught it in meta.json."""
import json, os, re, subprocess, sys
from pathlib import Path

root = Path("/verif/seeded")
ids = sys.argv[1:] or sorted(p.name for p in root.iterdir() if (p / "patch.diff").exists())
tier = os.environ.get("TIER", "quick")
res = {}
for sid in ids:
    d = root / sid
    meta = json.loads((d / "meta.json").read_text())
    prop = meta["property"]
    r = subprocess.run(["/verif/tools/try_patch.sh", str(d / "patch.diff"), prop], capture_output=True, text=True, env=dict(os.environ, TIER=tier, LINES_MAX="4000"))
    out = r.stdout + r.stderr
    sigs = sorted(set(m.group(1).strip() for m in re.finditer(r"^VIOLATION property=\S+ replay=\S+ :: (.*?) :: ", out, re.M)))
    applies = "PATCH DOES NOT APPLY" not in out
    meta["detected_by"] = {"check": prop, "tier": tier, "exit": r.returncode, "signatures": sigs[:12], "n_signatures": len(sigs), "patch_applies_to_current_head": applies}
    (d / "meta.json").write_text(json.dumps(meta, indent=1))
    print(f"{sid:10s} {prop} rc={r.returncode} applies={applies} signatures={len(sigs)} {sigs[:2]}")
