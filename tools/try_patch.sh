#!/bin/bash
# usage: try_patch.sh <patch.diff> <ID> [<ID>...]   [env TIER=quick|thorough] [INPLACE=1]
# Applies the patch to a scratch copy of /repo (default) or to /repo itself (INPLACE=1, reverted
# afterwards), runs the given checks against it and prints their verdict lines.
patch="$(realpath "$1")"; shift
tier="${TIER:-quick}"
if [ "${INPLACE:-0}" = "1" ]; then
  git -C /repo apply "$patch" || { echo "PATCH DOES NOT APPLY"; exit 3; }
  trap 'git -C /repo checkout -- .' EXIT
  target=/repo
else
  target="$(mktemp -d /tmp/mrepo-XXXXXX)"
  trap 'rm -rf "$target"' EXIT
  cp -r /repo/. "$target"/
  git -C "$target" checkout -q -- . 2>/dev/null
  git -C "$target" apply "$patch" || { echo "PATCH DOES NOT APPLY"; exit 3; }
fi
cd /verif
rc_all=0
for id in "$@"; do
  out="$(VERIF_REPO="$target" VERIF_NOEVIDENCE=1 timeout "${TIMEOUT:-1500}" ./check "$id" --tier "$tier" 2>&1)"; rc=$?
  echo "== $id rc=$rc"
  echo "$out" | grep -E "^(VIOLATION|KNOWN-FINDING|HARNESS-ERROR|\[$id\])" | cut -c1-1500 | head -${LINES_MAX:-12}
  [ $rc -ne 0 ] && rc_all=$rc
done
exit $rc_all
