#!/venv/bin/python
"""confirm_seed.py <worktree> <n> <seed-id> <property> "<needs>"
Confirms a seeded change independently (clean demo passes, patch applies, baseline tests keep
passing, demo fails) and stores it under /verif/seeded/<seed-id>/."""
import json, os, re, shutil, subprocess, sys
from pathlib import Path

wt, n, sid, prop, needs = sys.argv[1:6]
wt = Path(wt)
src = wt / "_seeded" / n
env = dict(os.environ, MOLLI_HOME=f"/tmp/scratch-confirm/{sid}/home", PYTHONPATH=str(wt), PYTHONDONTWRITEBYTECODE="1")
os.makedirs(env["MOLLI_HOME"], exist_ok=True)


def sh(cmd, timeout=1200):
    r = subprocess.run(cmd, shell=True, cwd=wt, env=env, capture_output=True, text=True, timeout=timeout)
    return r.returncode, (r.stdout + r.stderr)


def demo():
    return sh(f"timeout 300 /venv/bin/python {src}/demo.py")


sh("git checkout -q -- .")
rc0, out0 = demo()
rca, outa = sh(f"git apply {src}/patch.diff")
if rca != 0:
    print("PATCH DOES NOT APPLY", outa)
    sys.exit(1)
try:
    rct, outt = sh("/venv/bin/python -m pytest -q -p no:cacheprovider --timeout=900 molli_test 2>&1 | tail -8")
    rc1, out1 = demo()
finally:
    sh("git checkout -q -- .")
summary = [l for l in outt.splitlines() if " passed" in l or " failed" in l]
failed = sorted(set(re.findall(r"FAILED (\S+)", outt)))
expected_failed = {"test_conformer_to_lib", "test_ensemble_lib", "test_load_all", "test_loads_all"}
tests_ok = bool(summary) and "81 passed" in summary[-1] and "4 failed" in summary[-1] and {f.split("::")[-1] for f in failed} == expected_failed
ok = rc0 == 0 and rc1 != 0 and tests_ok
print(f"clean demo rc={rc0}  patched demo rc={rc1}  tests: {summary[-1] if summary else outt[-200:]}  -> {'CONFIRMED' if ok else 'REJECTED'}")
if not ok:
    print(out0[-600:], "\n----\n", out1[-600:])
    sys.exit(1)
dest = Path("/verif/seeded") / sid
dest.mkdir(parents=True, exist_ok=True)
shutil.copy(src / "patch.diff", dest / "patch.diff")
shutil.copy(src / "demo.py", dest / "demo.py")
if (src / "notes.md").exists():
    shutil.copy(src / "notes.md", dest / "notes.md")
meta = {
    "property": prop,
    "needs_to_manifest": needs,
    "source": "independent sub-agent given only the property text and a scratch worktree",
    "confirmed": {
        "base_commit": subprocess.run("git rev-parse --short HEAD", shell=True, cwd=wt, capture_output=True, text=True).stdout.strip(),
        "baseline_tests_with_patch": summary[-1].strip(),
        "demo_clean_rc": rc0,
        "demo_patched_rc": rc1,
        "demo_patched_tail": out1.strip().splitlines()[-6:],
        "commands": ["git apply patch.diff", "/venv/bin/python -m pytest -q -p no:cacheprovider --timeout=900 molli_test", "/venv/bin/python demo.py (PYTHONPATH=<worktree>)"],
    },
    "detected_by": None,
}
(dest / "meta.json").write_text(json.dumps(meta, indent=1))
print("stored", dest)
