// Stand-in for the part of <pybind11/numpy.h> that /repo/molli_xt/distance.cpp uses:
//   array_t<T, c_style | forcecast>  with  array_t({d0, d1[, d2]}), shape(i), ndim(), size(),
//   unchecked<N>() -> .data(i, j[, k]) / operator()(...),  mutable_unchecked<N>() -> operator()(...)
// Storage is a C-contiguous buffer with guard zones on both sides so that an out-of-bounds write
// of a (mutated) kernel is detected instead of corrupting the heap.
#pragma once
#include "pybind11.h"
#include <cstring>
#include <initializer_list>
#include <memory>
#include <vector>

namespace pybind11
{
    class array
    {
    public:
        enum
        {
            c_style = 1,
            f_style = 2,
            forcecast = 16
        };
    };

    namespace shim
    {
        constexpr ssize_t GUARD = 64; // elements on each side
        template <typename T>
        inline T guard_value()
        {
            return static_cast<T>(-7777.25); // exactly representable in float and double
        }
    } // namespace shim

    namespace detail
    {
        template <typename T, ssize_t N, bool Mutable>
        class unchecked_ref
        {
            T *p_;
            ssize_t shape_[N > 0 ? N : 1];
            ssize_t stride_[N > 0 ? N : 1]; // in elements

            template <typename... Ix>
            ssize_t offset(Ix... ix) const
            {
                static_assert(sizeof...(Ix) <= (size_t)N, "too many indices");
                const ssize_t idx[] = {static_cast<ssize_t>(ix)...};
                ssize_t o = 0;
                for (size_t k = 0; k < sizeof...(Ix); ++k)
                    o += idx[k] * stride_[k];
                return o;
            }

        public:
            unchecked_ref(T *p, const std::vector<ssize_t> &shape) : p_(p)
            {
                ssize_t s = 1;
                for (ssize_t k = N - 1; k >= 0; --k)
                {
                    shape_[k] = shape[k];
                    stride_[k] = s;
                    s *= shape[k];
                }
            }
            template <typename... Ix>
            const T &operator()(Ix... ix) const { return p_[offset(ix...)]; }
            template <bool M = Mutable, typename... Ix>
            typename std::enable_if<M, T &>::type operator()(Ix... ix) { return p_[offset(ix...)]; }
            template <typename... Ix>
            const T *data(Ix... ix) const { return p_ + offset(ix...); }
            template <bool M = Mutable, typename... Ix>
            typename std::enable_if<M, T *>::type mutable_data(Ix... ix) { return p_ + offset(ix...); }
            ssize_t shape(ssize_t dim) const { return shape_[dim]; }
            static constexpr ssize_t ndim() { return N; }
        };
    } // namespace detail

    template <typename T, int Flags = array::forcecast>
    class array_t : public array
    {
        std::vector<ssize_t> shape_;
        std::shared_ptr<std::vector<T>> buf_; // GUARD + data + GUARD

        void allocate()
        {
            ssize_t n = 1;
            for (auto s : shape_)
                n *= s;
            buf_ = std::make_shared<std::vector<T>>(static_cast<size_t>(n + 2 * shim::GUARD), shim::guard_value<T>());
            for (ssize_t i = 0; i < n; ++i)
                (*buf_)[shim::GUARD + i] = T(0);
        }

    public:
        using value_type = T;
        array_t() : shape_{0} { allocate(); }
        array_t(std::initializer_list<ssize_t> shape) : shape_(shape) { allocate(); }
        explicit array_t(const std::vector<ssize_t> &shape) : shape_(shape) { allocate(); }
        // wrap a copy of caller memory (C order)
        array_t(const std::vector<ssize_t> &shape, const T *src) : shape_(shape)
        {
            allocate();
            if (size() > 0)
                std::memcpy(mutable_data(), src, sizeof(T) * static_cast<size_t>(size()));
        }

        ssize_t ndim() const { return static_cast<ssize_t>(shape_.size()); }
        ssize_t shape(ssize_t i) const { return shape_[static_cast<size_t>(i)]; }
        const ssize_t *shape() const { return shape_.data(); }
        ssize_t size() const
        {
            ssize_t n = 1;
            for (auto s : shape_)
                n *= s;
            return n;
        }
        ssize_t itemsize() const { return sizeof(T); }
        const T *data() const { return buf_->data() + shim::GUARD; }
        T *mutable_data() { return buf_->data() + shim::GUARD; }

        template <ssize_t N>
        detail::unchecked_ref<const T, N, false> unchecked() const
        {
            return detail::unchecked_ref<const T, N, false>(data(), shape_);
        }
        template <ssize_t N>
        detail::unchecked_ref<T, N, true> mutable_unchecked()
        {
            return detail::unchecked_ref<T, N, true>(mutable_data(), shape_);
        }

        // stand-in only: are the guard zones untouched?
        bool shim_guards_intact() const
        {
            const ssize_t n = size();
            for (ssize_t i = 0; i < shim::GUARD; ++i)
                if ((*buf_)[i] != shim::guard_value<T>() || (*buf_)[shim::GUARD + n + i] != shim::guard_value<T>())
                    return false;
            return true;
        }
    };

} // namespace pybind11
