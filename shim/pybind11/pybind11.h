// Stand-in for the small part of <pybind11/pybind11.h> that /repo/molli_xt uses.
// pybind11 itself is not installed in this sandbox, so the extension cannot be rebuilt;
// the C19 check compiles molli_xt/distance.cpp and molli_xt/_molli_xt.cpp UNCHANGED against
// these headers into a plain shared object (see shim_entry.cpp for the extern "C" side).
// Nothing here touches Python: module_::def only records the function pointers.
#pragma once
#include <cstddef>
#include <map>
#include <string>
#include <sys/types.h>

namespace pybind11
{
    using ssize_t = ::ssize_t;
    using size_t = std::size_t;

    // RAII no-op: there is no interpreter in the stand-in
    class gil_scoped_release
    {
    public:
        gil_scoped_release() {}
        ~gil_scoped_release() {}
        gil_scoped_release(const gil_scoped_release &) = delete;
    };
    class gil_scoped_acquire
    {
    public:
        gil_scoped_acquire() {}
        ~gil_scoped_acquire() {}
    };

    template <typename T, int Flags>
    class array_t;

    namespace shim
    {
        // one registered callable: name -> pointer, kept per scalar type, in definition order
        struct registry
        {
            std::map<std::string, void *> f32; // array_t<float>  (*)(const array_t<float>&,  const array_t<float>&)
            std::map<std::string, void *> f64; // array_t<double> (*)(const array_t<double>&, const array_t<double>&)
            std::string doc;
        };
        inline registry &the_registry()
        {
            static registry r;
            return r;
        }
    } // namespace shim

    class module_
    {
    public:
        std::string &doc() { return shim::the_registry().doc; }

        template <int Flags, typename... Extra>
        module_ &def(const char *name, array_t<float, Flags> (*f)(const array_t<float, Flags> &, const array_t<float, Flags> &), const Extra &...)
        {
            // like pybind11: a later def under the same name adds an overload; the stand-in keeps one
            // slot per scalar type, the first registration wins (overload resolution order)
            auto &m = shim::the_registry().f32;
            if (!m.count(name))
                m[name] = reinterpret_cast<void *>(f);
            return *this;
        }
        template <int Flags, typename... Extra>
        module_ &def(const char *name, array_t<double, Flags> (*f)(const array_t<double, Flags> &, const array_t<double, Flags> &), const Extra &...)
        {
            auto &m = shim::the_registry().f64;
            if (!m.count(name))
                m[name] = reinterpret_cast<void *>(f);
            return *this;
        }
    };
    using module = module_;

} // namespace pybind11

// PYBIND11_MODULE(name, m) { body }  ->  a plain function the entry points call once
#define PYBIND11_MODULE(name, variable)                                        \
    static void pybind11_shim_body_##name(::pybind11::module_ &);              \
    extern "C" void pybind11_shim_module_init(void)                            \
    {                                                                          \
        static ::pybind11::module_ the_module;                                 \
        pybind11_shim_body_##name(the_module);                                 \
    }                                                                          \
    static void pybind11_shim_body_##name(::pybind11::module_ &variable)
