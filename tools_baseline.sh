#!/bin/bash
# Runs the repository's pinned baseline test suite with the verification guard OFF.
unset MOLLI_VERIF
cd /repo && exec /venv/bin/python -m pytest -ra -q -p no:cacheprovider --timeout=900 --continue-on-collection-errors "$@"
