"""
Shared run-time of every check: context object, violation / known-finding handling,
replay artefacts, evidence writer, deterministic partitioned fan-out.

Nothing in here imports molli.  `mc.cli` sets MOLLI_HOME and sys.path before a property
module (which does import molli) is loaded.
"""
from __future__ import annotations

import hashlib
import json
import multiprocessing as mp
import os
import sys
import time
import traceback
from pathlib import Path

VERIF = Path(__file__).resolve().parent.parent
KNOWN_FILE = VERIF / "known_findings.json"
EVIDENCE_DIR = VERIF / "evidence"
REPLAY_DIR = VERIF / "replay"

MAX_REPLAY_FILES = 40  # per run; every signature is still counted and printed
MAX_SAMPLES = 8


class HarnessError(Exception):
    """The harness itself is broken (nondeterministic replay, vacuous run, ...): exit 2."""


def jsonable(o):
    """Best-effort conversion of a case description into JSON (never raises)."""
    try:
        import numpy as np
    except Exception:  # pragma: no cover
        np = None
    if o is None or isinstance(o, (bool, int, str)):
        return o
    if isinstance(o, float):
        if o != o:
            return "NaN"
        if o in (float("inf"), float("-inf")):
            return "inf" if o > 0 else "-inf"
        return o
    if isinstance(o, (bytes, bytearray)):
        b = bytes(o)
        if len(b) > 64:
            return {"bytes_len": len(b), "sha1": hashlib.sha1(b).hexdigest(), "head": b[:16].hex()}
        return {"bytes_hex": b.hex()}
    if isinstance(o, dict):
        return {str(k) if not isinstance(k, str) else k: jsonable(v) for k, v in o.items()}
    if isinstance(o, (list, tuple, set, frozenset)):
        seq = sorted(o, key=repr) if isinstance(o, (set, frozenset)) else o
        return [jsonable(x) for x in seq]
    if np is not None:
        if isinstance(o, np.ndarray):
            return {"ndarray": jsonable(o.tolist()), "dtype": str(o.dtype), "shape": list(o.shape)}
        if isinstance(o, np.generic):
            return jsonable(o.item())
    if isinstance(o, Path):
        return str(o)
    return repr(o)


def sig_hash(s: str) -> str:
    return hashlib.sha1(s.encode()).hexdigest()[:12]


class Ctx:
    """Collects coverage counters, violations and samples of one check run (or one partition)."""

    def __init__(self, pid: str, tier: str, seed: int, level: str = "model_checking", scratch: Path | None = None):
        self.pid = pid
        self.tier = tier
        self.seed = seed
        self.level = level
        self.scratch = scratch
        self.t0 = time.time()
        self.evaluations = 0
        self.states = 0
        self.transitions = 0
        self.traces = 0
        self._nontrivial: set = set()
        self._outcomes: set = set()
        self.state_keys: set = set()  # hashed canonical states (dedup across partitions)
        self.samples: list = []
        self.violations: dict[str, dict] = {}  # signature -> first case
        self.violation_counts: dict[str, int] = {}
        self.notes: dict = {}
        self.rule = ""
        self.bound: dict = {}
        self.exhaustive = True
        self.caps: list[str] = []
        self.assumptions: list[str] = []
        self.deadline = None  # optional wall clock cap set by cli

    # ---- counters -------------------------------------------------------------------------
    @property
    def thorough(self) -> bool:
        return self.tier == "thorough"

    def count(self, evaluations=0, states=0, transitions=0, traces=0):
        self.evaluations += evaluations
        self.states += states
        self.transitions += transitions
        self.traces += traces

    def nontrivial(self, key):
        self._nontrivial.add(key if isinstance(key, (str, int, bytes, tuple)) else repr(key))

    def outcome(self, key):
        self._outcomes.add(key if isinstance(key, (str, int, bytes, tuple)) else repr(key))

    def sample(self, case):
        if len(self.samples) < MAX_SAMPLES:
            self.samples.append(jsonable(case))

    def note(self, key, value):
        self.notes[key] = value

    def add_note(self, key, inc=1):
        self.notes[key] = self.notes.get(key, 0) + inc

    def cap_hit(self, what: str):
        self.exhaustive = False
        self.caps.append(what)

    def out_of_time(self) -> bool:
        return self.deadline is not None and time.time() > self.deadline

    # ---- violations -----------------------------------------------------------------------
    def violation(self, signature: str, what: str, case=None, repro: str | None = None):
        """Record a property violation.

        signature : canonical, input-class-level description of *what fails* (stable across runs
                    and seeds); known findings are matched on it.
        what      : one-line human description (first occurrence kept)
        case      : JSON-able description of the minimal failing case, consumed by <module>.replay
        repro     : optional self-contained python snippet (imports only molli)
        """
        self.violation_counts[signature] = self.violation_counts.get(signature, 0) + 1
        if signature not in self.violations:
            self.violations[signature] = {
                "signature": signature,
                "what": what,
                "case": jsonable(case),
                "python_repro": repro,
            }

    # ---- merging of partitions ------------------------------------------------------------
    def export(self) -> dict:
        return {
            "evaluations": self.evaluations,
            "states": self.states,
            "transitions": self.transitions,
            "traces": self.traces,
            "nontrivial": self._nontrivial,
            "outcomes": self._outcomes,
            "state_keys": self.state_keys,
            "samples": self.samples,
            "violations": self.violations,
            "violation_counts": self.violation_counts,
            "notes": self.notes,
            "exhaustive": self.exhaustive,
            "caps": self.caps,
        }

    def merge(self, d: dict):
        self.evaluations += d["evaluations"]
        self.states += d["states"]
        self.transitions += d["transitions"]
        self.traces += d["traces"]
        self._nontrivial |= d["nontrivial"]
        self._outcomes |= d["outcomes"]
        self.state_keys |= d.get("state_keys", set())
        for s in d["samples"]:
            if len(self.samples) < MAX_SAMPLES:
                self.samples.append(s)
        for k, v in d["violations"].items():
            self.violations.setdefault(k, v)
        for k, n in d["violation_counts"].items():
            self.violation_counts[k] = self.violation_counts.get(k, 0) + n
        for k, v in d["notes"].items():
            if isinstance(v, (int, float)) and isinstance(self.notes.get(k, 0), (int, float)):
                self.notes[k] = self.notes.get(k, 0) + v
            else:
                self.notes.setdefault(k, v)
        if not d["exhaustive"]:
            self.exhaustive = False
        self.caps += d["caps"]

    def sub(self, idx: int) -> "Ctx":
        c = Ctx(self.pid, self.tier, self.seed, self.level, None)
        if self.scratch is not None:
            c.scratch = Path(self.scratch) / f"part{idx}"
            c.scratch.mkdir(parents=True, exist_ok=True)
        c.deadline = self.deadline
        return c

    # ---- deterministic fan-out ------------------------------------------------------------
    def pmap(self, func, parts: list, nproc: int | None = None):
        """Run func(sub_ctx, part) for every part (every part is completed; the partition only
        changes wall time).  Forked workers, so molli is imported once."""
        if nproc is None:
            nproc = int(os.environ.get("VERIF_NPROC", "0")) or (min(16, os.cpu_count() or 1) if self.thorough else min(8, os.cpu_count() or 1))
        nproc = max(1, min(nproc, len(parts)))
        if nproc == 1 or len(parts) <= 1:
            for i, p in enumerate(parts):
                sc = self.sub(i)
                func(sc, p)
                self.merge(sc.export())
            return
        mpctx = mp.get_context("fork")
        # the jobs are pickled by the pool's feeder thread while this thread merges finished parts into
        # `self`: they carry an empty stand-in with the parent's identity, never the parent itself
        stub = Ctx(self.pid, self.tier, self.seed, self.level, self.scratch)
        stub.deadline = self.deadline
        jobs = [(stub, func, i, p) for i, p in enumerate(parts)]
        with mpctx.Pool(nproc, maxtasksperchild=None) as pool:
            for res in pool.imap_unordered(_pmap_worker, jobs, chunksize=1):
                if "error" in res:
                    raise HarnessError("worker failed:\n" + res["error"])
                self.merge(res)


def _pmap_worker(job):
    parent, func, i, part = job
    try:
        sc = parent.sub(i)
        func(sc, part)
        return sc.export()
    except BaseException:
        return {"error": traceback.format_exc()}


# ---- known findings ---------------------------------------------------------------------------
def load_known(pid: str) -> dict[str, dict]:
    if not KNOWN_FILE.exists():
        return {}
    data = json.loads(KNOWN_FILE.read_text())
    out = {}
    for e in data.get("findings", []):
        if e.get("property") == pid and e.get("status") == "known":
            out[e["signature"]] = e
    return out


# ---- finishing --------------------------------------------------------------------------------
def finish(ctx: Ctx, write_evidence: bool = True) -> int:
    known = load_known(ctx.pid)
    real = []
    knownhits = []
    for sig, v in sorted(ctx.violations.items()):
        if sig in known:
            knownhits.append((sig, v))
        else:
            real.append((sig, v))

    REPLAY_DIR.joinpath(ctx.pid).mkdir(parents=True, exist_ok=True)
    lines = []
    for sig, v in knownhits:
        lines.append(f"KNOWN-FINDING: property={ctx.pid} {known[sig].get('what', v['what'])} [sig={sig}; {ctx.violation_counts[sig]} case(s)]")
    written = 0
    for sig, v in real:
        path = REPLAY_DIR / ctx.pid / f"{sig_hash(sig)}.json"
        if written < MAX_REPLAY_FILES:
            art = dict(v)
            art.update({"property": ctx.pid, "tier": ctx.tier, "seed": ctx.seed, "count": ctx.violation_counts[sig]})
            path.write_text(json.dumps(art, indent=1, sort_keys=True))
            written += 1
        lines.append(f"VIOLATION property={ctx.pid} replay={path} :: {sig} :: {v['what']}")

    if ctx.state_keys:
        ctx.states += len(ctx.state_keys)
        ctx.state_keys = set()
    if ctx.evaluations == 0:
        ctx.evaluations = ctx.transitions
    if ctx.traces == 0:
        ctx.traces = ctx.evaluations  # every execution runs on the implementation itself
    wall = time.time() - ctx.t0
    nontriv = len(ctx._nontrivial)
    outcomes = len(ctx._outcomes)
    cov = {
        "states": ctx.states,
        "transitions": ctx.transitions,
        "traces_validated_against_impl": ctx.traces,
        "evaluations": ctx.evaluations,
        "distinct_nontrivial": nontriv,
        "distinct_outcomes": outcomes,
        "rule": ctx.rule,
        "samples": ctx.samples,
        "bound": ctx.bound,
        "exhaustive": ctx.exhaustive,
        "caps_hit": ctx.caps,
        "notes": jsonable(ctx.notes),
        "violation_signatures": {s: ctx.violation_counts[s] for s, _ in real},
        "known_finding_signatures": {s: ctx.violation_counts[s] for s, _ in knownhits},
    }
    ev = {
        "property_id": ctx.pid,
        "tier": ctx.tier,
        "seed": ctx.seed,
        "level": ctx.level,
        "coverage": cov,
        "assumptions": ctx.assumptions,
        "wall_s": round(wall, 3),
        "violations": len(real),
    }
    if write_evidence:
        EVIDENCE_DIR.mkdir(exist_ok=True)
        (EVIDENCE_DIR / f"{ctx.pid}.json").write_text(json.dumps(ev, indent=1, sort_keys=True))

    for l in lines:
        print(l)
    print(
        f"[{ctx.pid}] tier={ctx.tier} seed={ctx.seed} states={ctx.states} transitions={ctx.transitions} "
        f"evaluations={ctx.evaluations} nontrivial={nontriv} outcomes={outcomes} exhaustive={ctx.exhaustive} "
        f"violations={len(real)} known={len(knownhits)} wall={wall:.1f}s"
    )
    if real:
        return 1
    # vacuity guard: a run that executed nothing, or in which nothing ever differed, decides nothing
    if ctx.states < 1 or ctx.transitions < 1 or not ctx.samples:
        print(f"HARNESS-ERROR property={ctx.pid} vacuous run (no states/transitions/samples)")
        return 2
    if outcomes < 2 or nontriv < 2:
        print(f"HARNESS-ERROR property={ctx.pid} vacuous run (distinct outcomes={outcomes}, nontrivial={nontriv})")
        return 2
    return 0
