"""
tlcx - TLC as the explicit-state explorer of a session-level model, and extraction of ALL its
behaviours for replay against the implementation.

models/Sessions.tla: N processes, each running a program of reading ("R") / writing ("W")
sessions under a reader/writer lock; one step = acquire or release; the history variable `hist`
makes every terminal state carry one complete behaviour.  TLC enumerates every reachable state
for every assignment of programs from a menu; `behaviours()` returns them all.
"""
from __future__ import annotations

import ast
import itertools
import re
import shutil
import subprocess
from pathlib import Path

MODEL = Path(__file__).resolve().parent.parent / "models" / "Sessions.tla"


class TLCUnavailable(Exception):
    pass


def _tla(seq):
    return "<<" + ", ".join(f'"{x}"' for x in seq) + ">>"


def behaviours(workdir: Path, nproc: int, menu, timeout=600):
    """Runs TLC on Sessions.tla; returns (stats, {programs(tuple of tuples): [trace, ...]}) where a
    trace is a list of (process index from 0, "acq"|"rel", "R"|"W")."""
    if shutil.which("tlc") is None:
        raise TLCUnavailable("tlc not on PATH")
    workdir = Path(workdir)
    if workdir.exists():
        shutil.rmtree(workdir)
    (workdir / "meta").mkdir(parents=True)
    shutil.copy(MODEL, workdir / "Sessions.tla")
    (workdir / "MC.tla").write_text(
        "---- MODULE MC ----\nEXTENDS Sessions\nMenuDef == {" + ", ".join(_tla(m) for m in menu) + "}\n====\n"
    )
    (workdir / "MC.cfg").write_text(f"SPECIFICATION Spec\nINVARIANT Exclusion\nCONSTANTS\n  NProc = {nproc}\n  Menu <- MenuDef\n")
    cmd = ["tlc", "-workers", "1", "-deadlock", "-noGenerateSpecTE", "-metadir", "meta", "-dump", "states.dump", "MC"]
    r = subprocess.run(cmd, cwd=workdir, capture_output=True, text=True, timeout=timeout)
    out = r.stdout + r.stderr
    if "Model checking completed. No error has been found" not in out:
        raise TLCUnavailable("TLC did not complete cleanly:\n" + out[-1500:])
    m = re.search(r"(\d+) states generated, (\d+) distinct states found", out)
    stats = {"states_generated": int(m.group(1)), "distinct_states": int(m.group(2))} if m else {}
    dump = (workdir / "states.dump").read_text()
    result: dict = {}
    nstates = 0
    for block in re.split(r"^State \d+:\s*$", dump, flags=re.M)[1:]:
        nstates += 1
        vars_ = {}
        for part in re.split(r"^/\\ ", block, flags=re.M)[1:]:
            name, _, val = part.partition(" = ")
            vars_[name.strip()] = _parse(" ".join(val.split()))
        prog, pc, inside, hist = vars_["prog"], vars_["pc"], vars_["inside"], vars_["hist"]
        if all(i == "-" for i in inside) and all(pc[p] > len(prog[p]) for p in range(len(prog))):
            key = tuple(tuple(p) for p in prog)
            result.setdefault(key, []).append([(h[0] - 1, h[1], h[2]) for h in hist])
    stats["dump_states"] = nstates
    stats["behaviours"] = sum(len(v) for v in result.values())
    return stats, result


def _parse(txt: str):
    t = txt.replace("<<", "[").replace(">>", "]")
    return ast.literal_eval(t)
