"""
schedx - controlled scheduler over real OS processes, deviation(preemption)-bounded DFS.

The fasteners reader/writer lock is fcntl based, i.e. per *process*: participants are real forked
processes.  Inside a worker the harness wraps, at run time (nothing in /repo changes):

  * fasteners' lock primitive  _interprocess_reader_writer_mechanism.trylock / unlock
      -> scheduling points  "lock?" / "unlock".  A failed trylock is reported as *blocked*; the
         worker is disabled until some other worker has COMPLETED an unlock (waiting is made
         visible; the retry loop never sleeps).
  * pathlib.Path.open on the library file  -> scheduling points "open", "write", "trunc", "close"
    (+ the places where faults are injected).

Protocol (worker -> controller):  ("pt", label, info, prev)  before an action, prev = outcome of
the previous action;  ("blocked",) after a failed trylock;  ("done", log) at the end.
Controller -> worker: ("go",)  /  ("wake",).

An execution is the sequence of choices "which enabled worker performs its announced action".
`explore` enumerates all executions with at most `bound` preemptions (a preemption = switching
away from a worker that is still enabled), exactly as in iterative context bounding.
"""
from __future__ import annotations

import os
import pathlib
import signal
import time
import traceback
import multiprocessing as mp

RECV_TIMEOUT = 20.0


class WorkerHang(Exception):
    pass


class InjectedFault(Exception):
    pass


# =================================================================================================
# worker side
# =================================================================================================
class Env:
    def __init__(self, wid, conn):
        self.wid = wid
        self.conn = conn
        self.active = False
        self.prev = None
        self.libreal = None
        self.fault = None  # (kind, n) for the current session
        self.fcount = {}
        self.fault_fired = False
        self.orig_open = pathlib.Path.open
        self.nonblocking = False  # the current lock acquisition is a timeout/non-blocking attempt
        self._refused = False
        self.capturing = False  # atexit registrations are collected instead of registered
        self.exit_funcs = []
        self.lock_tag = ""  # set by the body: ":lib2" = a session on another library, "@inner" = acquisitions nested inside a session / of a constructor in between

    def lock_info(self, lockfile, mode):
        return ((mode or "") + self.lock_tag) or None

    # -- scheduling point -------------------------------------------------------------------
    def point(self, label, info=None):
        if not self.active:
            return
        self.conn.send(("pt", label, info, self.prev))
        self.prev = None
        msg = self.conn.recv()
        if msg[0] != "go":
            raise RuntimeError(f"worker {self.wid}: unexpected {msg}")

    def blocked(self):
        self.conn.send(("blocked",))
        msg = self.conn.recv()
        if msg[0] != "wake":
            raise RuntimeError(f"worker {self.wid}: unexpected {msg} while blocked")

    # -- fault points -----------------------------------------------------------------------
    def begin_session(self, fault):
        self.fault = tuple(fault) if fault else None
        self.fcount = {}
        self.fault_fired = False

    def fault_here(self, kind) -> bool:
        """True exactly at the n-th occurrence of `kind` in the current session."""
        n = self.fcount.get(kind, 0)
        self.fcount[kind] = n + 1
        if self.fault and self.fault[0] == kind and self.fault[1] == n and not self.fault_fired:
            self.fault_fired = True
            return True
        return False

    # -- hooks ------------------------------------------------------------------------------
    def install(self):
        import fasteners.process_lock as pl

        env = self
        mech = pl._interprocess_reader_writer_mechanism
        o_try, o_unlock = mech.trylock, mech.unlock

        def trylock(lockfile, exclusive):
            if not env.active:
                return o_try(lockfile, exclusive)
            if env.nonblocking and env._refused:
                return False  # a retry inside the same timed-out attempt: no new scheduling point
            while True:
                env.point("lock?", env.lock_info(lockfile, "excl" if exclusive else "shared"))
                got = o_try(lockfile, exclusive)
                if got:
                    env.prev = "acquired"
                    return True
                if env.nonblocking:
                    # an attempt with a timeout: it gives up instead of waiting
                    env.prev = "would-block"
                    env._refused = True
                    return False
                env.blocked()

        def unlock(lockfile):
            if env.active:
                env.point("unlock", env.lock_info(lockfile, None))
            r = o_unlock(lockfile)
            env.prev = "unlocked"
            return r

        mech.trylock = trylock
        mech.unlock = unlock

        import atexit as _atexit

        o_reg, o_unreg = _atexit.register, _atexit.unregister

        def register(func, *a, **k):
            if env.capturing:
                env.exit_funcs.append((func, a, k))
                return func
            return o_reg(func, *a, **k)

        def unregister(func):
            if env.capturing:
                env.exit_funcs[:] = [t for t in env.exit_funcs if t[0] != func]
            return o_unreg(func)

        _atexit.register = register
        _atexit.unregister = unregister

        orig_open = self.orig_open

        def open_(p, mode="r", *a, **k):
            if env.active and env.libreal is not None and "b" in mode and os.path.realpath(str(p)) == env.libreal:
                env.point("open", mode)
                if env.fault_here("open"):
                    env.prev = "open-raised"
                    raise OSError("injected: open failed")
                f = orig_open(p, mode, *a, **k)
                env.prev = "opened:" + mode
                return SchedStream(f, env, mode, os.path.realpath(str(p)))
            return orig_open(p, mode, *a, **k)

        pathlib.Path.open = open_


class SchedStream:
    """Proxy of the library stream: scheduling points at write/truncate/close, fault injection,
    and bookkeeping of what is durable (on disk) as opposed to sitting in Python's write buffer."""

    def __init__(self, inner, env, mode, path=None):
        self._inner = inner
        self._env = env
        self._mode = mode
        self._path = path
        self._durable = self._disk_size()

    def _disk_size(self):
        try:
            return os.fstat(self._inner.fileno()).st_size
        except Exception:
            return None

    def _sync(self):
        # seek/read/flush/truncate push Python's write buffer to the file
        self._durable = self._disk_size()

    def seek(self, *a):
        r = self._inner.seek(*a)
        self._sync()
        return r

    def read(self, *a):
        r = self._inner.read(*a)
        self._sync()
        return r

    def flush(self):
        r = self._inner.flush()
        self._sync()
        return r

    def write(self, b):
        env = self._env
        env.point("write", len(b))
        if env.fault_here("write"):
            # a failing write may have put part of the data on disk
            half = bytes(b)[: len(b) // 2]
            if half:
                self._inner.write(half)
                self._inner.flush()
            env.prev = "write-raised"
            raise OSError("injected: write failed")
        n = self._inner.write(b)
        if len(b) >= 8192:
            self._sync()  # larger than the buffer: written through
        env.prev = "written"
        return n

    def truncate(self, size=None):
        self._env.point("trunc", size)
        r = self._inner.truncate(size)
        self._sync()
        self._env.prev = "truncated"
        return r

    def close(self):
        env = self._env
        if self._inner.closed:
            return
        env.point("close", self._mode)
        if self._mode != "rb" and env.fault_here("flush"):
            # the final flush of the buffered data fails (disk full, quota, EFBIG): what was still
            # in the buffer never reaches the file; the descriptor is closed, the error is reported
            durable = self._durable
            self._inner.close()
            if durable is not None and self._path is not None:
                try:
                    if os.path.getsize(self._path) > durable:
                        os.truncate(self._path, durable)
                except OSError:
                    pass
            env.prev = "closed-but-buffer-lost"
            raise OSError(27, "injected: flush at close failed, buffered data lost")
        self._inner.close()
        if env.fault_here("close"):
            # like a failing flush-on-close: the descriptor is gone, the error is reported
            env.prev = "closed-but-raised"
            raise OSError("injected: close failed")
        env.prev = "closed"

    def __getattr__(self, name):
        return getattr(self._inner, name)


def _worker_main(wid, conn, body):
    env = Env(wid, conn)
    try:
        env.install()
        while True:
            msg = conn.recv()
            if msg[0] == "quit":
                break
            if msg[0] == "exec":
                try:
                    body(env, msg[1], conn)
                except BaseException:
                    env.active = False
                    conn.send(("crash", traceback.format_exc()))
    except (EOFError, KeyboardInterrupt):
        pass
    finally:
        os._exit(0)


# =================================================================================================
# controller side
# =================================================================================================
class Worker:
    def __init__(self, wid, body):
        self.wid = wid
        parent, child = mp.Pipe()
        pid = os.fork()
        if pid == 0:
            parent.close()
            _worker_main(wid, child, body)
            os._exit(0)
        child.close()
        self.conn = parent
        self.pid = pid

    def send(self, msg):
        self.conn.send(msg)

    def recv(self, timeout=RECV_TIMEOUT):
        if not self.conn.poll(timeout):
            raise WorkerHang(f"worker {self.wid} did not answer within {timeout}s")
        return self.conn.recv()

    def kill(self):
        try:
            os.kill(self.pid, signal.SIGKILL)
        except ProcessLookupError:
            pass
        try:
            os.waitpid(self.pid, 0)
        except ChildProcessError:
            pass
        try:
            self.conn.close()
        except Exception:
            pass


class Execution:

    def __init__(self):
        self.points = []  # per choice point: (enabled ids in canonical order, running_still_enabled)
        self.choices = []  # index into the canonical order
        self.logs = {}
        self.verdicts = []  # (symptom, detail)
        self.trace = []  # (wid, label, info)
        self.crashed = None


class Controller:
    def __init__(self, nworkers, body, monitor_factory):
        self.n = nworkers
        self.body = body
        self.monitor_factory = monitor_factory
        self.workers = [Worker(i, body) for i in range(nworkers)]

    def close(self):
        for w in self.workers:
            try:
                w.send(("quit",))
            except Exception:
                pass
        for w in self.workers:
            w.kill()

    def refork(self):
        for w in self.workers:
            w.kill()
        self.workers = [Worker(i, self.body) for i in range(self.n)]

    # ---------------------------------------------------------------------------------------
    def run(self, programs, prefix, reset_env, horizon=4000, chooser=None) -> Execution:
        """programs[i] is handed to worker i.  The body performs an unscheduled setup phase
        (sends ("ready",)), then runs scheduled.  Choices follow `prefix`, then the default
        (keep running the same worker if still enabled, else the lowest enabled id)."""
        x = Execution()
        reset_env()
        mon = self.monitor_factory()
        W = self.workers
        try:
            # sequential unscheduled setup, fixed order
            for i, w in enumerate(W):
                w.send(("exec", programs[i]))
                m = w.recv()
                if m[0] != "ready":
                    raise WorkerHang(f"worker {i} setup failed: {m}")
            for w in W:
                w.send(("start",))
            pending = {}  # wid -> (label, info)
            blocked = set()
            done = set()
            last_action = {}

            def absorb(i, m):
                """m is worker i's next message after it was released; returns True when that
                message proves that an unlock has completed."""
                if m[0] == "pt":
                    _, label, info, prev = m
                    if i in last_action:
                        mon.completed(i, last_action.pop(i), prev, x)
                    pending[i] = (label, info)
                    return prev == "unlocked"
                if m[0] == "blocked":
                    la = last_action.pop(i, None)
                    blocked.add(i)
                    pending[i] = ("lock?", la[1] if la else None)
                    return False
                if m[0] == "done":
                    prev = m[2] if len(m) > 2 else None
                    if i in last_action:
                        mon.completed(i, last_action.pop(i), prev, x)
                    done.add(i)
                    x.logs[i] = m[1]
                    pending.pop(i, None)
                    return prev == "unlocked"
                if m[0] == "crash":
                    x.crashed = (i, m[1])
                    raise WorkerHang(f"worker {i} crashed in the harness body:\n{m[1]}")
                raise WorkerHang(f"worker {i}: unexpected message {m[0]}")

            def wake_all():
                for j in sorted(blocked):
                    W[j].send(("wake",))
                    blocked.discard(j)
                    mj = W[j].recv()
                    # a woken worker re-announces its lock? point
                    if mj[0] != "pt":
                        raise WorkerHang(f"worker {j}: expected re-announcement, got {mj[0]}")
                    pending[j] = (mj[1], mj[2])

            for i, w in enumerate(W):
                absorb(i, w.recv())
            running = None
            steps = 0
            while len(done) < self.n:
                enabled = [i for i in range(self.n) if i in pending and i not in blocked and i not in done]
                if not enabled:
                    x.verdicts.append(("deadlock", f"no enabled worker; blocked={sorted(blocked)} done={sorted(done)}"))
                    break
                steps += 1
                if steps > horizon:
                    x.verdicts.append(("livelock", f"horizon of {horizon} steps exceeded"))
                    break
                still = running in enabled
                order = ([running] if still else []) + [i for i in enabled if i != running]
                ci = len(x.choices)
                if chooser is not None:
                    # directed execution (e.g. following a behaviour of the TLA+ model)
                    c = chooser(order, pending, mon)
                    if c is None:
                        x.verdicts.append(("model-behaviour-refused", "the implementation cannot take the step the model behaviour prescribes"))
                        break
                elif ci < len(prefix):
                    c = prefix[ci]
                    if c >= len(order):
                        raise WorkerHang(f"replay divergence: choice {c} out of range {len(order)} at point {ci}")
                else:
                    c = 0
                x.points.append((tuple(order), still))
                x.choices.append(c)
                i = order[c]
                label, info = pending.pop(i)
                x.trace.append((i, label, info))
                last_action[i] = (label, info)
                if hasattr(mon, "before"):
                    # e.g. a probe from this (another) process that a lock believed to be held really is held
                    mon.before(i, (label, info), x)
                W[i].send(("go",))
                unl = absorb(i, W[i].recv())
                running = i
                if mon.violations:
                    x.verdicts += mon.violations
                    mon.violations = []
                    break
                if unl and blocked:
                    wake_all()
            if not x.verdicts:
                x.verdicts += mon.violations
        except WorkerHang as e:
            x.verdicts.append(("hang", str(e)[:400]))
            self.refork()
            return x
        if x.verdicts:
            # workers may be stuck mid-session: start over with fresh ones
            self.refork()
        return x


def preemptions_before(x: Execution, i: int) -> int:
    n = 0
    for j in range(i):
        order, still = x.points[j]
        if still and x.choices[j] != 0:
            n += 1
    return n


def explore(ctl: Controller, programs, reset_env, bound, on_execution, max_exec=None):
    """Deviation-bounded DFS (iterative context bounding). on_execution(x, prefix) is called for
    every complete execution; returns the number of executions."""
    count = 0
    stack = [[]]
    while stack:
        prefix = stack.pop()
        x = ctl.run(programs, prefix, reset_env)
        count += 1
        stop = on_execution(x, prefix)
        if stop:
            break
        if max_exec and count >= max_exec:
            return count, False
        for i in range(len(prefix), len(x.points)):
            order, still = x.points[i]
            cost = preemptions_before(x, i)
            for alt in range(1, len(order)):
                c = cost + (1 if still else 0)
                if c > bound:
                    continue
                stack.append(list(x.choices[:i]) + [alt])
    return count, True
