"""
seqx - explicit-state breadth-first search over histories of *real* operations.

A state is identified by the history that reaches it and is rebuilt by replaying that history on
fresh real objects (live objects - open files, weakref'd parents, numpy views - do not copy).

System protocol (duck-typed object `sysm`):
    build(hist)        -> state : fresh real objects + reference model, history replayed
                                  (replay of an already-validated prefix must not report anything)
    enabled(state)     -> list of ops (JSON-able tuples), simplest first
    step(state, op)    -> bool  : perform the real call + the model step, run every oracle, report
                                  violations through state.ctx / sysm.ctx; False = do not expand
                                  (the state is the product of a violation)
    canon(state)       -> hashable canonical form (everything future behaviour can depend on)
    observe(state)     -> hashable: everything the public accessors return (differential check)
    dispose(state)     -> release files etc.
"""
from __future__ import annotations

import hashlib
from collections import deque

from .core import HarnessError


def _h(k) -> bytes:
    return hashlib.blake2b(repr(k).encode(), digest_size=10).digest()


def bfs(ctx, sysm, inits, depth, partition=None, sample_every=0):
    """Explore every history inits[i] + ops (len(ops) <= depth), deduplicating by canon.

    partition=(i, n): after the common prefix phase (depth `split`), only frontier entries whose
    index % n == i are expanded; used by pbfs.
    Returns the number of distinct states first reached at the deepest completed level.
    """
    seen: dict = {}
    frontier = deque()
    for h in inits:
        s = sysm.build(list(h))
        k = _h(sysm.canon(s))
        if k not in seen:
            seen[k] = _h(sysm.observe(s))
            frontier.append((list(h), 0))
        sysm.dispose(s)
    _expand(ctx, sysm, frontier, seen, depth)
    ctx.state_keys |= set(seen)
    return len(seen)


def _expand(ctx, sysm, frontier, seen, depth):
    nsample = 0
    while frontier:
        h, d = frontier.popleft()
        if d >= depth:
            continue
        if ctx.out_of_time():
            ctx.cap_hit(f"wall-clock budget hit with {len(frontier)+1} frontier states unexpanded at depth {d}")
            return
        s = sysm.build(h)
        ops = sysm.enabled(s)
        first = True
        for op in ops:
            if not first:
                s = sysm.build(h)
            first = False
            ok = sysm.step(s, op)
            ctx.transitions += 1
            if ok:
                k = _h(sysm.canon(s))
                o = _h(sysm.observe(s))
                ctx.outcome(o)
                if sysm.is_nontrivial(s):
                    ctx.nontrivial(k)
                if k in seen:
                    if seen[k] != o:
                        sysm.dispose(s)
                        raise HarnessError(f"canonical form too coarse: two states with equal canon differ in observation; history={h + [op]}")
                else:
                    seen[k] = o
                    frontier.append((h + [op], d + 1))
                    nsample += 1
                    if nsample in (1, 50, 500, 5000, 50000):
                        ctx.sample({"history": h + [op]})
            sysm.dispose(s)
        if not ops:
            sysm.dispose(s)


def pbfs(ctx, make_sys, inits, depth, nproc=None, chunk=64):
    """Level-synchronous parallel BFS with global deduplication.  Each level's frontier is cut
    into chunks that forked workers expand on the real implementation; the master merges the
    successors in chunk order (deterministic), deduplicates by canon hash and runs the
    differential check.  Coverage is identical to the sequential search."""
    import multiprocessing as mp
    import os

    if nproc is None:
        nproc = int(os.environ.get("VERIF_NPROC", "0")) or min(16, os.cpu_count() or 1)
    sysm = make_sys(ctx)
    seen: dict = {}
    frontier = []
    for h in inits:
        s = sysm.build(list(h))
        k = _h(sysm.canon(s))
        if k not in seen:
            seen[k] = _h(sysm.observe(s))
            frontier.append(list(h))
        sysm.dispose(s)
    global _PB
    for d in range(depth):
        if not frontier:
            break
        if ctx.out_of_time():
            ctx.cap_hit(f"wall-clock budget hit before level {d+1}; {len(frontier)} frontier states unexpanded")
            break
        chunks = [frontier[i : i + chunk] for i in range(0, len(frontier), chunk)]
        _PB = (ctx, make_sys)
        results = [None] * len(chunks)
        if nproc <= 1 or len(chunks) == 1:
            for i, c in enumerate(chunks):
                results[i] = _pb_work((i, c))
        else:
            with mp.get_context("fork").Pool(min(nproc, len(chunks))) as pool:
                for res in pool.imap_unordered(_pb_work, list(enumerate(chunks)), chunksize=1):
                    results[res["i"]] = res
        nxt = []
        for res in results:
            if "error" in res:
                raise HarnessError("worker failed:\n" + res["error"])
            ctx.merge(res["ctx"])
            for k, o, h in res["succ"]:
                if k in seen:
                    if seen[k] != o:
                        raise HarnessError(f"canonical form too coarse; history={h}")
                else:
                    seen[k] = o
                    nxt.append(h)
        for j in (0, len(nxt) // 2, len(nxt) - 1):
            if nxt and 0 <= j < len(nxt):
                ctx.sample({"history": nxt[j]})
        frontier = nxt
        ctx.note(f"level_{d+1}_new_states", len(nxt))
    ctx.state_keys |= set(seen)


_PB = None


def _pb_work(arg):
    import traceback

    i, hists = arg
    try:
        parent, make_sys = _PB
        sc = parent.sub(i % 64)
        sm = make_sys(sc)
        succ = []
        local = set()
        for h in hists:
            s = sm.build(h)
            ops = sm.enabled(s)
            sm.dispose(s)
            for op in ops:
                s = sm.build(h)
                ok = sm.step(s, op)
                sc.transitions += 1
                if ok:
                    k = _h(sm.canon(s))
                    if k not in local:
                        local.add(k)
                        o = _h(sm.observe(s))
                        sc.outcome(o)
                        if sm.is_nontrivial(s):
                            sc.nontrivial(k)
                        succ.append((k, o, h + [op]))
                sm.dispose(s)
        return {"i": i, "ctx": sc.export(), "succ": succ}
    except BaseException:
        return {"i": i, "error": traceback.format_exc()}


def extra_state(obj, known=()):
    """Generic fingerprint of instance state that a check's canonical form does not model
    explicitly: every attribute in vars(obj) / set slots that is not in `known`, as
    (name, type, structural digest).  A cache or cursor attribute that a regression introduces
    thereby creates new canonical states (which get expanded) instead of hiding behind a state
    that looks identical to the model."""
    out = []
    names = set(getattr(obj, "__dict__", {}))
    for klass in type(obj).__mro__:
        for s in getattr(klass, "__slots__", ()) or ():
            if isinstance(s, str) and hasattr(obj, s):
                names.add(s)
    for n in sorted(names):
        if n in known:
            continue
        try:
            v = getattr(obj, n)
        except Exception:
            continue
        out.append((n, type(v).__name__, _digest(v)))
    return tuple(out)


def _digest(v, depth=0):
    if v is None or isinstance(v, (bool, int, str, bytes)):
        return v if not isinstance(v, (str, bytes)) or len(v) <= 32 else (len(v), hash(v) & 0xFFFF)
    if isinstance(v, float):
        return "float"
    if depth > 2:
        return type(v).__name__
    if isinstance(v, dict):
        return ("dict", len(v), tuple(sorted(repr(k)[:24] for k in list(v)[:8])))
    if isinstance(v, (list, tuple, set, frozenset)):
        vs = list(v)[:4]
        return (type(v).__name__, len(v), tuple(_digest(x, depth + 1) for x in vs) if not isinstance(v, (set, frozenset)) else ())
    shp = getattr(v, "shape", None)
    if shp is not None:
        return ("array", tuple(shp), str(getattr(v, "dtype", "")))
    try:
        return (type(v).__name__, len(v))
    except Exception:
        return type(v).__name__
