"""
C14 - a conformer ensemble stays rectangular, its conformers are live views, iteration is sound.

Explicit-state BFS (engine seqx) over histories of real operations on a real
`molli.ConformerEnsemble`, against a reference model that is three plain numpy arrays
(coords (nc,na,3), charges (nc,na), weights (nc,)) plus one integer position per live iterator.

What the oracle demands (exactly the clauses of the property text):
  R  after every step  coords.shape == (nc,na,3), atomic_charges.shape == (nc,na),
     weights.shape == (nc,), n_conformers == nc, n_atoms == na
  V  every ens[i] (by index, negative index, slice, iteration) reads row i in every accessor and a
     write through it (element, whole array, geometry method) changes exactly that row of exactly
     that array in the ensemble, and nothing else (no other row, no other array, no foreign object)
  W  a conformer / the ensemble can be dumped (xyz, mol2) and stored in a library and what is
     written is row i
  I  every iterator over the ensemble yields rows 0..nc-1 once each, in order, whatever other
     iterators / loops / ensemble methods run in between

What it deliberately does NOT demand (the text is silent; the model re-synchronises from the real
object after checking the shapes): which values a constructor / append / extend / collective
transformation stores (C06 / C11 are about those).
"""
from __future__ import annotations

import atexit
import os
from pathlib import Path

import numpy as np

from mc import seqx
from mc.core import HarnessError

import molli as ml
from molli.chem import Atom, Molecule, Structure, ConformerEnsemble

LEVEL = "model_checking"

ELEMS = ["C", "H", "O", "N"]

# classes of operations that may run between two `next` calls of one iterator (bit mask)
M_ITER, M_DUMP, M_CENTER, M_OTHER = 1, 2, 4, 8


def exc_name(e):
    return type(e).__name__


def eqnan(a, b):
    a = np.asarray(a)
    b = np.asarray(b)
    if a.shape != b.shape:
        return False
    try:
        if a.dtype.kind != "f":
            a = a.astype(np.float64)
        if b.dtype.kind != "f":
            b = b.astype(np.float64)
        return bool(((a == b) | ((a != a) & (b != b))).all())
    except (TypeError, ValueError):
        return False


def close(a, b, tol):
    a = np.asarray(a, dtype=np.float64)
    b = np.asarray(b, dtype=np.float64)
    if a.shape != b.shape:
        return False
    na, nb = np.isnan(a), np.isnan(b)
    if not np.array_equal(na, nb):
        return False
    ia, ib = np.isinf(a), np.isinf(b)
    if not np.array_equal(ia, ib) or not np.array_equal(a[ia], b[ib]):
        return False
    m = ~(na | ia)
    return bool(np.all(np.abs(a[m] - b[m]) <= tol))


# -------------------------------------------------------------------------------------------------
# fixtures: everything is a dyadic rational, so 6-decimal text and float32 are exact
# -------------------------------------------------------------------------------------------------
def base_coords(na, k, seed):
    s = seed % 3
    a = np.zeros((na, 3))
    for j in range(na):
        for x in range(3):
            a[j, x] = 0.125 * (1 + x + 3 * j + 9 * k + 5 * s) * (-1 if (j + x + s) % 2 else 1)
    return a


def base_charges(na, k, seed):
    # distinct and non-zero for every (molecule k, atom j): a lost charge row is never equal to a default
    return np.array([0.25 * (j + 1) + 1.0 * k + 0.125 * (seed % 3) for j in range(na)], dtype=float).reshape((na,))


def mk_atoms(na):
    return [Atom(ELEMS[j % len(ELEMS)], label=f"{ELEMS[j % len(ELEMS)]}{j}") for j in range(na)]


def mk_mol(na, k, seed, name="mol"):
    m = Molecule(mk_atoms(na), name=name)
    if na:
        m.coords = base_coords(na, k, seed)
        m.atomic_charges = base_charges(na, k, seed)
    for j in range(na - 1):
        m.connect(j, j + 1)
    return m


def xyz_text(na, ks, seed):
    out = []
    for k in ks:
        c = base_coords(na, k, seed)
        out.append(f"{na}\nmol\n")
        for j in range(na):
            out.append(f"{ELEMS[j % 4]:<5} {c[j,0]:12.6f} {c[j,1]:12.6f} {c[j,2]:12.6f}\n")
    return "".join(out)


def mol2_text(na, ks, seed):
    out = []
    for k in ks:
        c = base_coords(na, k, seed)
        q = base_charges(na, k, seed)
        out.append(f"@<TRIPOS>MOLECULE\nmol\n{na} {max(na-1,0)} 0 0 0\nSMALL\nUSER_CHARGES\n\n@<TRIPOS>ATOM\n")
        for j in range(na):
            e = ELEMS[j % 4]
            out.append(f"{j+1:>6} {e}{j:<3} {c[j,0]:>12.6f} {c[j,1]:>12.6f} {c[j,2]:>12.6f} {e:<10} 1 UNL1 {q[j]:0.3f}\n")
        out.append("@<TRIPOS>BOND\n")
        for j in range(na - 1):
            out.append(f"{j+1:>6} {j+1:>6} {j+2:>6}   1\n")
    return "".join(out)


ROT_Z90 = np.array([[0.0, -1.0, 0.0], [1.0, 0.0, 0.0], [0.0, 0.0, 1.0]])
ROT_X90 = np.array([[1.0, 0.0, 0.0], [0.0, 0.0, -1.0], [0.0, 1.0, 0.0]])  # not symmetric
ROT_Z180 = np.array([[-1.0, 0.0, 0.0], [0.0, -1.0, 0.0], [0.0, 0.0, 1.0]])  # symmetric (its own inverse)
ROT_X180 = np.array([[1.0, 0.0, 0.0], [0.0, -1.0, 0.0], [0.0, 0.0, -1.0]])


def rot_stack(nc, symmetric=False):
    """one matrix per conformer, all different from their neighbours"""
    pool = [ROT_Z180, ROT_X180] if symmetric else [ROT_Z90, ROT_Z90.T, ROT_X90]
    return np.array([pool[i % len(pool)] for i in range(nc)], dtype=float).reshape((nc, 3, 3))


def tr2_vectors(nc):
    return np.array([[1.0 + i, -0.5 * i, 0.25] for i in range(nc)], dtype=float).reshape((nc, 3))


def tf_reference(t, c):
    """per-conformer reference: row i is conformer i's geometry moved by ITS vector / matrix
    (row-vector convention x @ R, as Conformer.transform and the one-matrix rotate use)"""
    c = np.array(c, dtype=float)
    nc = c.shape[0]
    if t == "tr1":
        return c + TR1
    if t == "tr2":
        v = tr2_vectors(nc)
        return np.array([c[i] + v[i] for i in range(nc)]).reshape(c.shape)
    if t in ("rot", "rot_x", "rot180"):
        R = {"rot": ROT_Z90, "rot_x": ROT_X90, "rot180": ROT_Z180}[t]
        return np.array([c[i] @ R for i in range(nc)]).reshape(c.shape)
    if t in ("rotn", "rotn180"):
        R = rot_stack(nc, symmetric=(t == "rotn180"))
        return np.array([c[i] @ R[i] for i in range(nc)]).reshape(c.shape)
    if t == "scale2":
        return c * 2.0
    if t == "invert":
        return c * -1.0
    if t == "center_atom":
        return np.array([c[i] - c[i, 0] for i in range(nc)]).reshape(c.shape)
    if t == "center_core":
        return np.array([c[i] - np.average(c[i], axis=0) for i in range(nc)]).reshape(c.shape)
    raise HarnessError(t)


W_VEC = np.array([7.5, -3.25, 0.5])
TR1 = np.array([1.0, -2.0, 0.5])


def w_coords(na):
    return np.array([[10.0 + j, -20.0 - j, 0.25 * j] for j in range(na)]).reshape((na, 3))


def w_charges(na):
    return np.array([0.75 - 0.5 * j for j in range(na)]).reshape((na,))


# constructor kinds: (expected number of conformers or None = "whatever the object says")
KINDS = ["list2", "mol", "list3", "atoms2", "ens", "empty", "atoms0", "mol_n3", "list1", "natoms", "kw", "xyz", "mol2", "struct", "clib", "kw_row", "kw_scalar", "kw_one", "kw_alias", "kw_list", "kw_int", "conflist"]
KIND_NC = {"list1": 1, "list2": 2, "list3": 3, "mol": None, "mol_n3": 3, "ens": 2, "atoms2": 2, "atoms0": 0, "natoms": 2, "empty": 0, "kw": 2, "xyz": 2, "mol2": 2, "struct": None, "clib": 3, "kw_row": 2, "kw_scalar": 2, "kw_one": 2, "kw_alias": 2, "kw_list": 2, "kw_int": 2, "conflist": 2}

KIND_CLASS = {"list1": "molecule-list", "list2": "molecule-list", "list3": "molecule-list", "mol": "molecule", "mol_n3": "molecule", "ens": "ensemble", "atoms2": "atom-list", "atoms0": "atom-list", "kw": "atom-list+arrays", "natoms": "n_atoms", "empty": "no-arguments", "xyz": "loads_xyz", "mol2": "loads_mol2", "struct": "structure", "clib": "library-read", "kw_row": "atom-list+arrays<row>", "kw_scalar": "atom-list+arrays<scalar>", "kw_one": "atom-list+arrays<one>", "kw_alias": "atom-list+arrays<alias>", "kw_list": "atom-list+arrays<list>", "kw_int": "atom-list+arrays<int>", "conflist": "conformer-list"}

APPEND_SRC = ["M0", "own0", "E2c1", "Mx"]
EXTEND_SRC = ["L1", "L2", "E2", "self", "ownslice", "gen", "L0", "tuple2", "map2", "filter2", "iter2", "E2slice", "gen0"]
SRC_ADD = {"M0": 1, "Mx": 1, "own0": 1, "E2c1": 1, "L1": 1, "L2": 2, "E2": 2, "gen": 1, "L0": 0, "tuple2": 2, "map2": 2, "filter2": 2, "iter2": 2, "E2slice": 2, "gen0": 0}
SRC_ARGCLASS = {"L1": "sequence", "L2": "sequence", "tuple2": "sequence", "ownslice": "sequence", "E2slice": "sequence", "gen": "one-shot-iterable", "map2": "one-shot-iterable", "filter2": "one-shot-iterable", "iter2": "one-shot-iterable", "E2": "ensemble", "self": "itself", "L0": "empty", "gen0": "empty"}


def src_add(src, nc):
    return nc if src == "self" else (min(nc, 2) if src == "ownslice" else SRC_ADD[src])
TFS = ["tr1", "tr2", "rot", "rotn", "scale2", "invert", "center_atom", "center_core", "rot_x", "rot180", "rotn180"]
WRITES = ["c_el", "c_all", "q_el", "q_all", "m_translate", "m_transform", "m_scale"]
ROUTES = ["idx", "neg", "slice"]
SETS = ["weights", "coords", "charges"]
# forms of an assignment to ens.coords / ens.atomic_charges / ens.weights (and of the constructor
# keywords).  Established on the repaired tree: every broadcastable form is accepted and fills all
# conformers; shapes that do not broadcast raise ValueError and change nothing.
SET_FORMS = {
    "coords": ["full", "row", "scalar", "list", "int", "one", "own", "alias"],
    "charges": ["full", "row", "scalar", "list", "int", "one", "own", "alias"],
    "weights": ["full", "scalar", "list", "int", "one", "alias"],
}
SET_REJECTED = {"coords": ["bad_atoms", "bad_confs", "bad_row"], "charges": ["bad_atoms", "bad_confs", "bad_row"], "weights": ["bad_confs"]}
KW_FORMS = ["row", "scalar", "one", "alias", "list", "int"]
KEEPS = ["list", "steps", "interleaved", "sorted", "max", "combinations", "index", "slice", "slice_rev"]
OBS = ["dumps_xyz", "dumps_mol2", "cdump_xyz", "cdump_mol2", "lib_conf", "lib_ens"]


class EState:
    __slots__ = ("ens", "kind", "na", "nb", "mc", "mq", "mw", "mols", "mx", "e2", "fsnap", "its", "hist", "elements", "name", "held")

    def __init__(self):
        self.ens = None
        self.kind = None
        self.na = 0
        self.nb = 0
        self.mc = self.mq = self.mw = None
        self.its = {}  # slot -> [iterator, pos, mask, kept conformers]
        self.held = None  # [conformer taken at an earlier step, row, how it was taken]
        self.hist = []
        self.fsnap = None

    @property
    def nc(self):
        return 0 if self.mc is None else self.mc.shape[0]


class ESys:
    def __init__(self, ctx, na=2, ncmax=4, nit=2, label="E", kinds=None, full=True):
        self.ctx = ctx
        self.na0 = na
        self.ncmax = ncmax
        self.nit = nit
        self.seed = ctx.seed
        self.kinds = kinds or KINDS
        self.full = full
        self.quiet = False
        self.dir = Path(ctx.scratch) / f"c14-{label}-{os.getpid()}"
        self.dir.mkdir(parents=True, exist_ok=True)
        self.libpath_m = self.dir / "x.mlib"
        self.libpath_c = self.dir / "x.clib"
        self._fx = None
        self._memos = self._memo_wrappers()

    # ---- alphabet rotation --------------------------------------------------------------------
    def rot(self, lst):
        lst = list(lst)
        if not lst:
            return lst
        r = self.seed % len(lst)
        return lst[r:] + lst[:r]

    # ---- reporting ----------------------------------------------------------------------------
    def viol(self, st, op, sig, what, extra=None):
        self._fx = None
        if self.quiet:
            raise HarnessError(f"violation while replaying a validated prefix: {sig}: {what} hist={st.hist}")
        hist = st.hist + [list(op)]
        case = {"na": self.na0, "ncmax": self.ncmax, "nit": self.nit, "history": hist, "extra": extra}
        self.ctx.violation(sig, what, case, repro=repro_code(self.na0, self.seed, hist))

    def opclass(self, st, op):
        k = op[0]
        if k == "new":
            return f"new[{KIND_CLASS[op[1]]}]"
        if k == "append":
            return f"append[{self._srcclass(st, op[1])}]"
        if k == "extend":
            sc = self._srcclass(st, op[1])
            return f"extend[{sc}]" if sc != "same-natoms" else f"extend[{sc}:{SRC_ARGCLASS[op[1]]}]"
        if k == "tf":
            return f"tf[{op[1]}]"
        if k == "w":
            return f"write[{WRITE_LABEL[op[3]]}]"
        if k == "set":
            return f"set[ens.{op[1]}=]" if len(op) < 3 or op[2] == "full" else f"set[ens.{op[1]}=<{op[2]}>]"
        if k == "keep":
            return f"keep[{op[1]}]"
        if k == "hold":
            return f"hold[{op[1]}]"
        if k == "obs":
            return f"{op[1]}"
        if k == "next":
            return "next"
        return k

    def _srcclass(self, st, src):
        if src in ("L0", "gen0"):
            return "empty-list"
        n_src = self.na0 + 1 if src == "Mx" else (st.na if src in ("own0", "self", "ownslice") else self.na0)
        if n_src == st.na:
            return "same-natoms"
        if st.na == 0 and st.nc == 0:
            return "to-atomless-ensemble"
        return "natoms-mismatch"

    # ---- fixtures -----------------------------------------------------------------------------
    def _fixtures(self, st):
        """The argument objects are never modified by a correct library, so they are built once per
        system and shared by all states; they are rebuilt after any violation and whenever they no
        longer equal their snapshot."""
        na, seed = self.na0, self.seed
        fx = self._fx
        if fx is not None:
            st.mols, st.mx, st.e2, st.fsnap = fx
            intact = all(m.n_atoms == na and m.n_bonds == max(na - 1, 0) for m in st.mols) and st.e2.n_atoms == na and st.e2.n_conformers == 2
            if intact:
                for (n, cls, a, q), (n2, cls2, a0, q0) in zip(self._foreign(st), st.fsnap):
                    if not eqnan(a, a0) or not eqnan(q, q0):
                        intact = False
                        break
            if intact and eqnan(st.e2.weights, st.fsnap[-1][2]):
                return
        st.mols = [mk_mol(na, k, seed) for k in range(3)]
        st.mx = mk_mol(na + 1, 5, seed)
        st.e2 = ConformerEnsemble([mk_mol(na, 3, seed), mk_mol(na, 4, seed)])
        st.fsnap = self._foreign_snapshot(st)
        self._fx = (st.mols, st.mx, st.e2, st.fsnap)

    def _foreign(self, st):
        out = [(f"M{k}", "argument-molecule", m.coords, m.atomic_charges) for k, m in enumerate(st.mols)]
        out.append(("Mx", "argument-molecule", st.mx.coords, st.mx.atomic_charges))
        out.append(("E2", "argument-ensemble", st.e2.coords, st.e2.atomic_charges))
        return out

    def _foreign_snapshot(self, st):
        snap = [(n, c, np.array(a, copy=True), np.array(q, copy=True)) for n, c, a, q in self._foreign(st)]
        snap.append(("E2w", "argument-ensemble", np.array(st.e2.weights, copy=True), None))
        return snap

    # ---- protocol -----------------------------------------------------------------------------
    def build(self, hist):
        st = EState()
        for _, f in self._memos:
            f.cache_clear()
        self._fixtures(st)
        self.quiet = True
        try:
            for op in hist:
                if not self.step(st, tuple(op)):
                    raise HarnessError(f"replay of a validated prefix failed at {op}: {hist}")
        finally:
            self.quiet = False
        return st

    def dispose(self, st):
        st.its.clear()
        st.held = None
        st.ens = None

    def is_nontrivial(self, st):
        return st.ens is not None and st.nc >= 2 and st.na >= 1 and len(st.hist) >= 2

    def enabled(self, st):
        if st.ens is None:
            return [("new", k) for k in self.rot(self.kinds)]
        ops = []
        nc, na = st.nc, st.na
        live = bool(st.its)
        # ---- iteration -------------------------------------------------------------------------
        # ---- a view taken now and held over all later steps (not combined with stepwise iterators) --
        if st.held is not None:
            ops.append(("unhold",))
        elif not live and nc:
            for how in self.rot(["idx", "iter", "slice"]):
                for i in sorted({0, nc - 1}):
                    ops.append(("hold", how, i))
        free = [k for k in range(self.nit) if k not in st.its]
        if free and st.held is None:
            ops.append(("iter", free[0]))
        for k in sorted(st.its):
            ops.append(("next", k, "r"))
            if na:
                ops.append(("next", k, "w"))
            ops.append(("drop", k))
        ops.append(("loop",))
        ops.append(("nested",))
        # ---- growth (not while an iterator is live: growing a sequence under iteration is
        #      outside the property) -----------------------------------------------------------
        if not live:
            for src in self.rot(APPEND_SRC):
                if src == "own0" and nc < 1:
                    continue
                if nc + 1 <= self.ncmax:
                    ops.append(("append", src))
            for src in self.rot(EXTEND_SRC):
                add = src_add(src, nc)
                if src in ("self", "ownslice") and nc < 1:
                    continue
                if nc + add <= self.ncmax:
                    ops.append(("extend", src))
        # ---- collective transformations ------------------------------------------------------
        tfs = self.rot(TFS) if (self.full or not live) else ["tr1", "center_core"]
        for t in tfs:
            if t in ("center_atom", "center_core") and na == 0:
                continue
            ops.append(("tf", t))
        # ---- writes through a conformer ------------------------------------------------------
        if nc:
            whats = self.rot(WRITES) if (self.full or not live) else ["c_el"]
            for what in whats:
                if what in ("c_el", "q_el") and na == 0:
                    continue
                for i in range(nc) if what in ("c_el", "q_el") else sorted({0, nc - 1}):
                    routes = ROUTES if (what in ("c_el", "q_all") and i == nc - 1) else ["idx"]
                    for r in routes:
                        ops.append(("w", r, i, what))
        for s in self.rot(SETS) if (self.full or not live) else ["weights"]:
            ops.append(("set", s))
        if not live:
            degenerate = nc == 0 or na == 0
            for s in self.rot(SETS):
                for f in SET_FORMS[s]:
                    if f == "full" or (degenerate and f != "scalar"):
                        continue
                    ops.append(("set", s, f))
                if not degenerate:
                    for f in SET_REJECTED[s]:
                        ops.append(("set", s, f))
        # ---- conformers that are kept past the step that produced them ------------------------
        for kp in self.rot(KEEPS) if not live else ["list"]:
            if kp == "max" and nc == 0:
                continue
            ops.append(("keep", kp))
        # ---- writing / serialising -----------------------------------------------------------
        for o in self.rot(OBS):
            if o in ("cdump_xyz", "cdump_mol2", "lib_conf"):
                if nc == 0:
                    continue
                for i in sorted({0, nc - 1}):
                    ops.append(("obs", o, i))
            elif o == "lib_ens" and na == 0:
                continue  # storing an atom-less ensemble is C01's concern (0-atom objects), not a conformer's
            else:
                ops.append(("obs", o))
        return ops

    # ---- the real calls ---------------------------------------------------------------------
    def _construct(self, st, kind):
        na, seed = self.na0, self.seed
        M = st.mols
        if kind == "mol":
            return ConformerEnsemble(M[0])
        if kind == "mol_n3":
            return ConformerEnsemble(M[0], n_conformers=3)
        if kind == "list1":
            return ConformerEnsemble([M[0]])
        if kind == "list2":
            return ConformerEnsemble([M[0], M[1]])
        if kind == "list3":
            return ConformerEnsemble([M[0], M[1], M[2]])
        if kind == "ens":
            return ConformerEnsemble(st.e2)
        if kind == "conflist":
            return ConformerEnsemble(st.e2[0:2])
        if kind == "atoms2":
            return ConformerEnsemble(mk_atoms(na), n_conformers=2, name="mol")
        if kind == "atoms0":
            return ConformerEnsemble(mk_atoms(na), n_conformers=0, name="mol")
        if kind == "natoms":
            return ConformerEnsemble(n_conformers=2, n_atoms=na, name="mol")
        if kind == "empty":
            return ConformerEnsemble()
        if kind == "kw":
            return ConformerEnsemble(
                mk_atoms(na),
                n_conformers=2,
                name="mol",
                coords=np.stack([base_coords(na, 0, seed), base_coords(na, 1, seed)]).reshape((2, na, 3)),
                weights=[0.25, 0.75],
                atomic_charges=np.stack([base_charges(na, 0, seed), base_charges(na, 1, seed)]).reshape((2, na)),
            )
        if kind.startswith("kw_"):
            f = kind[3:]
            kw = dict(coords=self.form_value(st, "coords", f, 2, na), atomic_charges=self.form_value(st, "charges", f, 2, na))
            kw["weights"] = self.form_value(st, "weights", f if f in SET_FORMS["weights"] else "scalar", 2, na)
            return ConformerEnsemble(mk_atoms(na), n_conformers=2, name="mol", **kw)
        if kind == "xyz":
            return ConformerEnsemble.loads_xyz(xyz_text(na, [0, 1], seed))
        if kind == "mol2":
            return ConformerEnsemble.loads_mol2(mol2_text(na, [0, 1], seed))
        if kind == "struct":
            return ConformerEnsemble(Structure(M[0]))
        if kind == "clib":
            src = ConformerEnsemble([M[0], M[1], M[2]])
            src.weights = [0.5, 0.25, 0.125]
            lib = self._lib(ml.ConformerLibrary, self.libpath_c)
            try:
                with lib.writing(timeout=5):
                    lib["k"] = src
                with lib.reading(timeout=5):
                    return lib["k"]
            finally:
                self._lib_done(lib, self.libpath_c)
        raise HarnessError(f"unknown constructor kind {kind}")

    def _new_expected(self, st, kind):
        """per-conformer quantities a construction route fixes: (coords, charges, weights), None = open"""
        na, seed = self.na0, self.seed
        M = st.mols
        if kind in ("list1", "list2", "list3"):
            n = int(kind[4:])
            return np.array([m.coords for m in M[:n]], dtype=float).reshape((n, na, 3)), np.array([m.atomic_charges for m in M[:n]], dtype=float).reshape((n, na)), None
        if kind in ("conflist", "ens"):
            return np.array(st.e2.coords, dtype=float), np.array(st.e2.atomic_charges, dtype=float), (np.array(st.e2.weights, dtype=float) if kind == "ens" else None)
        if kind == "clib":
            return (
                np.array([m.coords for m in M[:3]], dtype=float).reshape((3, na, 3)),
                np.array([m.atomic_charges for m in M[:3]], dtype=float).reshape((3, na)),
                np.array([0.5, 0.25, 0.125]),
            )
        if kind == "xyz":
            return np.array([base_coords(na, k_, seed) for k_ in (0, 1)]).reshape((2, na, 3)), None, None
        if kind == "mol2":
            return np.array([base_coords(na, k_, seed) for k_ in (0, 1)]).reshape((2, na, 3)), np.array([base_charges(na, k_, seed) for k_ in (0, 1)]).reshape((2, na)), None
        return None, None, None

    def form_value(self, st, what, form, nc, na):
        """the value assigned for (array, form); always a fresh object except 'own' / 'alias'"""
        if what == "coords":
            full = np.array([w_coords(na) + i for i in range(nc)], dtype=float).reshape((nc, na, 3))
            foreign = st.e2.coords
        elif what == "charges":
            full = np.array([w_charges(na) - i for i in range(nc)], dtype=float).reshape((nc, na))
            foreign = st.e2.atomic_charges
        else:
            full = np.array([0.5 + 0.25 * i for i in range(nc)], dtype=float).reshape((nc,))
            foreign = st.e2.weights
        if form == "full":
            return full
        if form == "row":
            return full[0].copy()
        if form == "scalar":
            return 2.5
        if form == "list":
            return full.tolist()
        if form == "int":
            return (np.arange(full.size).reshape(full.shape) - 2).astype(np.int64)
        if form == "one":
            return full[0:1].copy()
        if form == "own":
            return st.ens[0].coords if what == "coords" else st.ens[0].atomic_charges
        if form == "alias":
            # an array object that belongs to ANOTHER ensemble (whole when the shapes agree, else its first row)
            if tuple(foreign.shape) == tuple(full.shape):
                return foreign
            return foreign[0] if what != "weights" else foreign[0:1]
        if form == "bad_atoms":
            return np.ones((nc, na + 1, 3)) if what == "coords" else np.ones((nc, na + 1))
        if form == "bad_confs":
            return np.ones((nc + 1,) + tuple(full.shape[1:]))
        if form == "bad_row":
            return np.ones((na + 1, 3)) if what == "coords" else np.ones((na + 1,))
        raise HarnessError(form)

    def _lib(self, cls, path):
        if path.exists():
            path.unlink()
        return cls(path, readonly=False)

    def _lib_done(self, lib, path):
        be = lib._backend
        try:
            be._write_queue.clear()
            uf = getattr(be, "_ukvfile", None)
            if uf is not None and not uf.closed:
                uf._stream.close()
        except Exception:
            pass
        atexit.unregister(be.flush)
        try:
            path.unlink()
        except FileNotFoundError:
            pass

    def _src(self, st, src):
        if src == "M0":
            return st.mols[0]
        if src == "Mx":
            return st.mx
        if src == "own0":
            return st.ens[0]
        if src == "E2c1":
            return st.e2[1]
        if src == "L1":
            return [st.mols[1]]
        if src == "L2":
            return [st.mols[0], st.mols[1]]
        if src == "L0":
            return []
        if src == "E2":
            return st.e2
        if src == "self":
            return st.ens
        if src == "ownslice":
            return st.ens[0:2]
        if src == "gen":
            return (m for m in [st.mols[1]])
        if src == "tuple2":
            return (st.mols[0], st.mols[1])
        if src == "map2":
            return map(lambda m: m, [st.mols[0], st.mols[1]])
        if src == "filter2":
            return filter(lambda m: True, [st.mols[0], st.mols[1]])
        if src == "iter2":
            return iter([st.mols[0], st.mols[1]])
        if src == "E2slice":
            return st.e2[0:2]
        if src == "gen0":
            return (m for m in [])
        raise HarnessError(f"unknown source {src}")

    def _src_rows(self, st, src):
        """what is handed in: (coords rows, charge rows, weights or None), taken before the call"""
        M = st.mols
        if src == "M0":
            g = [M[0]]
        elif src in ("L1", "gen"):
            g = [M[1]]
        elif src in ("L2", "tuple2", "map2", "filter2", "iter2"):
            g = [M[0], M[1]]
        elif src == "own0":
            return st.mc[0:1].copy(), st.mq[0:1].copy(), None
        elif src == "ownslice":
            return st.mc[0:2].copy(), st.mq[0:2].copy(), None
        elif src == "self":
            return st.mc.copy(), st.mq.copy(), st.mw.copy()
        elif src == "E2c1":
            return np.array(st.e2.coords[1:2], dtype=float), np.array(st.e2.atomic_charges[1:2], dtype=float), None
        elif src == "E2slice":
            return np.array(st.e2.coords[0:2], dtype=float), np.array(st.e2.atomic_charges[0:2], dtype=float), None
        elif src == "E2":
            return np.array(st.e2.coords, dtype=float), np.array(st.e2.atomic_charges, dtype=float), np.array(st.e2.weights, dtype=float)
        elif src in ("L0", "gen0"):
            return np.zeros((0, st.na, 3)), np.zeros((0, st.na)), None
        else:
            raise HarnessError(src)
        na = st.na
        return (
            np.array([m.coords for m in g], dtype=float).reshape((len(g), na, 3)),
            np.array([m.atomic_charges for m in g], dtype=float).reshape((len(g), na)),
            None,
        )

    def _conf(self, st, route, i):
        e = st.ens
        nc = st.nc
        if route == "idx":
            return e[i]
        if route == "neg":
            return e[i - nc]
        if route == "slice":
            return e[i : i + 1][0]
        raise HarnessError(route)

    def conf_row(self, st, c):
        """which row a conformer object stands for (its declared id; else the memory it views)"""
        nc = st.nc
        cid = getattr(c, "_conf_id", None)
        if isinstance(cid, (int, np.integer)) and nc:
            return int(cid) % nc if -nc <= cid < nc else int(cid)
        try:
            cc = c.coords
            for i in range(nc):
                if np.shares_memory(cc, st.ens.coords[i]):
                    return i
        except Exception:
            pass
        return None

    # ---- step ---------------------------------------------------------------------------------
    def step(self, st, op):
        ok = self._step(st, op)
        st.hist.append(list(op))
        return ok

    def _step(self, st, op):
        kind = op[0]
        oc = self.opclass(st, op)
        ok = True
        target = None  # (array name, row) a write is allowed to change
        pre = None

        if kind == "new":
            k = op[1]
            try:
                e = self._construct(st, k)
            except Exception as ex:
                self.viol(st, op, f"{oc}:raised-{exc_name(ex)}", f"constructor {k} raised {exc_name(ex)}: {ex}")
                return False
            st.ens = e
            st.kind = k
            try:
                rn, ra = int(e.n_conformers), int(e.n_atoms)
            except Exception as ex:
                self.viol(st, op, f"{oc}:accessor-raised-{exc_name(ex)}", f"n_conformers/n_atoms raised {exc_name(ex)}: {ex}")
                return False
            exp_nc = KIND_NC[k]
            st.na = 0 if k == "empty" else self.na0
            st.nb = int(e.n_bonds)
            nc = rn if exp_nc is None else exp_nc
            st.mc = np.zeros((nc, st.na, 3))
            st.mq = np.zeros((nc, st.na))
            st.mw = np.zeros((nc,))
            st.elements = [a.element for a in e.atoms]
            st.name = e.name
            ok = self._check_rect(st, op, oc)
            if ok and not self.quiet:
                exp3 = self._new_expected(st, k)
                real3 = (e.coords, e.atomic_charges, e.weights)
                badn = [n_ for n_, x_, r_ in zip(("coords", "charges", "weights"), exp3, real3) if x_ is not None and not close(np.array(r_, dtype=float), x_, 1e-9)]
                if badn:
                    self.viol(st, op, f"{oc}:row-i-is-not-structure-i[{','.join(badn)}]", f"constructor {k}: the {badn} rows of the ensemble are not those of the structures it was made from")
                    return False
            if ok:
                self._resync(st)
                ok = self._check_state(st, op, oc, None, None, alias=True)
            return ok

        e = st.ens
        pre = (st.mc.copy(), st.mq.copy(), st.mw.copy())

        if kind in ("append", "extend"):
            src = op[1]
            sc = self._srcclass(st, src)
            arg = self._src(st, src)
            add = src_add(src, st.nc)
            handed = self._src_rows(st, src) if sc == "same-natoms" else None
            lenient = sc != "same-natoms"
            try:
                if kind == "append":
                    e.append(arg)
                else:
                    e.extend(arg)
            except Exception as ex:
                if not lenient:
                    self.viol(st, op, f"{oc}:raised-{exc_name(ex)}", f"{kind}({src}) of a geometry with the same atom count raised {exc_name(ex)}: {ex}")
                    return False
                # a rejected argument must leave everything as it was
                return self._check_state(st, op, oc, None, pre, alias=False, after_failure=True)
            if lenient:
                try:
                    rn, ra = int(e.n_conformers), int(e.n_atoms)
                except Exception as ex:
                    self.viol(st, op, f"{oc}:accessor-raised-{exc_name(ex)}", f"n_conformers/n_atoms raised {exc_name(ex)}")
                    return False
                st.na = ra
                nc = rn
            else:
                nc = st.nc + add
            st.mc = np.zeros((nc, st.na, 3))
            st.mq = np.zeros((nc, st.na))
            st.mw = np.zeros((nc,))
            ok = self._check_rect(st, op, oc)
            if ok and handed is not None and not self.quiet:
                # rectangular also means: row i of each array belongs to conformer i - the rows that
                # were there stay what they were, the new rows are what was handed in
                n0 = pre[0].shape[0]
                real = (np.array(e.coords, dtype=float), np.array(e.atomic_charges, dtype=float), np.array(e.weights, dtype=float))
                names = ("coords", "charges", "weights")
                old_bad = [names[i] for i in range(3) if not eqnan(real[i][:n0], pre[i])]
                if old_bad:
                    self.viol(st, op, f"{oc}:existing-rows-changed[{','.join(old_bad)}]", f"{kind}({src}) changed rows of conformers that were already there: {old_bad}")
                    return False
                new_bad = [names[i] for i in range(3) if handed[i] is not None and not eqnan(real[i][n0:], handed[i])]
                if new_bad:
                    self.viol(st, op, f"{oc}:appended-rows-differ[{','.join(new_bad)}]", f"{kind}({src}): the {new_bad} rows of the appended conformers are not the ones of the geometries handed in")
                    return False
            if ok:
                self._resync(st)
                ok = self._check_state(st, op, oc, None, None, alias=True)
            else:
                # independent clause: does a write through a conformer now reach the argument?
                self._alias_probe(st, op, oc)
            return ok

        if kind == "tf":
            t = op[1]
            degenerate = st.nc == 0 or st.na == 0
            try:
                self._transform(st, t)
            except Exception as ex:
                if not degenerate:
                    self.viol(st, op, f"{oc}:raised-{exc_name(ex)}", f"collective transformation {t} raised {exc_name(ex)}: {ex}")
                    return False
                ok = self._check_state(st, op, oc, None, pre, alias=False, after_failure=True)
                self._mark(st, M_CENTER if t == "center_core" else M_OTHER, None)
                return ok
            ok = self._check_rect(st, op, oc)
            if ok and not self.quiet and not degenerate:
                # row i of the result is conformer i moved by ITS vector / matrix; charges and weights stay
                ref = tf_reference(t, pre[0])
                if not close(np.array(e.coords, dtype=float), ref, 1e-9):
                    rows = [i for i in range(st.nc) if not close(np.array(e.coords[i], dtype=float), ref[i], 1e-9)]
                    self.viol(st, op, f"{oc}:rows-differ-from-the-per-conformer-result", f"after {t}: rows {rows[:4]} are not what moving conformer i on its own (x @ R[i] / x + v[i]) gives")
                    return False
                if not eqnan(e.atomic_charges, pre[1]) or not eqnan(e.weights, pre[2]):
                    self.viol(st, op, f"{oc}:charges-or-weights-changed", f"{t} changed atomic charges or weights")
                    return False
            if ok:
                self._resync(st)
                ok = self._check_state(st, op, oc, None, None, alias=False)
            self._mark(st, M_CENTER if t == "center_core" else M_OTHER, None)
            return ok

        if kind == "w":
            _, route, i, what = op
            na = st.na
            try:
                c = self._conf(st, route, i)
                if what == "c_el":
                    c.coords[na - 1] = W_VEC
                    st.mc[i, na - 1] = W_VEC
                    target = ("coords", i)
                elif what == "c_all":
                    c.coords = w_coords(na)
                    st.mc[i] = w_coords(na)
                    target = ("coords", i)
                elif what == "q_el":
                    c.atomic_charges[na - 1] = -1.75
                    st.mq[i, na - 1] = -1.75
                    target = ("charges", i)
                elif what == "q_all":
                    c.atomic_charges = w_charges(na)
                    st.mq[i] = w_charges(na)
                    target = ("charges", i)
                elif what == "m_translate":
                    c.translate(TR1)
                    target = ("coords", i)
                elif what == "m_transform":
                    c.transform(ROT_Z90)
                    target = ("coords", i)
                elif what == "m_scale":
                    c.scale(2.0)
                    target = ("coords", i)
                else:
                    raise HarnessError(what)
            except HarnessError:
                raise
            except Exception as ex:
                self.viol(st, op, f"{oc}:raised-{exc_name(ex)}", f"writing through ens[i] ({WRITE_LABEL[what]}) raised {exc_name(ex)}: {ex}")
                return False
            if what.startswith("m_"):
                # the value a geometry method computes is C11's business; here: row i must move
                # (when the obvious result differs from what was there) and only row i may move
                try:
                    row = np.array(e.coords[i], dtype=float)
                except Exception:
                    row = None
                if row is not None and row.shape == (na, 3):
                    old = st.mc[i].copy()
                    obvious = {"m_translate": old + TR1, "m_transform": old @ ROT_Z90, "m_scale": old * 2.0}[what]
                    if not eqnan(obvious, old) and eqnan(row, old):
                        self.viol(st, op, f"{oc}:write-not-visible-in-ensemble-coords", f"{WRITE_LABEL[what]} through ens[{i}] left row {i} of the ensemble unchanged")
                        return False
                    st.mc[i] = row
            ok = self._check_rect(st, op, oc) and self._check_state(st, op, oc, target, pre, alias=False)
            self._mark(st, M_OTHER, None)
            return ok

        if kind == "set":
            what = op[1]
            form = op[2] if len(op) > 2 else "full"
            nc, na = st.nc, st.na
            attr = {"weights": "weights", "coords": "coords", "charges": "atomic_charges"}[what]
            shape = {"weights": (nc,), "coords": (nc, na, 3), "charges": (nc, na)}[what]
            rejected = form in SET_REJECTED[what]
            try:
                v = self.form_value(st, what, form, nc, na)
                expv = None if rejected else np.array(np.broadcast_to(np.asarray(v, dtype=float), shape), dtype=float)
            except HarnessError:
                raise
            except Exception as ex:
                raise HarnessError(f"cannot build the value for {op}: {exc_name(ex)}: {ex}")
            try:
                setattr(e, attr, v)
            except Exception as ex:
                if rejected:
                    ok = self._check_state(st, op, oc, None, pre, alias=False, after_failure=True)
                    self._mark(st, M_OTHER, None)
                    return ok
                self.viol(st, op, f"{oc}:raised-{exc_name(ex)}", f"assigning ens.{attr} ({form}) raised {exc_name(ex)}: {ex}")
                return False
            if rejected:
                self.viol(st, op, f"{oc}:failing-assignment-succeeded", f"assigning an array of shape {np.shape(v)} to ens.{attr} of shape {shape} did not raise")
                return False
            if what == "weights":
                st.mw = expv
            elif what == "coords":
                st.mc = expv
            else:
                st.mq = expv
            ok = self._check_rect(st, op, oc) and self._check_state(st, op, oc, (what, None), pre, alias=True)
            self._mark(st, M_OTHER, None)
            return ok

        if kind == "keep":
            return self._keep(st, op, oc, pre)

        if kind == "hold":
            _, how, i = op
            try:
                if how == "idx":
                    c = e[i]
                elif how == "slice":
                    c = e[i : i + 1][0]
                else:
                    it = iter(e)
                    for _ in range(i + 1):
                        c = next(it)
                    del it
            except Exception as ex:
                self.viol(st, op, f"{oc}:raised-{exc_name(ex)}", f"taking ens[{i}] ({how}) raised {exc_name(ex)}: {ex}")
                return False
            st.held = [c, i, how]
            return self._check_rect(st, op, oc) and self._check_state(st, op, oc, None, pre, alias=False)

        if kind == "unhold":
            st.held = None
            return True

        if kind == "obs":
            what = op[1]
            i = op[2] if len(op) > 2 else None
            ok = self._observe_op(st, op, oc, what, i)
            if ok:
                ok = self._check_rect(st, op, oc) and self._check_state(st, op, oc, None, pre, alias=False)
            self._mark(st, M_DUMP if what in ("dumps_xyz", "dumps_mol2") else M_OTHER, None)
            return ok

        # ---- iteration ------------------------------------------------------------------------
        if kind == "iter":
            k = op[1]
            try:
                it = iter(e)
            except Exception as ex:
                self.viol(st, op, f"iter:raised-{exc_name(ex)}", f"iter(ens) raised {exc_name(ex)}: {ex}")
                return False
            self._mark(st, M_ITER, None)
            st.its[k] = [it, 0, 0, []]
            return self._check_state(st, op, oc, None, pre, alias=False)

        if kind == "drop":
            k = op[1]
            del st.its[k]
            return True

        if kind == "next":
            _, k, mode = op
            it, pos, mask = st.its[k][:3]
            nc = st.nc
            label = "alone"
            if mask & M_ITER:
                label = "with-concurrent-iteration"
            elif mask & M_DUMP:
                label = "after-ensemble-dump"
            elif mask & M_CENTER:
                label = "after-center_at_core"
            elif mask & M_OTHER:
                label = "after-other-ensemble-op"
            try:
                c = next(it)
            except StopIteration:
                if pos < nc:
                    self.viol(st, op, f"next[{label}]:sequence-differs", f"iterator stopped after {pos} of {nc} conformers", {"mask": mask})
                    return False
                del st.its[k]
                self._mark(st, M_ITER, None)
                return self._check_state(st, op, oc, None, pre, alias=False)
            except Exception as ex:
                self.viol(st, op, f"next[{label}]:raised-{exc_name(ex)}", f"next(iterator) raised {exc_name(ex)}: {ex}")
                return False
            if pos >= nc:
                self.viol(st, op, f"next[{label}]:sequence-differs", f"iterator yielded a conformer after all {nc} had been visited", {"mask": mask})
                return False
            row = self.conf_row(st, c)
            if row != pos:
                self.viol(st, op, f"next[{label}]:sequence-differs", f"iterator yielded conformer {row}, expected {pos} (of {nc})", {"mask": mask})
                return False
            st.its[k][1] = pos + 1
            st.its[k][2] = 0
            st.its[k][3].append(c)  # kept: must remain the view of row `pos` (checked after every step)
            if mode == "w":
                try:
                    c.coords[0] = W_VEC
                except Exception as ex:
                    self.viol(st, op, f"next:write-through-yielded-conformer-raised-{exc_name(ex)}", f"writing through the yielded conformer raised {exc_name(ex)}")
                    return False
                st.mc[pos, 0] = W_VEC
                target = ("coords", pos)
            self._mark(st, M_ITER, k)
            return self._check_state(st, op, oc, target, pre, alias=False)

        if kind in ("loop", "nested"):
            nc = st.nc
            try:
                if kind == "loop":
                    got = [self.conf_row(st, c) for c in e]
                    exp = list(range(nc))
                else:
                    got = []
                    for a in e:
                        ra = self.conf_row(st, a)
                        for b in e:
                            got.append((ra, self.conf_row(st, b)))
                            if len(got) > (nc + 1) ** 2 + 2:
                                break
                        if len(got) > (nc + 1) ** 2 + 2:
                            break
                    exp = [(a, b) for a in range(nc) for b in range(nc)]
            except Exception as ex:
                self.viol(st, op, f"{kind}:raised-{exc_name(ex)}", f"{kind} iteration raised {exc_name(ex)}: {ex}")
                return False
            if got != exp:
                self.viol(st, op, f"{kind}:sequence-differs", f"{'for c in ens' if kind=='loop' else 'for a in ens: for b in ens'} visited {got[:12]} expected {exp[:12]} (nc={nc})")
                return False
            self._mark(st, M_ITER, None)
            return self._check_state(st, op, oc, None, pre, alias=False)

        raise HarnessError(f"unknown op {op}")

    def _keep(self, st, op, oc, pre):
        """obtain ALL conformers first, keep them, and only then look at / write through each"""
        import itertools

        e = st.ens
        how = op[1]
        nc, na = st.nc, st.na
        try:
            if how == "list":
                kept, exp = list(e), list(range(nc))
            elif how == "steps":
                it = iter(e)
                kept, exp = [next(it) for _ in range(nc)], list(range(nc))
                if next(it, None) is not None:
                    self.viol(st, op, f"{oc}:sequence-differs", f"the iterator yields more than {nc} conformers")
                    return False
            elif how == "interleaved":
                a, b = iter(e), iter(e)
                kept, exp = [], []
                for i in range(nc):
                    kept += [next(a), next(b)]
                    exp += [i, i]
            elif how == "sorted":
                kept, exp = sorted(e, key=lambda c: 0), list(range(nc))  # stable: the iteration order
            elif how == "max":
                kept, exp = [max(e, key=lambda c: 0)], [0]  # the first of equal keys
            elif how == "combinations":
                kept, exp = [], []
                for x, y in itertools.combinations(e, 2):
                    kept += [x, y]
                for i, j in itertools.combinations(range(nc), 2):
                    exp += [i, j]
            elif how == "index":
                kept, exp = [e[i] for i in range(nc)], list(range(nc))
                if nc:
                    e[-1], e[0], e[0:nc]
                for _ in e:
                    pass
            elif how == "slice":
                kept, exp = e[0:nc], list(range(nc))
                e[::-1]
                if nc:
                    e[0], e[-1]
                for _ in e:
                    pass
            elif how == "slice_rev":
                kept, exp = e[::-1], list(range(nc))[::-1]
                e[0:nc]
                for _ in e:
                    pass
            else:
                raise HarnessError(how)
            kept = list(kept)
        except HarnessError:
            raise
        except Exception as ex:
            self.viol(st, op, f"{oc}:raised-{exc_name(ex)}", f"collecting conformers ({how}) raised {exc_name(ex)}: {ex}")
            return False
        if len(kept) != len(exp):
            self.viol(st, op, f"{oc}:sequence-differs", f"{how}: {len(kept)} conformers collected, expected {len(exp)}")
            return False
        try:
            rows = [self.conf_row(st, c) for c in kept]
            reads = [eqnan(c.coords, st.mc[r]) and eqnan(c.atomic_charges, st.mq[r]) for c, r in zip(kept, exp)]
        except Exception as ex:
            self.viol(st, op, f"{oc}:kept-conformer-read-raised-{exc_name(ex)}", f"reading a kept conformer raised {exc_name(ex)}: {ex}")
            return False
        if rows != exp or not all(reads):
            self.viol(st, op, f"{oc}:kept-conformers-show-other-rows", f"{how}: the conformers kept stand for rows {rows}, expected {exp} (reads equal their row: {reads})")
            return False
        # writes: a different value through every kept conformer, in collection order
        if na:
            try:
                for idx, (c, r) in enumerate(zip(kept, exp)):
                    v = np.array([100.0 + idx, -1.0 * idx, 0.5])
                    c.coords[0] = v
                    st.mc[r, 0] = v
                    c.atomic_charges[na - 1] = 10.0 + idx
                    st.mq[r, na - 1] = 10.0 + idx
            except Exception as ex:
                self.viol(st, op, f"{oc}:write-through-kept-conformer-raised-{exc_name(ex)}", f"writing through a kept conformer raised {exc_name(ex)}: {ex}")
                return False
            try:
                good = eqnan(e.coords, st.mc) and eqnan(e.atomic_charges, st.mq)
            except Exception:
                good = False
            if not good:
                self.viol(st, op, f"{oc}:write-through-kept-conformer-lands-in-another-row", f"{how}: writing value k through the k-th kept conformer did not change exactly row k")
                return False
        if how not in ("index", "slice", "slice_rev") or True:
            self._mark(st, M_ITER, None)
        return self._check_rect(st, op, oc) and self._check_state(st, op, oc, None, None, alias=False)

    def _mark(self, st, bit, own):
        for k, rec in st.its.items():
            if k != own:
                rec[2] |= bit

    def _transform(self, st, t):
        e = st.ens
        nc = st.nc
        if t == "tr1":
            e.translate(TR1)
        elif t == "tr2":
            e.translate(tr2_vectors(nc))
        elif t == "rot":
            e.rotate(ROT_Z90)
        elif t == "rot_x":
            e.rotate(ROT_X90)
        elif t == "rot180":
            e.rotate(ROT_Z180)
        elif t == "rotn":
            e.rotate(rot_stack(nc))
        elif t == "rotn180":
            e.rotate(rot_stack(nc, symmetric=True))
        elif t == "scale2":
            e.scale(2.0)
        elif t == "invert":
            e.invert()
        elif t == "center_atom":
            e.center_at_atom(e.atoms[0])
        elif t == "center_core":
            e.center_at_core(list(range(st.na)))
        else:
            raise HarnessError(t)

    # ---- oracles ----------------------------------------------------------------------------
    def _check_rect(self, st, op, oc):
        e = st.ens
        nc, na = st.nc, st.na
        try:
            shapes = (tuple(e.coords.shape), tuple(e.atomic_charges.shape), tuple(e.weights.shape))
            cnt = (int(e.n_conformers), int(e.n_atoms))
        except Exception as ex:
            self.viol(st, op, f"{oc}:accessor-raised-{exc_name(ex)}", f"coords/atomic_charges/weights/n_conformers raised {exc_name(ex)}: {ex}")
            return False
        bad = []
        if shapes[0] != (nc, na, 3):
            bad.append("coords")
        if shapes[1] != (nc, na):
            bad.append("charges")
        if shapes[2] != (nc,):
            bad.append("weights")
        if cnt[0] != nc:
            bad.append("n_conformers")
        if cnt[1] != na:
            bad.append("n_atoms")
        if bad:
            self.viol(
                st,
                op,
                f"{oc}:not-rectangular[{','.join(bad)}]",
                f"after {op[0]}: coords{shapes[0]} charges{shapes[1]} weights{shapes[2]} n_conformers={cnt[0]} n_atoms={cnt[1]}; a rectangular ensemble of {nc} conformers x {na} atoms was expected",
                {"shapes": [list(s) for s in shapes], "expected": [nc, na]},
            )
            return False
        return True

    def _resync(self, st):
        e = st.ens
        st.mc = np.array(e.coords, dtype=float, copy=True)
        st.mq = np.array(e.atomic_charges, dtype=float, copy=True)
        st.mw = np.array(e.weights, dtype=float, copy=True)

    def _diff_symptom(self, name, real, exp, pre, target):
        """classify how an array differs from the model"""
        real = np.asarray(real, dtype=float)
        ne = ~((real == exp) | (np.isnan(real) & np.isnan(exp)))
        rows = sorted(set(int(r) for r in np.argwhere(ne)[:, 0])) if ne.ndim >= 1 and ne.size else []
        if target is not None and target[0] == name:
            t = target[1]
            if t is None:
                return f"{name}-assignment-not-visible"
            if rows == [t]:
                if pre is not None and eqnan(real[t], pre[t]):
                    return f"write-not-visible-in-ensemble-{name}"
                return f"wrong-value-in-{name}-row"
            return f"other-{name}-rows-changed"
        return f"{name}-changed"

    def _check_state(self, st, op, oc, target, pre, alias, after_failure=False):
        # NOTE: also executed while a validated prefix is replayed (quiet mode): the reads below are
        # part of the history (an implementation that caches on first read must see the same reads
        # in the replay as in the first execution); a difference then is a harness error.
        e = st.ens
        nc, na = st.nc, st.na
        ok = True
        if self.quiet:
            return self._touch(st, op)
        if after_failure and not self._check_rect(st, op, oc + ":rejected"):
            return False
        # ---- values: nothing but the target changed ------------------------------------------
        prec = {"coords": pre[0], "charges": pre[1], "weights": pre[2]} if pre is not None else {}
        for name, real, exp in (("coords", e.coords, st.mc), ("charges", e.atomic_charges, st.mq), ("weights", e.weights, st.mw)):
            if not eqnan(real, exp):
                sym = self._diff_symptom(name, real, exp, prec.get(name), target)
                self.viol(st, op, f"{oc}:{sym}", f"after {list(op)} the ensemble's {name} differ from the reference model ({sym})")
                ok = False
        if not ok:
            return False
        # ---- every conformer is a full view of its row ---------------------------------------
        try:
            ename, echarge, emult, enb = e.name, e.charge, e.mult, e.n_bonds
        except Exception as ex:
            self.viol(st, op, f"{oc}:accessor-raised-{exc_name(ex)}", f"name/charge/mult raised {exc_name(ex)}")
            return False
        routes = []
        for i in range(nc):
            routes.append((i, "idx", lambda i=i: e[i]))
        if nc:
            routes.append((nc - 1, "neg", lambda: e[-1]))
            routes.append((0, "slice", lambda: e[0:nc][0]))
            routes.append((nc - 1, "slice", lambda: e[::-1][0]))
        try:
            if len(e[0:nc]) != nc or len(e[:]) != nc or len(e[1:]) != max(nc - 1, 0):
                self.viol(st, op, "view[slice]:slice-length-differs", f"len(ens[0:nc]) != nc={nc}")
                ok = False
        except Exception as ex:
            self.viol(st, op, f"view[slice]:raised-{exc_name(ex)}", f"slicing the ensemble raised {exc_name(ex)}: {ex}")
            return False
        for i, route, get in routes:
            try:
                c = get()
                fields = {
                    "coords": eqnan(c.coords, st.mc[i]) and tuple(c.coords.shape) == (na, 3),
                    "atomic_charges": eqnan(c.atomic_charges, st.mq[i]) and tuple(c.atomic_charges.shape) == (na,),
                    "n_atoms": c.n_atoms == na,
                    "n_bonds": c.n_bonds == enb,
                    "name": c.name == ename,
                    "charge": c.charge == echarge,
                    "mult": c.mult == emult,
                    "elements": [a.element for a in c.atoms] == st.elements,
                }
                if na and route == "idx":
                    fields["get_atom_coord"] = eqnan(c.get_atom_coord(na - 1), st.mc[i, na - 1])
                    fields["centroid"] = close(c.centroid(), np.average(st.mc[i], axis=0), 1e-9)
                    if na >= 2:
                        d = float(np.linalg.norm(st.mc[i, 0] - st.mc[i, 1]))
                        fields["distance"] = close(np.array(c.distance(0, 1)), np.array(d), 1e-9)
            except Exception as ex:
                self.viol(st, op, f"view[{route}]:conformer-read-raised-{exc_name(ex)}", f"reading through ens[{route}] raised {exc_name(ex)}: {ex}")
                return False
            badf = sorted(k for k, v in fields.items() if not v)
            if badf:
                self.viol(st, op, f"view[{route}]:conformer-view-differs[{','.join(badf)}]", f"after {list(op)}: ens[{i}] (route {route}) does not show row {i}: {badf}")
                ok = False
                break
        # ---- conformers an iterator yielded earlier are still the views of their rows ----------
        for k in sorted(st.its):
            for p_, c in enumerate(st.its[k][3]):
                try:
                    good = self.conf_row(st, c) == p_ and eqnan(c.coords, st.mc[p_]) and eqnan(c.atomic_charges, st.mq[p_])
                except Exception:
                    good = False
                if not good:
                    self.viol(st, op, "kept[iterator]:earlier-yielded-conformer-shows-another-row", f"after {list(op)}: the conformer an iterator yielded at position {p_} no longer shows row {p_}")
                    return False
        # ---- nothing else changed -------------------------------------------------------------
        cur = self._foreign(st)
        for (n, cls, a, q), (n2, cls2, a0, q0) in zip(cur, st.fsnap):
            if not eqnan(a, a0) or not eqnan(q, q0):
                self.viol(st, op, f"{oc}:changed-argument-object", f"after {list(op)} the {cls} {n} (not part of the ensemble) has changed")
                ok = False
                break
        if not eqnan(st.e2.weights, st.fsnap[-1][2]):
            self.viol(st, op, f"{oc}:changed-argument-object", "weights of the argument ensemble changed")
            ok = False
        if ok and alias:
            ok = self._alias_probe(st, op, oc)
        if ok:
            ok = self._held(st, op, False)
        return ok

    def _touch(self, st, op=None):
        """replay mode: exactly the accessor calls of _check_state (same objects, same order), no
        comparisons - the prefix was validated when it was first executed"""
        e = st.ens
        nc, na = st.nc, st.na
        try:
            e.coords, e.atomic_charges, e.weights
            e.name, e.charge, e.mult, e.n_bonds
            e[0:nc], e[:], e[1:]
            getters = [lambda i=i: e[i] for i in range(nc)]
            kinds = ["idx"] * nc
            if nc:
                getters += [lambda: e[-1], lambda: e[0:nc][0], lambda: e[::-1][0]]
                kinds += ["neg", "slice", "slice"]
            for get, route in zip(getters, kinds):
                c = get()
                c.coords, c.coords.shape, c.atomic_charges, c.atomic_charges.shape
                c.n_atoms, c.n_bonds, c.name, c.charge, c.mult
                [a.element for a in c.atoms]
                if na and route == "idx":
                    c.get_atom_coord(na - 1)
                    c.centroid()
                    if na >= 2:
                        c.distance(0, 1)
            for k in sorted(st.its):
                for p_, c in enumerate(st.its[k][3]):
                    self.conf_row(st, c), c.coords, c.atomic_charges
        except Exception as ex:
            raise HarnessError(f"replay of a validated prefix: reading raised {exc_name(ex)}: {ex}; hist={st.hist}")
        return self._held(st, op, True)

    def _held(self, st, op, quiet):
        """A view taken at an earlier step must, after EVERY later step, still be the view of its row:
        it reads the row of the ensemble's current arrays, its dumps equal those of a fresh ens[row],
        and writes through it (coords=, atomic_charges=, translate) land in that row and only there.
        The same real calls are made when a prefix is replayed (quiet), without comparisons."""
        if st.held is None:
            return True
        c, row, how = st.held
        e = st.ens
        na = st.na
        pre_sig = f"held[{how}]:after-{op[0] if op else 'step'}"

        def bad(sym, what):
            if quiet:
                raise HarnessError(f"replay of a validated prefix: {pre_sig}:{sym}; hist={st.hist}")
            self.viol(st, op, f"{pre_sig}:{sym}", f"a conformer taken earlier as ens[{row}] ({how}), after {list(op)}: {what}")
            return False

        try:
            r = self.conf_row(st, c)
            cc, cq = np.array(c.coords, dtype=float), np.array(c.atomic_charges, dtype=float)
            d1, d2 = c.dumps_xyz(), c.dumps_mol2()
            f = e[row]
            f1, f2 = f.dumps_xyz(), f.dumps_mol2()
        except Exception as ex:
            return bad(f"read-raised-{exc_name(ex)}", f"reading / dumping it raised {exc_name(ex)}: {ex}")
        if not quiet:
            if r != row or not eqnan(cc, st.mc[row]) or not eqnan(cq, st.mq[row]):
                return bad("does-not-show-its-row", f"it does not read row {row} of the ensemble's current arrays")
            if d1 != f1 or d2 != f2:
                return bad("dump-differs-from-fresh-view", f"its dumps differ from those of a fresh ens[{row}]")
        if not na:
            return True
        # writes: values that differ from what the row holds now
        alt = eqnan(st.mc[row], w_coords(na) + 7.0)
        newc = w_coords(na) + (9.0 if alt else 7.0)
        newq = w_charges(na) - (5.0 if eqnan(st.mq[row], w_charges(na) - 3.0) else 3.0)
        before_c, before_q = st.mc.copy(), st.mq.copy()
        try:
            c.coords = newc
            c.atomic_charges = newq
            c.translate(TR1)
        except Exception as ex:
            return bad(f"write-raised-{exc_name(ex)}", f"writing through it raised {exc_name(ex)}: {ex}")
        st.mc[row] = newc + TR1
        st.mq[row] = newq
        if quiet:
            return True
        try:
            rc, rq = np.array(e.coords, dtype=float), np.array(e.atomic_charges, dtype=float)
        except Exception as ex:
            return bad(f"read-raised-{exc_name(ex)}", f"reading the ensemble raised {exc_name(ex)}")
        if rc.shape != st.mc.shape or rq.shape != st.mq.shape:
            return bad("write-changes-the-shape", "a write through it changed the shape of the ensemble's arrays")
        okc, okq = close(rc, st.mc, 1e-9), eqnan(rq, st.mq)
        if okc and okq:
            return True
        others = [i for i in range(st.nc) if i != row]
        if (others and (not eqnan(rc[others], before_c[others]) or not eqnan(rq[others], before_q[others]))):
            return bad("write-changes-other-rows", f"a write through it changed rows other than {row}")
        if eqnan(rc[row], before_c[row]) or eqnan(rq[row], before_q[row]):
            return bad("write-not-visible-in-ensemble", f"a write through it (coords=, atomic_charges=, translate) left row {row} of the ensemble unchanged")
        return bad("write-stores-another-value", f"a write through it left another value in row {row}")

    def _alias_probe(self, st, op, oc):
        """If the ensemble's arrays share memory with an object that was only an *argument*, confirm
        behaviourally (write through every conformer, look at the argument) and report.  The probe
        destroys the state, which is therefore never expanded."""
        if self.quiet:
            return True
        e = st.ens
        try:
            mine = [e.coords, e.atomic_charges, e.weights]
        except Exception:
            return True
        hit = None
        for n, cls, a, q in self._foreign(st) + [("E2w", "argument-ensemble", st.e2.weights, None)]:
            for x in mine:
                for f in (a, q):
                    if f is not None and x.size and f.size and np.may_share_memory(x, f) and np.shares_memory(x, f):
                        hit = (n, cls)
        if hit is None:
            return True
        self._fx = None
        changed = False
        try:
            for i in range(int(e.n_conformers)):
                c = e[i]
                c.coords = np.full(tuple(c.coords.shape), 123.0)
                try:
                    c.atomic_charges[:] = 77.0
                except Exception:
                    pass
            for (n, cls, a, q), (n2, cls2, a0, q0) in zip(self._foreign(st), st.fsnap):
                if not eqnan(a, a0) or not eqnan(q, q0):
                    changed = True
        except Exception:
            pass
        if changed:
            self.viol(st, op, f"{oc}:conformer-write-changes-argument-object", f"after {list(op)} a write through ens[i] also changes the {hit[1]} {hit[0]} (shared array)")
        else:
            self.ctx.add_note("alias_probe_unconfirmed")
        return False

    # ---- writing / serialising -------------------------------------------------------------
    def _observe_op(self, st, op, oc, what, i):
        e = st.ens
        nc, na = st.nc, st.na
        try:
            if what == "dumps_xyz":
                frames = parse_xyz(e.dumps_xyz())
                return self._cmp_frames(st, op, oc, frames, list(range(nc)), charges=False)
            if what == "dumps_mol2":
                frames = parse_mol2(e.dumps_mol2())
                return self._cmp_frames(st, op, oc, frames, list(range(nc)), charges=True)
            if what == "cdump_xyz":
                frames = parse_xyz(e[i].dumps_xyz())
                return self._cmp_frames(st, op, oc, frames, [i], charges=False)
            if what == "cdump_mol2":
                frames = parse_mol2(e[i].dumps_mol2())
                return self._cmp_frames(st, op, oc, frames, [i], charges=True)
            if what == "lib_conf":
                lib = self._lib(ml.MoleculeLibrary, self.libpath_m)
                try:
                    with lib.writing(timeout=5):
                        lib["k"] = e[i]
                    with lib.reading(timeout=5):
                        r = lib["k"]
                finally:
                    self._lib_done(lib, self.libpath_m)
                bad = []
                if not eqnan(np.asarray(r.coords, dtype=np.float32), st.mc[i].astype(np.float32)):
                    bad.append("coords")
                if not eqnan(np.asarray(r.atomic_charges, dtype=np.float32), st.mq[i].astype(np.float32)):
                    bad.append("charges")
                if r.n_atoms != na or [a.element for a in r.atoms] != st.elements:
                    bad.append("atoms")
                if r.n_bonds != e.n_bonds:
                    bad.append("bonds")
                if r.name != e.name:
                    bad.append("name")
                if bad:
                    self.viol(st, op, f"{oc}:stored-conformer-differs[{','.join(bad)}]", f"ens[{i}] stored in a MoleculeLibrary reads back different in {bad}")
                    return False
                return True
            if what == "lib_ens":
                lib = self._lib(ml.ConformerLibrary, self.libpath_c)
                try:
                    with lib.writing(timeout=5):
                        lib["k"] = e
                    with lib.reading(timeout=5):
                        r = lib["k"]
                finally:
                    self._lib_done(lib, self.libpath_c)
                bad = []
                if not eqnan(np.asarray(r.coords, dtype=np.float32), st.mc.astype(np.float32)):
                    bad.append("coords")
                if not eqnan(np.asarray(r.atomic_charges, dtype=np.float32), st.mq.astype(np.float32)):
                    bad.append("charges")
                if not eqnan(np.asarray(r.weights, dtype=np.float32), st.mw.astype(np.float32)):
                    bad.append("weights")
                if r.n_atoms != na or r.n_conformers != nc:
                    bad.append("counts")
                if bad:
                    self.viol(st, op, f"{oc}:stored-ensemble-differs[{','.join(bad)}]", f"the ensemble stored in a ConformerLibrary reads back different in {bad}")
                    return False
                return True
        except HarnessError:
            raise
        except Exception as ex:
            self.viol(st, op, f"{oc}:raised-{exc_name(ex)}", f"{what} raised {exc_name(ex)}: {ex}")
            return False
        raise HarnessError(what)

    def _cmp_frames(self, st, op, oc, frames, rows, charges):
        na = st.na
        if frames is None:
            self.viol(st, op, f"{oc}:text-unparseable", "the dumped text does not have the documented block structure")
            return False
        if len(frames) != len(rows):
            self.viol(st, op, f"{oc}:frame-count-differs", f"the dump holds {len(frames)} molecule blocks, expected {len(rows)}")
            return False
        for fr, i in zip(frames, rows):
            if len(fr["coords"]) != na:
                self.viol(st, op, f"{oc}:atom-count-differs", f"block for conformer {i} has {len(fr['coords'])} atom lines, expected {na}")
                return False
            if na and not close(np.array(fr["coords"]).reshape((na, 3)), st.mc[i], 6e-7):
                self.viol(st, op, f"{oc}:coordinates-differ", f"block for conformer {i} does not hold the coordinates of row {i}")
                return False
            if charges and na and not close(np.array(fr["charges"]).reshape((na,)), st.mq[i], 5.1e-4):
                self.viol(st, op, f"{oc}:charges-differ", f"block for conformer {i} does not hold the charges of row {i}")
                return False
            if charges and fr.get("n_bonds") != st.ens.n_bonds:
                self.viol(st, op, f"{oc}:bond-count-differs", f"block for conformer {i} has {fr.get('n_bonds')} bond lines")
                return False
        return True

    # ---- canonical form -----------------------------------------------------------------------
    # ---- hidden state -------------------------------------------------------------------------
    KNOWN_ATTRS = frozenset(
        ["_name", "_atoms", "_atomic_charges", "_bonds", "_adjacency", "_coords", "charge", "mult", "attrib", "_parent", "__weakref__", "_weights"]
    )

    @staticmethod
    def _memo_wrappers():
        """every functools cache (lru_cache / cache, also behind a property) defined on the classes of
        an ensemble or a conformer: cleared before a state is rebuilt, their fill level is state"""
        from molli.chem.ensemble import Conformer

        out = []
        seen = set()
        for cls in list(ConformerEnsemble.__mro__) + list(Conformer.__mro__):
            if cls is object or cls in seen:
                continue
            seen.add(cls)
            for name, val in sorted(vars(cls).items()):
                for f in (val, getattr(val, "fget", None), getattr(val, "__func__", None)):
                    if f is not None and callable(getattr(f, "cache_clear", None)) and callable(getattr(f, "cache_info", None)):
                        out.append((f"{cls.__name__}.{name}", f))
        return out

    def _finger(self, v, e, depth=0):
        """cheap structural digest of a value the reference model knows nothing about"""
        from molli.chem.ensemble import Conformer

        if v is None or isinstance(v, (bool, int)):
            return repr(v)
        if isinstance(v, str):
            return ("str", v[:32])
        if isinstance(v, float):
            return ("float",)
        if isinstance(v, np.ndarray):
            return ("ndarray", tuple(v.shape), v.dtype.str)
        if isinstance(v, Conformer):
            return ("Conformer", getattr(v, "_conf_id", None), getattr(v, "_parent", None) is e)
        if isinstance(v, dict):
            items = list(v.items())[:12] if depth < 2 else []
            try:
                keys = tuple(sorted(repr(k)[:24] for k, _ in items))
            except Exception:
                keys = ()
            return ("dict", type(v).__name__, len(v), keys, tuple(self._finger(x, e, depth + 1) for _, x in items))
        if isinstance(v, (list, tuple, set, frozenset)):
            seq = list(v)[:12] if depth < 2 and not isinstance(v, (set, frozenset)) else []
            return (type(v).__name__, len(v), tuple(self._finger(x, e, depth + 1) for x in seq))
        n = None
        try:
            n = len(v)
        except Exception:
            pass
        return ("obj", type(v).__name__, n)

    def hidden_state(self, st):
        """fingerprint of ALL instance state of the ensemble that the model does not account for:
        names of every instance attribute (dict and slots), and for each unknown one its structure;
        plus the fill level of every memoising wrapper on the classes"""
        e = st.ens
        names = set()
        d = getattr(e, "__dict__", None)
        if d is not None:
            names |= set(d)
        for cls in type(e).__mro__:
            sl = cls.__dict__.get("__slots__", ())
            for n in (sl,) if isinstance(sl, str) else sl:
                if n not in ("__weakref__", "__dict__") and hasattr(e, n):
                    names.add(n)
        unknown = []
        for n in sorted(names - self.KNOWN_ATTRS):
            try:
                unknown.append((n, self._finger(getattr(e, n), e)))
            except Exception as ex:  # pragma: no cover
                unknown.append((n, "EXC", exc_name(ex)))
        memo = []
        for name, f in self._memos:
            try:
                memo.append((name, f.cache_info().currsize))
            except Exception:  # pragma: no cover
                memo.append((name, None))
        return (tuple(sorted(names)), tuple(unknown), tuple(memo))

    def canon(self, st):
        e = st.ens
        if e is None:
            return ("none",)

        def ainfo(a):
            return (tuple(a.shape), a.dtype.str, bool(a.flags.writeable), bool(a.flags.c_contiguous), a.base is None)

        its = tuple(sorted((rec[1], rec[2]) for rec in st.its.values()))
        slots = len(st.its)
        try:
            arr = (ainfo(e.coords), ainfo(e.atomic_charges), ainfo(e.weights))
        except Exception as ex:  # pragma: no cover
            arr = ("EXC", exc_name(ex))
        return (
            arr,
            int(e.n_atoms),
            int(e.n_bonds),
            st.na,
            st.nc,
            e.name,
            getattr(e, "_current_mol_index", None),
            its,
            slots,
            None if st.held is None else (st.held[1], st.held[2]),
            all(a.parent is e for a in e.atoms),
            tuple(int(a.element) for a in e.atoms),
            self.hidden_state(st),
        )

    def observe(self, st):
        e = st.ens
        if e is None:
            return ("none",)
        nc = st.nc
        try:
            confs = tuple((tuple(e[i].coords.shape), tuple(e[i].atomic_charges.shape), e[i].n_atoms) for i in range(nc))
            return (
                tuple(e.coords.shape),
                tuple(e.atomic_charges.shape),
                tuple(e.weights.shape),
                int(e.n_conformers),
                int(e.n_atoms),
                int(e.n_bonds),
                e.name,
                str(e),
                len(e[0:]),
                confs,
                tuple(sorted(rec[1] for rec in st.its.values())),
            )
        except Exception as ex:  # pragma: no cover
            return ("EXC", exc_name(ex))


WRITE_LABEL = {
    "c_el": "conformer.coords[j]=",
    "c_all": "conformer.coords=",
    "q_el": "conformer.atomic_charges[j]=",
    "q_all": "conformer.atomic_charges=",
    "m_translate": "conformer.translate",
    "m_transform": "conformer.transform",
    "m_scale": "conformer.scale",
}


# -------------------------------------------------------------------------------------------------
# independent readers of the two text formats (only what is needed: counts, coordinates, charges)
# -------------------------------------------------------------------------------------------------
def parse_xyz(text):
    lines = text.split("\n")
    if lines and lines[-1] == "":
        lines.pop()
    frames = []
    p = 0
    try:
        while p < len(lines):
            n = int(lines[p].strip())
            name = lines[p + 1]
            coords, syms = [], []
            for l in lines[p + 2 : p + 2 + n]:
                t = l.split()
                if len(t) != 4:
                    return None
                syms.append(t[0])
                coords.append([float(t[1]), float(t[2]), float(t[3])])
            if len(coords) != n:
                return None
            frames.append({"name": name, "syms": syms, "coords": coords})
            p += 2 + n
    except (ValueError, IndexError):
        return None
    return frames


def parse_mol2(text):
    frames = []
    cur = None
    sect = None
    try:
        for l in text.split("\n"):
            s = l.strip()
            if s.startswith("@<TRIPOS>"):
                sect = s[9:]
                if sect == "MOLECULE":
                    cur = {"coords": [], "charges": [], "n_bonds": 0, "hdr": []}
                    frames.append(cur)
                continue
            if not s or s.startswith("#") or cur is None:
                continue
            if sect == "MOLECULE":
                cur["hdr"].append(s)
            elif sect == "ATOM":
                t = s.split()
                cur["coords"].append([float(t[2]), float(t[3]), float(t[4])])
                cur["charges"].append(float(t[8]))
            elif sect == "BOND":
                cur["n_bonds"] += 1
    except (ValueError, IndexError):
        return None
    return frames


# -------------------------------------------------------------------------------------------------
# self-contained reproduction script for a history (imports only molli)
# -------------------------------------------------------------------------------------------------
def repro_code(na, seed, hist):
    L = [
        "import numpy as np, molli as ml",
        "from molli.chem import Atom",
        f"na = {na}",
        "E = ['C','H','O','N']",
        "def mk(k, n=na):",
        "    m = ml.Molecule([Atom(E[j % 4]) for j in range(n)], name='mol')",
        "    m.coords = np.arange(3.0 * n).reshape(n, 3) + 10 * k",
        "    m.atomic_charges = np.arange(float(n)) + 1.0 + 0.5 * k",
        "    for j in range(n - 1): m.connect(j, j + 1)",
        "    return m",
        "M = [mk(0), mk(1), mk(2)]; Mx = mk(5, na + 1); E2 = ml.ConformerEnsemble([mk(3), mk(4)])",
        "R = np.array([[0., -1, 0], [1, 0, 0], [0, 0, 1]])",
        "its = {}",
    ]
    new = {
        "mol": "ml.ConformerEnsemble(M[0])",
        "mol_n3": "ml.ConformerEnsemble(M[0], n_conformers=3)",
        "list1": "ml.ConformerEnsemble([M[0]])",
        "list2": "ml.ConformerEnsemble([M[0], M[1]])",
        "list3": "ml.ConformerEnsemble([M[0], M[1], M[2]])",
        "ens": "ml.ConformerEnsemble(E2)",
        "conflist": "ml.ConformerEnsemble(E2[0:2])",
        "atoms2": "ml.ConformerEnsemble([Atom(E[j % 4]) for j in range(na)], n_conformers=2)",
        "atoms0": "ml.ConformerEnsemble([Atom(E[j % 4]) for j in range(na)], n_conformers=0)",
        "natoms": "ml.ConformerEnsemble(n_conformers=2, n_atoms=na)",
        "empty": "ml.ConformerEnsemble()",
        "kw": "ml.ConformerEnsemble([Atom(E[j % 4]) for j in range(na)], n_conformers=2, coords=np.zeros((2, na, 3)), weights=[0.25, 0.75], atomic_charges=np.zeros((2, na)))",
        "kw_row": "ml.ConformerEnsemble([Atom(E[j % 4]) for j in range(na)], n_conformers=2, coords=np.zeros((na, 3)), atomic_charges=np.zeros(na), weights=1.0)",
        "kw_scalar": "ml.ConformerEnsemble([Atom(E[j % 4]) for j in range(na)], n_conformers=2, coords=0.0, atomic_charges=0.0, weights=1.0)",
        "kw_one": "ml.ConformerEnsemble([Atom(E[j % 4]) for j in range(na)], n_conformers=2, coords=np.zeros((1, na, 3)), atomic_charges=np.zeros((1, na)), weights=np.ones(1))",
        "kw_alias": "ml.ConformerEnsemble([Atom(E[j % 4]) for j in range(na)], n_conformers=2, coords=E2.coords, atomic_charges=E2.atomic_charges, weights=E2.weights)",
        "kw_list": "ml.ConformerEnsemble([Atom(E[j % 4]) for j in range(na)], n_conformers=2, coords=np.zeros((2, na, 3)).tolist(), atomic_charges=np.zeros((2, na)).tolist(), weights=[1.0, 1.0])",
        "kw_int": "ml.ConformerEnsemble([Atom(E[j % 4]) for j in range(na)], n_conformers=2, coords=np.zeros((2, na, 3), dtype=int), atomic_charges=np.zeros((2, na), dtype=int), weights=np.ones(2, dtype=int))",
        "xyz": "ml.ConformerEnsemble.loads_xyz(ml.ConformerEnsemble([M[0], M[1]]).dumps_xyz())",
        "mol2": "ml.ConformerEnsemble.loads_mol2(ml.ConformerEnsemble([M[0], M[1]]).dumps_mol2())",
        "struct": "ml.ConformerEnsemble(ml.Structure(M[0]))",
        "clib": "ml.ConformerEnsemble([M[0], M[1], M[2]])  # (the check stores it in a ConformerLibrary and reads it back)",
    }
    src = {"M0": "M[0]", "Mx": "Mx", "own0": "ens[0]", "E2c1": "E2[1]", "L1": "[M[1]]", "L2": "[M[0], M[1]]", "L0": "[]", "E2": "E2", "self": "ens", "ownslice": "ens[0:2]", "gen": "(m for m in [M[1]])", "tuple2": "(M[0], M[1])", "map2": "map(lambda m: m, [M[0], M[1]])", "filter2": "filter(None, [M[0], M[1]])", "iter2": "iter([M[0], M[1]])", "E2slice": "E2[0:2]", "gen0": "(m for m in [])"}
    tf = {
        "tr1": "ens.translate([1.0, -2.0, 0.5])",
        "tr2": "ens.translate(np.ones((ens.n_conformers, 3)))",
        "rot": "ens.rotate(R)",
        "rotn": "Rs = np.stack([[R, R.T][i % 2] for i in range(ens.n_conformers)]); before = ens.coords.copy(); ens.rotate(Rs); print('per-conformer reference agrees:', [bool(np.allclose(ens.coords[i], before[i] @ Rs[i], equal_nan=True)) for i in range(ens.n_conformers)])",
        "rot_x": "ens.rotate(np.array([[1., 0, 0], [0, 0, -1], [0, 1, 0]]))",
        "rot180": "ens.rotate(np.diag([-1., -1, 1]))",
        "rotn180": "ens.rotate(np.stack([np.diag([-1., -1, 1])] * ens.n_conformers))",
        "scale2": "ens.scale(2.0)",
        "invert": "ens.invert()",
        "center_atom": "ens.center_at_atom(ens.atoms[0])",
        "center_core": "ens.center_at_core(list(range(ens.n_atoms)))",
    }
    for op in hist:
        k = op[0]
        if k == "new":
            L.append(f"ens = {new[op[1]]}")
        elif k == "append":
            L.append(f"ens.append({src[op[1]]})")
        elif k == "extend":
            L.append(f"ens.extend({src[op[1]]})")
        elif k == "tf":
            L.append(tf[op[1]])
        elif k == "w":
            _, route, i, what = op
            c = {"idx": f"ens[{i}]", "neg": f"ens[{i} - ens.n_conformers]", "slice": f"ens[{i}:{i}+1][0]"}[route]
            L.append(
                {
                    "c_el": f"{c}.coords[-1] = [7.5, -3.25, 0.5]",
                    "c_all": f"{c}.coords = np.ones((ens.n_atoms, 3))",
                    "q_el": f"{c}.atomic_charges[-1] = -1.75",
                    "q_all": f"{c}.atomic_charges = np.ones(ens.n_atoms)",
                    "m_translate": f"{c}.translate([1.0, -2.0, 0.5])",
                    "m_transform": f"{c}.transform(R)",
                    "m_scale": f"{c}.scale(2.0)",
                }[what]
            )
        elif k == "hold":
            L.append({"idx": f"held = ens[{op[2]}]", "slice": f"held = ens[{op[2]}:{op[2]}+1][0]", "iter": f"held = list(ens)[{op[2]}]"}[op[1]] + f"; held_row = {op[2]}   # kept over all later steps")
        elif k == "unhold":
            L.append("held = None")
        elif k == "keep":
            L.append({"list": "kept = list(ens)", "steps": "it = iter(ens); kept = [next(it) for _ in range(ens.n_conformers)]", "interleaved": "a, b = iter(ens), iter(ens); kept = [next(x) for _ in range(ens.n_conformers) for x in (a, b)]", "sorted": "kept = sorted(ens, key=lambda c: 0)", "max": "kept = [max(ens, key=lambda c: 0)]", "combinations": "import itertools; kept = [c for pair in itertools.combinations(ens, 2) for c in pair]", "index": "kept = [ens[i] for i in range(ens.n_conformers)]; [c for c in ens]", "slice": "kept = ens[0:ens.n_conformers]; [c for c in ens]", "slice_rev": "kept = ens[::-1]; [c for c in ens]"}[op[1]])
            L.append("print([str(c) for c in kept])   # each kept conformer must still stand for its own row")
        elif k == "set" and len(op) > 2 and op[2] != "full":
            a_ = {"weights": "weights", "coords": "coords", "charges": "atomic_charges"}[op[1]]
            L.append(
                {
                    "row": f"ens.{a_} = np.ones(ens.{a_}.shape[1:])",
                    "scalar": f"ens.{a_} = 2.5",
                    "list": f"ens.{a_} = np.ones(ens.{a_}.shape).tolist()",
                    "int": f"ens.{a_} = np.ones(ens.{a_}.shape, dtype=int)",
                    "one": f"ens.{a_} = np.ones((1,) + ens.{a_}.shape[1:])",
                    "own": f"ens.{a_} = ens[0].{a_}",
                    "alias": f"ens.{a_} = E2.{a_} if E2.{a_}.shape == ens.{a_}.shape else E2.{a_}[0]",
                    "bad_atoms": f"ens.{a_} = np.ones((ens.n_conformers, ens.n_atoms + 1) + ens.{a_}.shape[2:])   # must raise",
                    "bad_confs": f"ens.{a_} = np.ones((ens.n_conformers + 1,) + ens.{a_}.shape[1:])   # must raise",
                    "bad_row": f"ens.{a_} = np.ones((ens.n_atoms + 1,) + ens.{a_}.shape[2:])   # must raise",
                }[op[2]]
            )
        elif k == "set":
            L.append({"weights": "ens.weights = np.arange(ens.n_conformers) + 0.5", "coords": "ens.coords = np.zeros(ens.coords.shape)", "charges": "ens.atomic_charges = np.zeros(ens.atomic_charges.shape)"}[op[1]])
        elif k == "obs":
            i = op[2] if len(op) > 2 else None
            L.append(
                {
                    "dumps_xyz": "print(ens.dumps_xyz())",
                    "dumps_mol2": "print(ens.dumps_mol2())",
                    "cdump_xyz": f"print(ens[{i}].dumps_xyz())",
                    "cdump_mol2": f"print(ens[{i}].dumps_mol2())",
                    "lib_conf": f"lib = ml.MoleculeLibrary('/tmp/repro.mlib', readonly=False, overwrite=True)\nwith lib.writing(): lib['k'] = ens[{i}]\nwith lib.reading(): print(lib['k'].coords)",
                    "lib_ens": "lib = ml.ConformerLibrary('/tmp/repro.clib', readonly=False, overwrite=True)\nwith lib.writing(): lib['k'] = ens\nwith lib.reading(): print(lib['k'].coords.shape)",
                }[op[1]]
            )
        elif k == "iter":
            L.append(f"its[{op[1]}] = iter(ens)")
        elif k == "drop":
            L.append(f"del its[{op[1]}]")
        elif k == "next":
            L.append(f"print('iterator {op[1]} yields', next(its[{op[1]}], 'StopIteration'))")
        elif k == "loop":
            L.append("print([str(c) for c in ens])")
        elif k == "nested":
            L.append("print([(str(a), str(b)) for a in ens for b in ens])")
    if any(o[0] == "hold" for o in hist):
        L.append("if held is not None:")
        L.append("    held.coords = held.coords + 1.0; held.translate([1.0, -2.0, 0.5])")
        L.append("    print('held view reads', held.coords[0], '; ensemble row', ens.coords[held_row][0], '; fresh view', ens[held_row].coords[0])   # all three must agree")
    if any(o[0] in ("append", "extend") for o in hist):
        L.append("print('charges of the ensemble rows:', ens.atomic_charges.tolist(), '; M[0], M[1] charges:', M[0].atomic_charges.tolist(), M[1].atomic_charges.tolist())")
    L.append("print('n_conformers', ens.n_conformers, 'n_atoms', ens.n_atoms, 'coords', ens.coords.shape, 'charges', ens.atomic_charges.shape, 'weights', ens.weights.shape)")
    return "\n".join(L)


# =================================================================================================
# directed pass: observe -> grow -> observe, every combination, NO state deduplication
# (hidden state that lives where no fingerprint can see it - closures, module-level tables - still
#  has to survive "something looked at the ensemble, then it grew, then something looks again")
# =================================================================================================
D_OBS = ["loop", "nested", "iterator", "keep_list", "dumps_xyz", "dumps_mol2", "center_core", "lib_ens", "w_neg", "keep_index", "center_atom", "cdump_last", "lib_conf_last", "w_slice", "set_weights", "keep_slice", "set_charges_row", "hold_idx", "hold_iter", "hold_slice"]
D_GROW = [("append", "M0"), ("append", "own0"), ("extend", "L2"), ("extend", "E2"), ("extend", "self"), ("append", "E2c1"), ("extend", "L1"), ("extend", "ownslice"), ("extend", "gen")]
D_KINDS_QUICK = ["list2", "mol", "atoms0", "ens", "empty", "clib"]


def d_expand(st, o):
    """operation list of an observer macro in the current state (None = not applicable)"""
    nc, na = st.nc, st.na
    if o == "loop":
        return [("loop",)]
    if o == "nested":
        return [("nested",)]
    if o == "iterator":
        return [("iter", 0)] + [("next", 0, "r")] * (nc + 1)
    if o in ("dumps_xyz", "dumps_mol2"):
        return [("obs", o)]
    if o == "center_core":
        return [("tf", "center_core")] if na else None
    if o == "center_atom":
        return [("tf", "center_atom")] if na else None
    if o == "lib_ens":
        return [("obs", "lib_ens")] if na else None
    if o == "cdump_last":
        return [("obs", "cdump_xyz", nc - 1)] if nc else None
    if o == "lib_conf_last":
        return [("obs", "lib_conf", nc - 1)] if nc else None
    if o == "w_neg":
        return [("w", "neg", nc - 1, "c_el")] if nc and na else None
    if o == "w_slice":
        return [("w", "slice", nc - 1, "q_all")] if nc else None
    if o == "set_weights":
        return [("set", "weights")]
    if o in ("keep_list", "keep_index", "keep_slice"):
        return [("keep", o[5:])]
    if o in ("hold_idx", "hold_iter", "hold_slice"):
        if not nc or st.held is not None:
            return None
        return [("hold", o[5:], nc - 1)]
    if o == "set_charges_row":
        return [("set", "charges", "row")] if nc and na else None
    raise HarnessError(o)


def _directed_part(ctx, part):
    p, kinds = part
    sm = ESys(ctx, na=p["na"], ncmax=64, nit=2, label="dir", kinds=KINDS, full=True)
    obs, grow, rounds = p["obs"], p["grow"], p["rounds"]

    def run_ops(st, ops):
        for op in ops:
            ctx.transitions += 1
            if not sm.step(st, op):
                return False
        return True

    def finish(st):
        k = seqx._h(sm.canon(st))
        ctx.state_keys.add(k)
        ctx.outcome(seqx._h(sm.observe(st)))
        if sm.is_nontrivial(st):
            ctx.nontrivial(k)
        ctx.traces += 1

    def rec(prefix, r):
        """prefix: validated plain-op history ending in a growth op (or the constructor)"""
        for o1 in obs:
            st = sm.build(prefix)
            ops1 = d_expand(st, o1)
            if ops1 is None:
                sm.dispose(st)
                continue
            ok = run_ops(st, ops1)
            if ok:
                finish(st)
            nc = st.nc
            sm.dispose(st)
            if not ok or r == 0:
                continue
            for g in grow:
                if g[1] in ("own0", "self", "ownslice") and nc < 1:
                    continue
                st = sm.build(prefix + ops1)
                ok = run_ops(st, [g])
                sm.dispose(st)
                if ok:
                    rec(prefix + ops1 + [g], r - 1)

    for k in kinds:
        st = sm.build([])
        ok = run_ops(st, [("new", k)])
        sm.dispose(st)
        if ok:
            rec([("new", k)], rounds)


# =================================================================================================
# layer: the view is the only thing kept.  The ensemble is built inside a helper that returns ONLY a
# view (by index / from a slice / from an iterator / a pickled or deep-copied view / from a text
# loader); every other reference is dropped and the garbage collector run; then the view is read,
# dumped and written through.
# =================================================================================================
LIFE_HOW = ["index", "slice", "iterator", "pickle", "deepcopy", "copy", "list-kept", "loader-index"]


def _lonely_view(sm, kind, how, grow):
    """-> (view or list of views, row, expected coords row, expected charges row, name, elements)"""
    import copy
    import gc
    import pickle

    hist = [("new", kind)] + ([("append", "M0")] if grow else [])
    # this history was not validated by the BFS of this run: it is executed step by step with all
    # oracles on, and a violation is reported as a violation (by the step, under its usual signature)
    st = sm.build([])
    for op in hist:
        if not sm.step(st, op):
            sm.dispose(st)
            return None
    e = st.ens
    nc = st.nc
    if nc == 0 or st.na == 0:
        sm.dispose(st)
        return None
    row = nc - 1
    exp = (st.mc[row].copy(), st.mq[row].copy(), e.name, list(st.elements), st.na, int(e.n_bonds))
    if how == "index":
        v = e[row]
    elif how == "slice":
        v = e[row : row + 1][0]
    elif how == "iterator":
        v = None
        for v in e:
            pass
    elif how == "pickle":
        v = pickle.loads(pickle.dumps(e[row]))
    elif how == "deepcopy":
        v = copy.deepcopy(e[row])
    elif how == "copy":
        v = copy.copy(e[row])
    elif how == "list-kept":
        v = list(e)[row]
    elif how == "loader-index":
        v = ConformerEnsemble.loads_xyz(e.dumps_xyz())[row]
        exp = (exp[0], None, None, exp[3], exp[4], 0)
    else:
        raise HarnessError(how)
    sm.dispose(st)
    del e, st
    sm._fx = None if kind in ("atoms2", "atoms0", "kw") else sm._fx
    gc.collect()
    return v, row, exp


def _life_part(ctx, part):
    kinds, na = part
    sm = ESys(ctx, na=na, ncmax=8, nit=2, label="life", kinds=KINDS, full=True)
    for kind in kinds:
        for grow in (False, True):
            for how in LIFE_HOW:
                try:
                    got = _lonely_view(sm, kind, how, grow)
                except HarnessError:
                    raise
                except Exception as ex:
                    ctx.violation(f"lifetime[{how}]:taking-the-view-raised-{exc_name(ex)}", f"{kind}{'+append' if grow else ''}: obtaining the view ({how}) raised {exc_name(ex)}: {ex}", {"layer": "lifetime", "kind": kind, "how": how, "grow": grow, "na": na}, repro=life_repro(how))
                    ctx.transitions += 1
                    continue
                if got is None:
                    continue
                v, row, (xc, xq, xname, xel, xna, xnb) = got
                ctx.transitions += 1
                ctx.traces += 1
                sym = None
                try:
                    ok = v.n_atoms == xna and [a.element for a in v.atoms] == xel and (xname is None or v.name == xname) and v.n_bonds == xnb
                    ok = ok and close(v.coords, xc, 6e-7 if how == "loader-index" else 0.0) and (xq is None or eqnan(v.atomic_charges, xq))
                    if not ok:
                        sym = "does-not-show-its-row"
                    else:
                        fr = parse_xyz(v.dumps_xyz())
                        fm = parse_mol2(v.dumps_mol2())
                        if not fr or len(fr) != 1 or not close(np.array(fr[0]["coords"]).reshape((xna, 3)), xc, 6e-7) or not fm or len(fm) != 1:
                            sym = "dump-differs"
                        else:
                            newc, newq = w_coords(xna) + 3.0, w_charges(xna) - 2.0
                            v.coords = newc
                            v.atomic_charges = newq
                            v.translate(TR1)
                            if not close(v.coords, newc + TR1, 1e-9) or not eqnan(v.atomic_charges, newq):
                                sym = "write-not-visible-on-re-read"
                except Exception as ex:
                    sym = f"raised-{exc_name(ex)}"
                ctx.outcome(("life", kind, how, grow, sym))
                ctx.nontrivial(("life", kind, how, grow))
                if sym:
                    ctx.violation(
                        f"lifetime[{how}]:{sym}",
                        f"{kind}{'+append' if grow else ''}: a conformer ({how}) kept after every other reference to its ensemble was dropped and collected: {sym}",
                        {"layer": "lifetime", "kind": kind, "how": how, "grow": grow, "na": na},
                        repro=life_repro(how),
                    )


def life_repro(how):
    take = {
        "index": "return ens[1]",
        "slice": "return ens[1:2][0]",
        "iterator": "for c in ens: pass\n    return c",
        "pickle": "return pickle.loads(pickle.dumps(ens[1]))",
        "deepcopy": "return copy.deepcopy(ens[1])",
        "copy": "return copy.copy(ens[1])",
        "list-kept": "return list(ens)[1]",
        "loader-index": "return ml.ConformerEnsemble.loads_xyz(ens.dumps_xyz())[1]",
    }[how]
    return "\n".join(
        [
            "import gc, copy, pickle, numpy as np, molli as ml",
            "def view():",
            "    ens = ml.ConformerEnsemble(['C', 'H'], n_conformers=2, name='mol'); ens.coords = np.arange(12.).reshape(2, 2, 3)",
            "    " + take,
            "v = view(); gc.collect()",
            "print(v.name, v.n_atoms, v.coords)        # the ensemble lives on through its view",
            "v.coords = v.coords + 1; print(v.coords[0], v.dumps_xyz())",
        ]
    )


# =================================================================================================
# layer: constructor source kinds x keyword arrays.  A keyword array that was given is what the
# ensemble shows (broadcast over the conformers), everything rectangular.
# =================================================================================================
CTOR_SOURCES = ["n_atoms", "atom-list", "molecule", "conformer", "molecule-list", "ensemble", "deserialised-ensemble", "deserialised-molecule"]


def _ctor_layer(ctx, part):
    import itertools

    na = part
    sm = ESys(ctx, na=na, ncmax=8, nit=2, label="ctor", kinds=KINDS, full=True)
    st = sm.build([])
    M, E2 = st.mols, st.e2
    # deserialised sources (a failure to prepare them is a finding of its own, not a harness error)
    dE = dM = None
    sources = list(CTOR_SOURCES)
    for name_, cls_, path_, obj_ in (("deserialised-ensemble", ml.ConformerLibrary, sm.libpath_c, E2), ("deserialised-molecule", ml.MoleculeLibrary, sm.libpath_m, M[1])):
        lib = None
        try:
            lib = sm._lib(cls_, path_)
            with lib.writing(timeout=5):
                lib["k"] = obj_
            with lib.reading(timeout=5):
                got_ = lib["k"]
            if name_ == "deserialised-ensemble":
                dE = got_
            else:
                dM = got_
        except Exception as ex:
            ctx.violation(f"ctor[{name_}]:preparing-the-source-raised-{exc_name(ex)}", f"storing and reading back the source object raised {exc_name(ex)}: {ex}", {"layer": "ctor", "source": name_, "na": na})
            sources.remove(name_)
        finally:
            if lib is not None:
                sm._lib_done(lib, path_)

    def source(kind):
        # -> (positional argument or None, extra keywords, number of conformers the source fixes or None)
        if kind == "n_atoms":
            return None, {"n_atoms": na}, None
        if kind == "atom-list":
            return mk_atoms(na), {}, None
        if kind == "molecule":
            return M[0], {}, "one-if-default"
        if kind == "conformer":
            return E2[1], {}, "one-if-default"
        if kind == "molecule-list":
            return [M[0], M[1]], {}, 2
        if kind == "ensemble":
            return E2, {}, 2
        if kind == "deserialised-ensemble":
            return dE, {}, 2
        if kind == "deserialised-molecule":
            return dM, {}, "one-if-default"
        raise HarnessError(kind)

    def value(what, shape, nc):
        full = {"coords": np.array([w_coords(na) + 11.0 * (i + 1) for i in range(max(nc, 1))]).reshape((max(nc, 1), na, 3)), "charges": np.array([w_charges(na) - 7.0 * (i + 1) for i in range(max(nc, 1))]).reshape((max(nc, 1), na)), "weights": np.array([2.5 + i for i in range(max(nc, 1))])}[what]
        if shape == "full":
            return full[:nc] if nc else full[:0]
        if shape == "row":
            return full[0] if what != "weights" else 2.5
        if shape == "one":
            return full[0:1]
        raise HarnessError(shape)

    for kind in sources:
        for ncarg in (None, 2, 3):
            for r in range(0, 4):
                for given in itertools.combinations(("coords", "charges", "weights"), r):
                    for shape in ("full", "row", "one") if given else ("full",):
                        other, kw0, fixes = source(kind)
                        if fixes is None:
                            nc = ncarg or 0
                        elif fixes == "one-if-default":
                            nc = ncarg or 1
                        else:
                            nc = fixes
                        kw = dict(kw0)
                        if ncarg is not None:
                            kw["n_conformers"] = ncarg
                        vals = {}
                        for g in given:
                            vals[g] = value(g, shape, nc)
                            kw[{"coords": "coords", "charges": "atomic_charges", "weights": "weights"}[g]] = vals[g]
                        tshape = {"coords": (nc, na, 3), "charges": (nc, na), "weights": (nc,)}
                        legit = True
                        expv = {}
                        for g in given:
                            try:
                                expv[g] = np.array(np.broadcast_to(np.asarray(vals[g], dtype=float), tshape[g]), dtype=float)
                            except ValueError:
                                legit = False
                        ctx.transitions += 1
                        ctx.traces += 1
                        case = {"layer": "ctor", "source": kind, "n_conformers": ncarg, "given": list(given), "shape": shape, "na": na}
                        label = f"ctor[{kind}|n_conformers-{'default' if ncarg is None else 'explicit'}]"
                        try:
                            e = ConformerEnsemble(other, **kw) if other is not None else ConformerEnsemble(**kw)
                        except Exception as ex:
                            ctx.outcome(("ctor", kind, ncarg, given, shape, "raised"))
                            if legit:
                                ctx.violation(f"{label}:raised-{exc_name(ex)}", f"ConformerEnsemble({kind}, n_conformers={ncarg}, keyword arrays {list(given)} of form {shape}) raised {exc_name(ex)}: {ex}", case, repro=ctor_repro(case))
                            continue
                        shapes = (tuple(e.coords.shape), tuple(e.atomic_charges.shape), tuple(e.weights.shape))
                        rn = int(e.n_conformers)
                        rect = shapes == ((rn, na, 3), (rn, na), (rn,)) and int(e.n_atoms) == na
                        ctx.outcome(("ctor", kind, ncarg, given, shape, shapes))
                        ctx.nontrivial(("ctor", kind, ncarg, given, shape))
                        if not rect:
                            ctx.violation(f"{label}:not-rectangular", f"ConformerEnsemble({kind}, n_conformers={ncarg}, {list(given)} as {shape}): shapes {shapes}, n_atoms {e.n_atoms}", case, repro=ctor_repro(case))
                            continue
                        if not legit:
                            continue  # a form that does not broadcast: accepted or rejected, but rectangular
                        if rn != nc:
                            ctx.violation(f"{label}:conformer-count-differs", f"ConformerEnsemble({kind}, n_conformers={ncarg}, {list(given)} as {shape}) has {rn} conformers, expected {nc}", case, repro=ctor_repro(case))
                            continue
                        real = {"coords": e.coords, "charges": e.atomic_charges, "weights": e.weights}
                        for g in given:
                            if not eqnan(np.asarray(real[g], dtype=float), expv[g]):
                                ctx.violation(f"{label}:keyword-array-not-shown[{g}]", f"ConformerEnsemble({kind}, n_conformers={ncarg}, {list(given)} as {shape}): the {g} given are not what the ensemble shows", case, repro=ctor_repro(case))
    sm.dispose(st)


def ctor_repro(case):
    src = {
        "n_atoms": "n_atoms=2",
        "atom-list": "['C', 'H']",
        "molecule": "mol",
        "conformer": "ml.ConformerEnsemble([mol, mol])[1]",
        "molecule-list": "[mol, mol]",
        "ensemble": "ml.ConformerEnsemble([mol, mol])",
        "deserialised-ensemble": "ml.ConformerEnsemble([mol, mol])   # (the check reads it from a ConformerLibrary)",
        "deserialised-molecule": "mol   # (the check reads it from a MoleculeLibrary)",
    }[case["source"]]
    kw = []
    if case["n_conformers"] is not None:
        kw.append(f"n_conformers={case['n_conformers']}")
    one = case["shape"] == "one"
    if "coords" in case["given"]:
        kw.append("coords=np.full((1, 2, 3), 7.0)" if one else "coords=np.full((2, 3), 7.0)")
    if "charges" in case["given"]:
        kw.append("atomic_charges=np.full((1, 2), -3.0)" if one else "atomic_charges=np.full(2, -3.0)")
    if "weights" in case["given"]:
        kw.append("weights=[2.5]")
    return "\n".join(
        [
            "import numpy as np, molli as ml",
            "mol = ml.Molecule(['C', 'H']); mol.coords = 1.0; mol.atomic_charges = [0.5, -0.5]",
            f"ens = ml.ConformerEnsemble({', '.join([src.split('   #')[0]] + kw)})",
            "print(ens.n_conformers, ens.coords.tolist(), ens.atomic_charges.tolist(), ens.weights.tolist())   # expected: the values given, for every conformer",
        ]
    )


def _layers(c, part):
    which, na = part
    if which == "life":
        _life_part(c, (KINDS, na))
    else:
        _ctor_layer(c, na)


# =================================================================================================
def run(ctx):
    thorough = ctx.thorough
    ctx.rule = (
        "explicit-state BFS over histories of real ConformerEnsemble operations (constructors, append, extend, "
        "collective transformations, writes through conformers, ensemble setters, iterators advanced step by step, "
        "plain and nested loops, dumps, library storage), states rebuilt by replay and deduplicated by a value-free "
        "canonical form (array shapes/dtypes/flags, counts, iteration cursor, per-iterator position and the classes of "
        "operations run since its last step); reference model = three numpy arrays + one position per iterator; "
        "a state is non-trivial when it holds >= 2 conformers of >= 1 atom after >= 2 operations; the canonical form also "
        "fingerprints every instance attribute the model does not know (names, types, lengths/shapes, conformer ids) and "
        "the fill level of every functools cache on the classes; in addition every history constructor . observer . growth . "
        "observer (thorough: two rounds) is executed without any deduplication"
    )
    ctx.assumptions += [
        "rows belong to conformers: after a collective transformation row i is conformer i's geometry moved by ITS vector / matrix (row-vector convention x @ R[i], as Conformer.transform and the one-matrix rotate have it), charges and weights unchanged; a construction route that fixes per-conformer quantities (list of molecules / conformers, ensemble, library, mol2 / xyz text) shows structure i's coordinates and partial charges in row i; what no input fixes (e.g. coordinates of ConformerEnsemble(mol)) is taken from the object; append/extend leave the existing rows of coords/charges/weights as they were and the new rows are the coordinates and partial charges of the geometries handed in (weights: those of an ensemble argument), and a keyword array given to the constructor is what the ensemble shows",
        "appending / extending with a geometry of a different atom count, extending with an empty list, and transforming an ensemble with 0 conformers or 0 atoms may either raise (state unchanged) or succeed (state rectangular by the ensemble's own n_conformers/n_atoms)",
        "append/extend are not generated while an iterator is live (growing a sequence under iteration is outside the property)",
        "a conformer object is identified with a row by its declared conformer id, else by the memory its coords view",
        "'serialised' is read as: stored through molli.chem.io (MoleculeLibrary / ConformerLibrary); pickling is C06's concern; the dead legacy method ConformerEnsemble.serialize() is not called",
        "dump round trip: an independent 20-line reader per format; coordinates compared at the 6 decimals the writers print, mol2 charges at 3 decimals",
        "a conformer keeps its ensemble alive: a view (by index, slice, iteration, pickled, copied, from a loader) that is the only thing kept still reads its row, dumps and can be written through (this is what the repaired tree does)",
        "constructor: the number of conformers is n_conformers for no source / an atom list, n_conformers or 1 for a molecule or conformer, the source's count for a list of molecules or an ensemble; a keyword array that broadcasts to that shape is shown by the ensemble, one that does not may be rejected",
        "one view may be held (taken by index, from an iterator or from a slice) over all later steps; after every step it is read, dumped, compared with a fresh ens[i] and written through (coords=, atomic_charges=, translate); stepwise iterators are not combined with a held view",
        "the harness's own reads through conformers after each step are part of the history: they are repeated identically when a prefix is replayed",
        "the canonical form leaves array *values* out (no operation of the property branches on them); the per-step comparison with the model is exact (NaN == NaN)",
    ]
    if thorough:
        plan = [
            dict(na=2, ncmax=5, nit=3, depth=9, full=True, kinds=KINDS, label="na2"),
            dict(na=1, ncmax=4, nit=2, depth=7, full=True, kinds=KINDS, label="na1"),
            dict(na=3, ncmax=4, nit=2, depth=7, full=True, kinds=KINDS, label="na3"),
        ]
    else:
        plan = [
            dict(na=2, ncmax=4, nit=2, depth=6, full=True, kinds=KINDS, label="na2"),
            dict(na=1, ncmax=3, nit=2, depth=4, full=False, kinds=["list2", "mol", "atoms2", "empty", "ens"], label="na1"),
        ]
    for p in plan:
        mk = lambda c, p=p: ESys(c, na=p["na"], ncmax=p["ncmax"], nit=p["nit"], label=p["label"], kinds=p["kinds"], full=p["full"])
        seqx.pbfs(ctx, mk, [[]], p["depth"], chunk=32)
        ctx.bound[f"{p['label']}"] = {k: v for k, v in p.items() if k not in ("kinds", "label")} | {"constructors": len(p["kinds"])}
        for k in list(ctx.notes):
            if k.startswith("level_"):
                ctx.notes[f"{p['label']}_{k}"] = ctx.notes.pop(k)
    # ---- directed observe -> grow -> observe pass (no deduplication) ----------------------------
    if thorough:
        dplans = [
            dict(na=2, obs=D_OBS, grow=D_GROW, rounds=1, kinds=KINDS),
            dict(na=1, obs=D_OBS, grow=D_GROW[:5], rounds=1, kinds=D_KINDS_QUICK),
            dict(na=2, obs=["loop", "iterator", "dumps_xyz", "center_core", "w_neg"], grow=D_GROW[:4], rounds=2, kinds=D_KINDS_QUICK),
        ]
    else:
        dplans = [dict(na=2, obs=D_OBS[:10], grow=D_GROW[:5], rounds=1, kinds=D_KINDS_QUICK)]
    t0 = ctx.transitions
    for i, dp in enumerate(dplans):
        parts = [({k: v for k, v in dp.items() if k != "kinds"}, [kind]) for kind in dp["kinds"]]
        ctx.pmap(_directed_part, parts)
        ctx.bound[f"directed_{i}"] = {"na": dp["na"], "observers": len(dp["obs"]), "growth_ops": len(dp["grow"]), "rounds_of_grow_then_observe": dp["rounds"], "constructors": len(dp["kinds"]), "dedup": False}
    ctx.note("directed_pass_transitions", ctx.transitions - t0)
    # ---- the view is the only thing kept ; constructor sources x keyword arrays --------------------
    t1 = ctx.transitions
    nas = [2, 1, 3] if thorough else [2]
    # few and cheap: one part per layer and atom count, kinds in a fixed order (the kept counterexample
    # of a signature is then always the same)
    for na in nas:
        ctx.pmap(_layers, [("life", na), ("ctor", na)])
    ctx.bound["lifetime_layer"] = {"constructors": len(KINDS), "ways_to_keep_only_the_view": LIFE_HOW, "after_growth": [False, True], "n_atoms": nas}
    ctx.bound["constructor_layer"] = {"sources": CTOR_SOURCES, "n_conformers": ["default", 2, 3], "keyword_arrays": "every subset of coords/atomic_charges/weights", "forms": ["full", "one row / scalar", "(1, ...)"], "n_atoms": nas}
    ctx.note("lifetime_and_constructor_layer_transitions", ctx.transitions - t1)
    ctx.note("distinct_canonical_states", len(ctx.state_keys))


def replay(ctx, case):
    if case.get("layer") == "lifetime":
        _life_part(ctx, ([case["kind"]], case.get("na", 2)))
        return
    if case.get("layer") == "ctor":
        _ctor_layer(ctx, case.get("na", 2))
        return
    sm = ESys(ctx, na=case.get("na", 2), ncmax=case.get("ncmax", 4), nit=case.get("nit", 2), label="replay")
    hist = [tuple(o) for o in case["history"]]
    # every step with all oracles on (the tree may differ from the one the case was found on)
    st = sm.build([])
    for op in hist:
        if not sm.step(st, op):
            break
    sm.dispose(st)
