"""
C04 - concurrent library sessions are serialised and survive failing sessions.

Engine schedx: 2..3 real OS processes, each holding one long-lived Collection handle on the same
library (spelled differently per process), run programs of reading()/writing() sessions under a
controlled scheduler; ALL schedules with <= `bound` preemptions are executed; in a second family
of programs one fault is injected at EVERY fault point of a session (body, encoder, n-th backend
write, file close, file open).
"""
from __future__ import annotations

import atexit
import hashlib
import itertools
import os
import shutil
from pathlib import Path

from mc import schedx
from mc.core import HarnessError
from mc.props.c02 import parse_ukv

from molli.storage import Collection
from molli.storage.backends import UkvCollectionBackend

LEVEL = "model_checking"

BUFS = {"dflt": -1, "large": 10**6}


# =================================================================================================
# worker body (runs in the forked worker processes)
# =================================================================================================
def body(env, prog, conn):
    env.active = False
    env.prev = None
    env.libreal = os.path.realpath(prog["lib"])
    os.chdir(prog["cwd"])
    env.begin_session(None)

    def enc(v):
        if env.fault_here("encoder"):
            raise ValueError("injected: encoder failed")
        return v

    env.keep = None  # the previous execution's handle goes away now, not at a random moment
    if getattr(env, "coll2", None) is not None:
        env.coll2._backend._write_queue.clear()
    env.coll2 = None
    env.exit_funcs = []
    env.capturing = True  # what the library registers with atexit is collected, not registered
    env.nonblocking = False
    env.lock_tag = ""
    env.old = []  # earlier handles of this process, referenced from here only (see "drop_old_at")
    env.cur = None

    def construct():
        if prog.get("unpickle"):
            # the handle arrives pickled (how joblib / process pools hand a library to their workers); the
            # library itself was created - with overwrite=True - by the parent before anything started
            import pickle

            c = pickle.loads(bytes.fromhex(prog["unpickle"]))
            env.keep = c
            return c
        kw = {}
        if prog.get("recreate"):
            # the library is created anew (under its write lock) with a header of another length
            kw = dict(overwrite=True, comment=prog["recreate"])
        c = Collection(prog["spelled"], UkvCollectionBackend, readonly=prog["ro"], bufsize=BUFS[prog["buf"]], value_encoder=enc, **kw)
        # long-lived handle: it outlives the execution (a leaked lock must stay leaked, not be
        # released by the garbage collector at a moment the scheduler does not control)
        env.keep = c
        return c

    log = []
    route = prog.get("cfg_route")
    if route:
        # how this process learnt where molli's shared directory (lock files) is: from the environment when
        # molli was imported (emulated in the forked worker by re-executing molli.config and molli._aux.lock
        # with the variable set), or from a configure() call at run time (what `molli --CONFIG` does)
        import importlib
        import molli.config as _mc
        import molli._aux.lock as _ml

        os.environ.pop("MOLLI_SHARED_DIR", None)
        if route[0] == "env":
            os.environ["MOLLI_SHARED_DIR"] = route[1]
        importlib.reload(_mc)
        importlib.reload(_ml)
        if route[0] == "configure":
            _mc.configure(SHARED_DIR=route[1])
    env.construct = construct
    if not prog.get("sched_ctor"):
        env.cur = construct()
    conn.send(("ready",))
    msg = conn.recv()
    if msg[0] != "start":
        raise RuntimeError(f"expected start, got {msg}")
    env.active = True
    if prog.get("sched_ctor"):
        # the handle is created under the scheduler: two processes may race to create the library
        try:
            env.cur = construct()
        except BaseException as ex:
            env.active = False
            prev = env.prev
            env.prev = None
            conn.send(("done", [{"kind": "ctor", "puts": [], "puts_ok": [], "dup_rejected": [], "listed": None, "reads": {}, "exc": type(ex).__name__, "exc_msg": str(ex)[:80], "state_after": "idle", "file_closed_after": True, "fault_fired": False, "queue_after": 0}], prev))
            return
    for sess in prog["sessions"]:
        log.append(do_session(env, env.cur, sess))
    if prog.get("exits"):
        # the process terminates normally: what was registered with atexit runs now (under the
        # scheduler; an exit hook must not wait for a lock forever, so acquisitions do not block)
        env.begin_session(None)
        env.nonblocking = True
        for func, a, k in reversed(env.exit_funcs):
            env._refused = False
            try:
                func(*a, **k)
            except BaseException as ex:
                log.append({"kind": "exit-hook", "puts": [], "puts_ok": [], "dup_rejected": [], "listed": None, "reads": {}, "exc": type(ex).__name__, "exc_msg": str(ex)[:80], "state_after": "idle", "file_closed_after": True, "fault_fired": False, "queue_after": 0})
        env.nonblocking = False
    env.exit_funcs = []
    env.capturing = False
    env.active = False
    env.old = []
    be = env.cur._backend
    be._write_queue.clear()
    prev = env.prev
    env.prev = None
    conn.send(("done", log, prev))


BODY_EXC = {
    "body": lambda: schedx.InjectedFault("injected: body failed"),
    # what is not an `Exception`: Ctrl-C in a process that survives it, a session inside an abandoned generator
    # (GeneratorExit is what generator.close() raises at the yield), sys.exit() called inside a session
    "body-kbi": lambda: KeyboardInterrupt("injected: interrupted"),
    "body-genexit": lambda: GeneratorExit("injected: generator abandoned"),
    "body-sysexit": lambda: SystemExit(3),
}


def _body_faults(env):
    for kind, mk in BODY_EXC.items():
        if env.fault_here(kind):
            raise mk()


def _between(env, sess, e, j):
    """what the program does between the puts of a session, at position j"""
    if sess.get("drop_old_at") == j:
        # the last references to the handles used earlier disappear now, in the middle of this session
        import gc

        env.old.clear()
        gc.collect()
    inner = sess.get("inner")
    if inner and inner["at"] == j:
        # a complete session on ANOTHER library, nested inside this one
        r = {"kind": inner["kind"], "puts": inner.get("puts", []), "puts_ok": [], "listed": None, "exc": None}
        outer_tag = env.lock_tag
        env.lock_tag = "@inner"
        try:
            c2 = getattr(env, "coll2", None)
            if c2 is None or getattr(env, "coll2_path", None) != inner["lib2"]:
                c2 = Collection(inner["lib2"], UkvCollectionBackend, readonly=False, bufsize=BUFS["large"])
                env.coll2, env.coll2_path = c2, inner["lib2"]
            if inner["kind"] == "W":
                with c2.writing():
                    for k, v in inner["puts"]:
                        c2[k] = v
                        r["puts_ok"].append(k)
            else:
                with c2.reading():
                    r["listed"] = sorted(c2.keys())
        except Exception as ex:
            r["exc"] = type(ex).__name__
            r["exc_msg"] = str(ex)[:80]
        finally:
            env.lock_tag = outer_tag
        e["inner"] = r


def do_session(env, coll, sess):
    if sess.get("lib2"):
        # a session on ANOTHER library of the same process (its own handle, kept between sessions)
        c2 = getattr(env, "coll2", None)
        if c2 is None or getattr(env, "coll2_path", None) != sess["lib2"]:
            env.lock_tag = "@inner"  # the constructor's own brief write lock is not a session
            try:
                c2 = Collection(sess["lib2"], UkvCollectionBackend, readonly=False, bufsize=BUFS["large"])
            finally:
                env.lock_tag = ""
            env.coll2, env.coll2_path = c2, sess["lib2"]
        coll = c2
    if sess.get("fresh_handle"):
        # the process goes on with a NEW handle on the library (constructed - or unpickled - now); the one used
        # so far is no longer referenced by the program, except from env.old until "drop_old_at"
        env.old.append(coll)
        env.lock_tag = "@inner"  # the constructor's own brief write lock is not a session
        try:
            coll = env.construct()
        finally:
            env.lock_tag = ""
        env.cur = coll
    env.begin_session(sess.get("fault"))
    e = {"kind": sess["kind"], "puts": sess.get("puts", []), "puts_ok": [], "dup_rejected": [], "listed": None, "reads": {}, "exc": None}
    timeout = 0 if sess.get("timeout") else None
    env.nonblocking = timeout is not None
    env._refused = False
    env.lock_tag = ":lib2" if sess.get("lib2") else ""
    try:
        if sess["kind"] in ("W", "D", "M"):
            with coll.writing(timeout=timeout):
                env.nonblocking = False
                if sess["kind"] == "M":
                    # a writing session that first looks at what is there: it reads the FIRST listed record
                    # (not the last one in the file when there are several) and then stores new ones
                    ks = sorted(coll.keys())
                    e["listed"] = ks
                    for k in ks[:1]:
                        try:
                            e["reads"][k] = coll[k]
                        except Exception as ex:
                            e["reads"][k] = ("EXC", type(ex).__name__)
                for j, (k, v) in enumerate(sess["puts"]):
                    _between(env, sess, e, j)
                    _body_faults(env)
                    if env.fault_here("poison"):
                        # an item the backend can never write (text where bytes are required): every attempt fails
                        coll[k + "-poison"] = "text, not bytes"
                    if sess["kind"] == "D":
                        try:
                            coll[k] = v
                        except KeyError:
                            e["dup_rejected"].append(k)
                            continue
                    else:
                        coll[k] = v
                    e["puts_ok"].append(k)
                _between(env, sess, e, len(sess["puts"]))
        else:
            with coll.reading(timeout=timeout):
                env.nonblocking = False
                _body_faults(env)
                _between(env, sess, e, 0)
                ks = sorted(coll.keys())
                e["listed"] = ks
                for k in ks:
                    try:
                        e["reads"][k] = coll[k]
                    except Exception as ex:
                        e["reads"][k] = ("EXC", type(ex).__name__)
    except BaseException as ex:
        e["exc"] = type(ex).__name__
        e["exc_msg"] = str(ex)[:80]
    e["gave_up"] = bool(env.nonblocking and env._refused)
    env.nonblocking = False
    env.lock_tag = ""
    be = coll._backend
    e["state_after"] = be._state
    uf = getattr(be, "_ukvfile", None)
    e["file_closed_after"] = True if uf is None else bool(uf.closed and getattr(uf._stream, "closed", True))
    e["fault_fired"] = env.fault_fired
    e["queue_after"] = len(be._write_queue)
    e["lib2"] = bool(sess.get("lib2"))
    return e


# =================================================================================================
# controller side: monitor + oracle
# =================================================================================================
def _lmode(info):
    return str(info or "").split("@")[0].split(":")[0]


def _lname(info):
    info = str(info or "")
    return info.split(":", 1)[1] if ":" in info else None


class Monitor:
    def __init__(self, lockpath=None, lock2path=None):
        self.lock2path = Path(lock2path) if lock2path else None
        self.open = {}
        self.lock = {}
        self.violations = []
        self.events = []  # ("acq"|"rel", wid, mode)
        self.lockpath = Path(lockpath) if lockpath else None
        self.probes = 0

    def before(self, wid, action, x):
        """a worker that holds a lock (as far as its own calls tell) is about to act: a third process - this one -
        must NOT be able to take a conflicting lock on the lock file now"""
        label, info = action
        if self.lockpath is None or wid not in self.lock or label == "lock?":
            return
        held = self.lock[wid]
        path = self.lock2path if _lname(held) == "lib2" else self.lockpath
        if path is None:
            return
        import fcntl

        try:
            fd = os.open(path, os.O_RDWR)
        except OSError:
            return
        try:
            fcntl.lockf(fd, (fcntl.LOCK_SH if _lmode(held) == "excl" else fcntl.LOCK_EX) | fcntl.LOCK_NB)
        except OSError:
            self.probes += 1
        else:
            self.violations.append(("lock-lost-during-session", f"worker {wid} is inside a session ({_lmode(held)} lock, about to {label}) but another process can take a conflicting lock on the library's lock file"))
        finally:
            os.close(fd)

    def completed(self, wid, action, prev, x):
        label, info = action
        if label in ("lock?", "unlock") and "@inner" in str(info or ""):
            return  # a session on another library nested inside the current one (or a constructor in between)
        if label == "open":
            if prev and str(prev).startswith("opened:"):
                self.open[wid] = info
                writers = [w for w, m in self.open.items() if m != "rb"]
                if writers and len(self.open) > 1:
                    self.violations.append(("writer-overlap", f"library file open in modes {sorted(self.open.items())} at the same time"))
        elif label == "close":
            if prev in ("closed", "closed-but-raised", "closed-but-buffer-lost"):
                self.open.pop(wid, None)
        elif label == "lock?":
            if prev == "acquired":
                self.lock[wid] = info
                self.events.append(("acq", wid, info))
                same = {w: m for w, m in self.lock.items() if _lname(m) == _lname(info)}
                if any(_lmode(m) == "excl" for m in same.values()) and len(same) > 1:
                    self.violations.append(("lock-held-incompatibly", f"lock holders {sorted(self.lock.items())}"))
        elif label == "unlock":
            if prev == "unlocked":
                self.lock.pop(wid, None)
                self.events.append(("rel", wid, None))


class Bench:
    """one library location + controller"""

    def __init__(self, ctx, nworkers, tag):
        self.ctx = ctx
        self.n = nworkers
        self.root = Path(ctx.scratch) / f"c04-{tag}-{os.getpid()}"
        (self.root / "real").mkdir(parents=True, exist_ok=True)
        for i in range(nworkers):
            (self.root / f"cwd{i}").mkdir(exist_ok=True)
        link = self.root / "link"
        if not link.exists():
            os.symlink(self.root / "real", link)
        self.lib = self.root / "real" / "lib.mlib"
        self.lib2 = self.root / "real" / "other.mlib"
        from molli._aux.lock import rwlock

        self.lockpath = rwlock(self.lib)
        self.ctl = schedx.Controller(nworkers, body, Monitor)

    def close(self):
        self.ctl.close()

    def lock2path(self):
        from molli._aux.lock import rwlock

        return Path(self.lockpath).parent / rwlock(self.lib2).name

    def spelled(self, wid, how):
        if how == "abs":
            return str(self.lib), str(self.root / f"cwd{wid}")
        if how == "rel":
            return "../real/lib.mlib", str(self.root / f"cwd{wid}")
        if how == "sym":
            return str(self.root / "link" / "lib.mlib"), str(self.root / f"cwd{wid}")
        raise ValueError(how)

    def reset_env(self):
        from molli._aux.lock import rwlock as _rw

        for q in (self.root / "real" / "other.mlib", self.root / "real" / "LIB.mlib", self.lib2):
            for p in (q, _rw(q)):
                if Path(p) in (self.lib, Path(self.lockpath)):
                    continue
                try:
                    os.unlink(p)
                except FileNotFoundError:
                    pass
        for p in (self.lib, self.lockpath):
            try:
                os.unlink(p)
            except FileNotFoundError:
                pass
        if getattr(self, "pre_create", False):
            # the parent creates the (empty) library before the workers get their pickled handles
            c = Collection(self.lib, UkvCollectionBackend, readonly=False, overwrite=True, bufsize=0)
            atexit.unregister(c._backend.flush)

    def programs(self, spec):
        progs = []
        # the second library of a process: another name, or the SAME name in another case (a different file)
        names2 = [w["lib2name"] for w in spec if w.get("lib2name")]
        self.lib2 = self.root / "real" / (names2[0] if names2 else "other.mlib")
        for wid, w in enumerate(spec):
            sp, cwd = self.spelled(wid, w["spelling"])
            ro = bool(w.get("ro"))
            for sdict in w["sessions"]:
                if sdict.get("lib2"):
                    sdict["lib2"] = str(self.lib2)
                if sdict.get("inner"):
                    sdict["inner"]["lib2"] = str(self.lib2)
            progs.append({"lib": str(self.lib), "spelled": sp, "cwd": cwd, "ro": ro, "buf": w["buf"], "sessions": w["sessions"], "sched_ctor": bool(w.get("sched_ctor")), "exits": bool(w.get("exits")), "recreate": w.get("recreate"), "unpickle": self._blob() if w.get("unpickle") else None, "cfg_route": (w["cfg_route"], str(self.root / "site_shared")) if w.get("cfg_route") else None})
        if any(w.get("cfg_route") for w in spec):
            self.lockpath = self.root / "site_shared" / "lock" / self.lockpath.name
        self.pre_create = any(w.get("unpickle") for w in spec)
        return progs

    def _blob(self):
        """a writable handle on the library, opened with overwrite=True by the parent, pickled"""
        import pickle

        c = Collection(self.lib, UkvCollectionBackend, readonly=False, overwrite=True, bufsize=0)
        atexit.unregister(c._backend.flush)
        return pickle.dumps(c).hex()


def mk_sessions(wid, kinds, seed):
    out = []
    for si, k in enumerate(kinds):
        if k == "W":
            out.append({"kind": "W", "puts": [(f"w{wid}s{si}a", _val(wid, si, 0, seed)), (f"w{wid}s{si}b", _val(wid, si, 1, seed))]})
        elif k == "D":
            out.append({"kind": "D", "puts": [("dup", _val(wid, si, 2, seed))]})
        elif k == "R":
            out.append({"kind": "R"})
        elif k == "M":
            out.append({"kind": "M", "puts": [(f"w{wid}s{si}m", _val(wid, si, 3, seed))]})
    return out


def _val(wid, si, j, seed):
    return hashlib.sha1(f"{wid}.{si}.{j}.{seed}".encode()).digest()[: 3 + (wid + si + j) % 5]


def fault_context(spec):
    if any(s.get("inner") for w in spec for s in w["sessions"]):
        return "session-on-another-library-nested-inside"
    if any(s.get("fresh_handle") for w in spec for s in w["sessions"]):
        return "earlier-handle-dropped-during-a-session[" + ("received-by-pickle" if any(w.get("unpickle") for w in spec) else "constructed") + "]"
    if any(s.get("lib2") for w in spec for s in w["sessions"]):
        return "two-libraries-in-one-process"
    if any(w.get("unpickle") for w in spec):
        return "handles-received-by-pickle"
    if any(w.get("recreate") for w in spec):
        return "library-recreated-by-another-process"
    if any(w.get("cfg_route") for w in spec):
        return "processes-configured-by-different-routes"
    if any(w.get("sched_ctor") for w in spec):
        return "concurrent-construction"
    if any(w.get("exits") or any(s.get("timeout") for s in w["sessions"]) for w in spec):
        return "timeouts-and-process-exit"
    for w in spec:
        for s in w["sessions"]:
            if s.get("fault"):
                return f"fault={s['fault'][0]}:buf={w['buf']}:in={s['kind']}"
    if any(s["kind"] == "M" for w in spec for s in w["sessions"]):
        return "sessions-that-read-before-writing"
    return "nofault"


def judge(bench: Bench, spec, x: schedx.Execution):
    """Returns list of (symptom, detail). x has no scheduler-level verdicts."""
    out = []
    logs = [x.logs[i] for i in range(bench.n)]
    any_write_fault = False
    must, may, dupvals = {}, {}, {}
    # a process that re-creates the library (constructor with overwrite=True, under the write lock) legitimately
    # discards everything stored before: sessions released before that moment are "dead"
    dead, reset_pos, new_comment = set(), None, b""
    ev_sessions = {w: [si for si, e in enumerate(logs[w]) if not (e.get("gave_up") and e.get("exc") == "TimeoutError")] for w in range(bench.n)}

    def smap(w, k):
        if k < 0:
            return k  # the constructor's own lock
        return ev_sessions[w][k] if k < len(ev_sessions[w]) else len(logs[w]) + k

    recreators = [w for w in range(bench.n) if spec[w].get("recreate")]
    if recreators:
        cnt = {w: (-1 if spec[w].get("sched_ctor") and not spec[w].get("unpickle") else 0) for w in range(bench.n)}
        relpos = {}
        for pos, (ev, wid, mode) in enumerate(x_events(x)):
            if ev == "acq":
                if wid in recreators and cnt[wid] == -1:
                    reset_pos = pos
                    new_comment = spec[wid]["recreate"].encode()
            else:
                relpos[(wid, smap(wid, cnt[wid]))] = pos
                cnt[wid] += 1
        if reset_pos is not None:
            dead = {ws for ws, pos in relpos.items() if pos < reset_pos}
    dead_puts = {}
    for wid, log in enumerate(logs):
        for si, e in enumerate(log):
            if (wid, si) in dead:
                for k, v in e["puts"]:
                    dead_puts.setdefault(k, []).append(v)
    for wid, log in enumerate(logs):
        for si, e in enumerate(log):
            if e["kind"] == "ctor":
                out.append((f"constructor-raised[{e['exc']}]", f"worker {wid}: constructing the handle raised {e['exc']}: {e.get('exc_msg')}"))
                continue
            if e["kind"] == "exit-hook":
                out.append((f"exit-hook-raised[{e['exc']}]", f"worker {wid}: an atexit hook of the library raised {e['exc']}: {e.get('exc_msg')}"))
                continue
            if e.get("gave_up") and e["exc"] == "TimeoutError":
                # a session with a timeout that found the lock taken: it legitimately did not run
                if e["state_after"] != "idle" or not e["file_closed_after"]:
                    out.append(("state-after-timed-out-session", f"worker {wid} session {si}: state {e['state_after']!r} / file open after a timed-out attempt"))
                continue
            failed = e["exc"] is not None
            if e.get("lib2"):
                if failed:
                    out.append((f"session-raised[{e['exc']}]", f"worker {wid} session {si} on the second library raised {e['exc']}: {e.get('exc_msg')} although nothing was injected into it"))
                if e["state_after"] != "idle" or not e["file_closed_after"]:
                    out.append(("state-not-idle-after-session", f"worker {wid} session {si} (second library): state {e['state_after']!r} / file open after the session"))
                continue
            faulted = bool(spec[wid]["sessions"][si].get("fault")) and e["fault_fired"]
            if faulted and spec[wid]["sessions"][si]["fault"][0] in ("write", "poison"):
                any_write_fault = True
            if failed and not faulted:
                out.append((f"session-raised[{e['exc']}]", f"worker {wid} session {si} ({e['kind']}) raised {e['exc']}: {e.get('exc_msg')} although nothing was injected into it"))
            if e["state_after"] != "idle":
                out.append(("state-not-idle-after-session", f"worker {wid} session {si}: backend state {e['state_after']!r} after the session ended ({'failed' if failed else 'ok'})"))
            if not e["file_closed_after"]:
                out.append(("file-left-open-after-session", f"worker {wid} session {si}: library file still open after the session ended ({'failed' if failed else 'ok'})"))
            pv = dict((k, v) for k, v in e["puts"])
            if (wid, si) in dead:
                continue
            for k in e["puts_ok"]:
                if e["kind"] == "D":
                    dupvals.setdefault(k, []).append(pv[k])
                elif failed:
                    may[k] = pv[k]
                else:
                    must[k] = pv[k]
            if failed:
                for k, v in e["puts"]:
                    if k not in e["puts_ok"] and e["kind"] != "D":
                        may.setdefault(k, v)
    # (d) a third party can take the write lock
    from fasteners import InterProcessReaderWriterLock

    lk = InterProcessReaderWriterLock(bench.lockpath)
    if lk.acquire_write_lock(timeout=0.3):
        lk.release_write_lock()
    else:
        out.append(("lock-leaked", "after all sessions ended a third process cannot acquire the write lock"))
        return out
    # (b) final contents through a fresh handle in this (another) process
    final = None
    try:
        c = Collection(bench.lib, UkvCollectionBackend, readonly=True)
        atexit.unregister(c._backend.flush)
        with c.reading(timeout=0.5):
            final = {k: c[k] for k in sorted(c.keys())}
    except Exception as ex:
        out.append((f"final-read-raised[{type(ex).__name__}]", f"a fresh reader failed: {ex}"))
        return out
    if not any_write_fault:
        recs, _, clean = parse_ukv(bench.lib.read_bytes())
        if not clean or {k.decode(): v for k, v in recs} != final or len(recs) != len(final):
            out.append(("file-not-wellformed", "the file does not parse as header|complete records holding exactly what a reader lists"))
    # the second library of the process holds exactly what its own completed sessions stored
    exp2 = {}
    has2 = False
    for wid, log in enumerate(logs):
        for e in log:
            if e.get("lib2"):
                has2 = True
                if e["exc"] is None:
                    exp2.update({k: v for k, v in e["puts"] if k in e["puts_ok"]})
            if e.get("inner"):
                has2 = True
                r = e["inner"]
                if r["exc"] is not None:
                    out.append((f"session-raised[{r['exc']}]", f"worker {wid}: the session on the second library nested inside a session on the first one raised {r['exc']}: {r.get('exc_msg')}"))
                else:
                    exp2.update({k: v for k, v in r["puts"] if k in r["puts_ok"]})
    if has2:
        try:
            c2 = Collection(bench.lib2, UkvCollectionBackend, readonly=True)
            atexit.unregister(c2._backend.flush)
            with c2.reading(timeout=0.5):
                got2 = {k: c2[k] for k in sorted(c2.keys())}
        except Exception as ex:
            out.append((f"final-read-raised[{type(ex).__name__}]", f"a fresh reader of the second library failed: {ex}"))
        else:
            for k in sorted(set(got2) - set(exp2)):
                out.append(("foreign-record[second-library]", f"the second library holds {k!r}, which was never stored in it"))
            for k, v in exp2.items():
                if k not in got2:
                    out.append(("completed-record-lost[second-library]", f"record {k!r} stored in the second library in a completed session is missing"))
                elif got2[k] != v:
                    out.append(("completed-record-altered[second-library]", f"record {k!r} of the second library reads back differently"))
    if recreators:
        _, hdr, _ = parse_ukv(bench.lib.read_bytes())
        if hdr[1] != new_comment:
            out.append(("file-header-wrong", f"the library's comment is {hdr[1]!r}; the last creation gave {new_comment!r}"))
    for k, v in must.items():
        if k not in final:
            out.append(("completed-record-lost", f"record {k!r} written in a completed session is missing"))
        elif final[k] != v:
            out.append(("completed-record-altered", f"record {k!r} written in a completed session reads back differently"))
    for k, vs in dupvals.items():
        if len(vs) > 1:
            out.append(("duplicate-put-accepted-twice", f"key {k!r} was accepted from {len(vs)} writers"))
        if k not in final:
            out.append(("completed-record-lost", f"record {k!r} (accepted duplicate-candidate) is missing"))
        elif final[k] not in vs:
            out.append(("completed-record-altered", f"record {k!r} holds a value no accepted put wrote"))
    for k, v in final.items():
        if k in must or k in dupvals:
            continue
        if k in may:
            if v != may[k]:
                out.append(("failed-session-record-torn", f"record {k!r} of a failed session is present but not exact"))
        else:
            out.append(("foreign-record", f"record {k!r} was never put"))
    # (c) readers: complete records only, everything committed before they began
    visible = set()
    # a handle constructed under the scheduler takes (and releases) the write lock once before its sessions
    sidx = {w: (-1 if spec[w].get("sched_ctor") and not spec[w].get("unpickle") else 0) for w in range(bench.n)}
    snap = {}
    for pos, (ev, wid, mode) in enumerate(x_events(x)):
        if ev == "acq":
            if pos == reset_pos:
                visible.clear()
            snap[(wid, smap(wid, sidx[wid]))] = set(visible)
        else:
            si = smap(wid, sidx[wid])
            if 0 <= si < len(logs[wid]):
                e = logs[wid][si]
                # only a session that completed commits its records for later readers; what a
                # failed session leaves behind is complete-or-absent and may surface later
                if e["exc"] is None and not e.get("lib2"):
                    for k in e["puts_ok"]:
                        if k in final:
                            visible.add(k)
            sidx[wid] += 1
    for wid, log in enumerate(logs):
        for si, e in enumerate(log):
            if e["kind"] not in ("R", "M") or e["listed"] is None:
                continue
            for k in e["listed"]:
                if k not in e["reads"]:
                    continue
                r = e["reads"].get(k)
                if isinstance(r, (tuple, list)):
                    out.append(("reader-listed-key-unreadable", f"reader {wid}.{si}: listed key {k!r} raised {r[1]}"))
                elif (wid, si) in dead:
                    # it read the library as it was before the re-creation
                    if r not in dead_puts.get(k, ()):
                        out.append(("reader-saw-incomplete-record", f"reader {wid}.{si} (before the library was re-created) read {k!r} with a value nobody stored"))
                elif k not in final:
                    out.append(("reader-saw-uncommitted-key", f"reader {wid}.{si} listed {k!r} which is not in the final library"))
                elif r != final[k]:
                    out.append(("reader-saw-incomplete-record", f"reader {wid}.{si} read {k!r} with a value different from the committed one"))
            need = snap.get((wid, si))
            if (wid, si) in dead:
                need = None  # what was committed before it began is judged against the final library only for live sessions
            if need is not None and e["exc"] is None:
                miss = sorted(need - set(e["listed"]))
                if miss:
                    out.append(("reader-missed-committed-record", f"reader {wid}.{si} did not list {miss[:3]} committed before it began"))
    return out


def x_events(x):
    return getattr(x, "_events", [])


class CountingMonitor(Monitor):
    pass


_MODEL_BEH = {}  # nworkers -> {lock-level programs: set of behaviours as ((wid, act), ...)}; filled in run(), inherited by fork


def lock_level(spec):
    return tuple(tuple("R" if s["kind"] == "R" else "W" for s in w["sessions"]) for w in spec)


def run_spec(ctx, bench: Bench, spec, bound, stats, max_viol=6):
    progs = bench.programs(spec)
    fctx = fault_context(spec)
    allowed = None
    if fctx == "nofault":
        allowed = _MODEL_BEH.get(bench.n, {}).get(lock_level(spec))
    seen_sigs = set()
    nviol = [0]

    def mon_factory():
        m = Monitor(bench.lockpath, bench.lock2path())
        bench._mon = m
        return m

    bench.ctl.monitor_factory = mon_factory

    def all_verdicts(x, count=True):
        x._events = list(bench._mon.events)
        verdicts = list(x.verdicts)
        if not verdicts and len(x.logs) == bench.n:
            verdicts = judge(bench, spec, x)
            if allowed is not None:
                # conformance in the other direction: what the implementation did at lock level
                # must be a behaviour of the TLA+ session model (explored exhaustively by TLC)
                got = tuple((w, "acq" if e == "acq" else "rel") for e, w, _ in x._events)
                if count:
                    ctx.add_note("executions_checked_against_model", 1)
                if got not in allowed:
                    verdicts.append(("lock-level-behaviour-outside-the-RW-model", f"events {got} are not a behaviour of models/Sessions.tla for programs {lock_level(spec)}"))
        return verdicts

    def on_exec(x, prefix):
        verdicts = all_verdicts(x)
        npre = schedx.preemptions_before(x, len(x.points))
        ctx.count(evaluations=1, traces=1, transitions=len(x.choices))
        order = tuple((w, l) for (w, l, i) in x.trace if l in ("lock?", "unlock"))
        dig = hashlib.sha1(repr((order, sorted((k, repr(v)) for k, v in x.logs.items()))).encode()).hexdigest()
        ctx.outcome(dig)
        ctx.state_keys.add(hashlib.blake2b(repr((spec_key(spec), tuple(x.choices))).encode(), digest_size=10).digest())
        if npre > 0 or fctx != "nofault":
            ctx.nontrivial(dig)
        stats["by_preemptions"][npre] = stats["by_preemptions"].get(npre, 0) + 1
        stats["max_points"] = max(stats["max_points"], len(x.choices))
        fired = any(e.get("fault_fired") for log in x.logs.values() for e in log)
        stats["fault_fired"] = stats.get("fault_fired", False) or fired
        if stats["executions"] in (0, 7, 77) and len(ctx.samples) < 8:
            ctx.sample({"spec": spec, "choices": list(x.choices), "trace": [f"{w}:{l}" + (f"({i})" if i is not None else "") for (w, l, i) in x.trace][:80]})
        stats["executions"] += 1
        for sym, detail in verdicts:
            if sym == "hang" and "replay divergence" in detail:
                raise HarnessError(detail)
            sig = f"{sym}:{fctx}"
            if sig not in seen_sigs:
                seen_sigs.add(sig)
                # (e) the same schedule must give the same verdict before anything is reported
                x2 = bench.ctl.run(progs, list(x.choices), bench.reset_env)
                v2 = all_verdicts(x2, count=False)
                if sorted(s for s, _ in v2) != sorted(s for s, _ in verdicts):
                    raise HarnessError(f"schedule replay gave different verdicts: {verdicts} vs {v2}")
                ctx.violation(sig, detail, {"nworkers": bench.n, "spec": spec, "choices": list(x.choices)})
        if verdicts:
            nviol[0] += 1
            if nviol[0] >= max_viol:
                return True  # enough counterexamples for this program
        return False

    n, complete = schedx.explore(bench.ctl, progs, bench.reset_env, bound, on_exec)
    return n


def spec_key(spec):
    return repr(spec)


# =================================================================================================
# program families
# =================================================================================================
def worker_menu(max_sessions):
    kinds = ["W", "R", "D"]
    out = []
    for L in range(1, max_sessions + 1):
        out += list(itertools.product(kinds, repeat=L))
    return out


def plain_specs(ctx, nworkers, total_sessions, spellings, bufs):
    menu = worker_menu(2)
    specs = []
    for combo in itertools.product(menu, repeat=nworkers):
        if sum(len(c) for c in combo) > total_sessions:
            continue
        if not any("W" in c or "D" in c for c in combo):
            continue  # readers only: nothing to exclude or to lose
        spec = []
        for wid, kinds in enumerate(combo):
            spec.append({"spelling": spellings[wid % len(spellings)], "buf": bufs[wid % len(bufs)], "ro": wid > 0 and all(k == "R" for k in kinds), "sessions": mk_sessions(wid, kinds, ctx.seed)})
        specs.append(spec)
    return specs


FAULT_KINDS = ["body", "encoder", "write", "close", "open", "flush", "poison", "body-kbi", "body-genexit", "body-sysexit"]


def fault_specs(ctx, bufs_for_faulty):
    """worker 0 runs a faulted session (then possibly another one), worker 1 a writer or a reader."""
    specs = []
    for buf in bufs_for_faulty:
        for faulty_kind in ("W", "R"):
            for after in ((), ("W",), ("R",)):
                for other in (("W",), ("R",), ("W", "R")):
                    for fk in FAULT_KINDS:
                        if faulty_kind == "R" and fk in ("encoder", "write", "flush", "poison"):
                            continue
                        if fk.startswith("body-") and not ctx.thorough and (fk == "body-sysexit" or other == ("R",) or buf != ("dflt", "large")[len(after) % 2]):
                            continue  # quick: a subset for the exceptions that are not `Exception`s
                        specs.append((buf, faulty_kind, after, other, fk))
    return specs


def build_fault_spec(ctx, fs, n):
    buf, faulty_kind, after, other, fk = fs
    s0 = mk_sessions(0, (faulty_kind,) + after, ctx.seed)
    s0[0]["fault"] = (fk, n)
    if fk in ("write", "flush", "close") and "puts" in s0[0]:
        # what a failed write leaves behind must not read as records: zero bytes are empty blocks with
        # empty keys, and they are longer than anything a later session of this program writes
        s0[0]["puts"] = [(k, bytes(400)) for k, _ in s0[0]["puts"]]
    return [
        {"spelling": "rel", "buf": buf, "ro": False, "sessions": s0},
        {"spelling": "sym", "buf": "dflt", "ro": all(k == "R" for k in other), "sessions": mk_sessions(1, other, ctx.seed)},
    ]


def ctor_specs(ctx, nworkers, spellings):
    """every worker constructs its (read/write) handle under the scheduler, then runs sessions"""
    specs = []
    menu = [("W",), ("W", "R"), ("R", "W"), ("D",)]
    for combo in itertools.product(menu, repeat=nworkers):
        spec = []
        for wid, kinds in enumerate(combo):
            spec.append({"spelling": spellings[wid % len(spellings)], "buf": ["dflt", "large"][wid % 2], "ro": False, "sched_ctor": True, "sessions": mk_sessions(wid, kinds, ctx.seed)})
        specs.append(spec)
    return specs


def cfg_route_specs(ctx, spellings):
    """the two processes learn the shared directory (where the lock files live) by different routes:
    environment variable at import time vs. configure() at run time - same directory"""
    specs = []
    for routes in (("env", "configure"), ("configure", "env"), ("configure", "configure")):
        for k0, k1 in ((("W",), ("W",)), (("W", "R"), ("W",)), (("R",), ("W",)), (("D",), ("D",))):
            specs.append([
                {"spelling": spellings[w % len(spellings)], "buf": ["dflt", "large"][w], "ro": False, "cfg_route": routes[w], "sessions": mk_sessions(w, ks, ctx.seed)}
                for w, ks in enumerate((k0, k1))
            ])
    return specs


def twolib_specs(ctx):
    """ONE process works on two libraries in strictly sequential sessions; a session on the first one may fail
    in its exit flush (an item that can never be written, n-th write fails) and leave something queued"""
    specs = []
    for buf in ("large", "dflt"):
        for fk in (None, "poison", "write", "flush"):
            for order in ((1, 2, 1, 1), (2, 1, 2, 1), (1, 2, 2, 1)):
                ss = []
                for si, which in enumerate(order):
                    if which == 1:
                        d = mk_sessions(0, ("W",) * (si + 1), ctx.seed)[si] if si < 3 else {"kind": "R"}
                    else:
                        d = {"kind": "W", "lib2": True, "puts": [(f"o{si}a", _val(9, si, 0, ctx.seed)), (f"o{si}b", _val(9, si, 1, ctx.seed))]}
                    ss.append(d)
                if fk:
                    first1 = next(i for i, w in enumerate(order) if w == 1)
                    ss[first1]["fault"] = (fk, 1 if fk in ("poison", "write") else 0)
                    if fk in ("write", "flush"):
                        ss[first1]["puts"] = [(k, bytes(400)) for k, _ in ss[first1]["puts"]]
                specs.append([{"spelling": "abs", "buf": buf, "ro": False, "sessions": ss}])
    return specs


def nested_specs(ctx, spellings):
    """worker 0 nests a complete session on ANOTHER library (same name in another case: a different file, a
    different lock) inside a session on the library and goes on afterwards; worker 1 wants the library meanwhile"""
    specs = []
    for outer in ("W", "R"):
        for ik in ("R", "W"):
            for at in ((0, 1, 2) if outer == "W" else (0,)):
                for k1 in (("W",), ("R",), ("D",)):
                    for tail in ((), ("R",)):
                        ss = mk_sessions(0, (outer,) + tail, ctx.seed)
                        ss[0]["inner"] = {"kind": ik, "at": at, "puts": [(f"i{at}a", _val(8, at, 0, ctx.seed)), (f"i{at}b", _val(8, at, 1, ctx.seed))] if ik == "W" else []}
                        specs.append([
                            {"spelling": spellings[0], "buf": "dflt" if at % 2 else "large", "ro": False, "lib2name": "LIB.mlib", "sessions": ss},
                            {"spelling": spellings[1 % len(spellings)], "buf": "dflt", "ro": False, "sessions": mk_sessions(1, k1, ctx.seed)},
                        ])
    return specs


def dropped_specs(ctx, spellings):
    """worker 1 tries a session with a timeout (it gives up when worker 0 is in a session), later goes on with a NEW
    handle, and the handle of the failed attempt loses its last reference in the middle of the new handle's
    session (a cache eviction, the cyclic garbage collector); handles constructed or received by pickle"""
    specs = []
    for unp in (False, True):
        for k0 in (("W",), ("W", "W"), ("R", "W")):
            for first in ("W", "R"):
                for second, at in (("W", 0), ("W", 1), ("W", 2), ("R", 0)):
                    ss = mk_sessions(1, (first, second), ctx.seed)
                    ss[0]["timeout"] = True
                    ss[1]["fresh_handle"] = True
                    ss[1]["drop_old_at"] = at
                    w0 = {"spelling": spellings[0], "buf": "dflt", "ro": False, "sessions": mk_sessions(0, k0, ctx.seed)}
                    w1 = {"spelling": "abs" if unp else spellings[1 % len(spellings)], "buf": "large", "ro": False, "sessions": ss}
                    if unp:
                        w1.update(sched_ctor=True, unpickle=True)
                    specs.append([w0, w1])
    return specs


def unpickle_specs(ctx, nworkers):
    """every worker receives its handle pickled by the parent (which created the library with overwrite=True)
    and unpickles it under the scheduler - at any moment relative to the other workers' sessions"""
    specs = []
    menu = [("W",), ("W", "R"), ("R", "W"), ("W", "W")]
    for combo in itertools.product(menu, repeat=nworkers):
        specs.append([{"spelling": "abs", "buf": "dflt", "ro": False, "sched_ctor": True, "unpickle": True, "sessions": mk_sessions(w, ks, ctx.seed)} for w, ks in enumerate(combo)])
    return specs


def mixed_specs(ctx, spellings):
    """writing sessions that read an earlier record before they store new ones"""
    specs = []
    for k0 in (("W", "M"), ("W", "M", "R")):
        for k1 in (("W",), ("R",), ("M",), ("W", "M")):
            for buf0 in ("dflt", "large"):
                specs.append([
                    {"spelling": spellings[0], "buf": buf0, "ro": False, "sessions": mk_sessions(0, k0, ctx.seed)},
                    {"spelling": spellings[1 % len(spellings)], "buf": "dflt", "ro": False, "sessions": mk_sessions(1, k1, ctx.seed)},
                ])
    return specs


def recreate_specs(ctx, spellings):
    """worker 0 keeps a long-lived handle (constructed before anything starts) and runs sessions; worker 1
    re-creates the library (overwrite=True, comment of another length) at a moment the scheduler chooses -
    before, between or after worker 0's sessions - and then runs its own"""
    specs = []
    for k0 in (("W", "R"), ("W", "W"), ("R", "W"), ("R", "R"), ("W", "R", "W")):
        for k1 in ((), ("W",), ("R",)):
            for buf0 in ("dflt", "large"):
                for comment in ("a longer comment than before", "c"):
                    specs.append([
                        {"spelling": spellings[0], "buf": buf0, "ro": False, "sessions": mk_sessions(0, k0, ctx.seed)},
                        {"spelling": spellings[1 % len(spellings)], "buf": "dflt", "ro": False, "sched_ctor": True, "recreate": comment, "sessions": mk_sessions(1, k1, ctx.seed)},
                    ])
    return specs


def lifecycle_specs(ctx, spellings):
    """sessions with a timeout (they give up instead of waiting) and processes that terminate
    normally (the library's atexit hooks run) while others keep working"""
    specs = []

    def w(wid, kinds, touts, exits):
        ss = mk_sessions(wid, kinds, ctx.seed)
        for s, t in zip(ss, touts):
            if t:
                s["timeout"] = True
        return {"spelling": spellings[wid % len(spellings)], "buf": ["dflt", "large"][wid % 2], "ro": False, "exits": exits, "sessions": ss}

    for k0 in (("W",), ("R",)):
        for k1, t1 in ((("W", "W"), (True, False)), (("R", "W"), (True, False)), (("W",), (True,))):
            # two processes
            specs.append([w(0, k0, (False,) * len(k0), True), w(1, k1, t1, False)])
            # and a third one that arrives later
            for k2 in (("W",), ("R",)):
                specs.append([w(0, k0, (False,) * len(k0), True), w(1, k1, t1, False), w(2, k2, (False,), True)])
    return specs


def part_plain(sc, part):
    nworkers, bound, specs = part
    bench = Bench(sc, nworkers, "p")
    stats = {"by_preemptions": {}, "max_points": 0, "executions": 0}
    try:
        for spec in specs:
            run_spec(sc, bench, spec, bound, stats)
            sc.add_note("programs", 1)
    finally:
        bench.close()
    for k, v in stats["by_preemptions"].items():
        sc.add_note(f"executions_with_{k}_preemptions", v)
    sc.add_note("executions", stats["executions"])


def part_fault(sc, part):
    bound, fss = part
    bench = Bench(sc, 2, "f")
    stats = {"by_preemptions": {}, "max_points": 0, "executions": 0}
    try:
        for fs in fss:
            n = 0
            while True:
                stats["fault_fired"] = False
                spec = build_fault_spec(sc, fs, n)
                run_spec(sc, bench, spec, bound, stats)
                if not stats["fault_fired"]:
                    break  # n is beyond the last fault point of that kind in the session
                sc.add_note("fault_programs", 1)
                sc.add_note(f"fault_points[{fs[4]}]", 1)
                n += 1
                if n > 40:
                    raise HarnessError("fault point enumeration does not terminate")
    finally:
        bench.close()
    sc.add_note("executions", stats["executions"])
    for k, v in stats["by_preemptions"].items():
        sc.add_note(f"executions_with_{k}_preemptions", v)


class TraceFollower:
    """drives the scheduler along one behaviour of models/Sessions.tla: the i-th lock-level event
    (acquire/release) on the implementation must be the i-th step of the model behaviour"""

    def __init__(self, trace):
        self.trace = trace

    def __call__(self, order, pending, mon):
        i = len(mon.events)
        if i >= len(self.trace):
            return 0  # the behaviour is complete: drain what is left (closes, final messages)
        w = self.trace[i][0]
        if w in order:
            return order.index(w)
        return None


def part_model(sc, part):
    """replays behaviours of the TLA+ session model against the implementation"""
    nworkers, items = part
    bench = Bench(sc, nworkers, "m")
    sp_all = ["abs", "rel", "sym"]
    try:
        for progs_lock, trace in items:
            spec = []
            for wid, kinds in enumerate(progs_lock):
                spec.append({"spelling": sp_all[(wid + sc.seed) % 3], "buf": ["dflt", "large"][wid % 2], "ro": False, "sessions": mk_sessions(wid, kinds, sc.seed)})
            progs = bench.programs(spec)
            bench.ctl.monitor_factory = lambda: setattr(bench, "_mon", Monitor(bench.lockpath, bench.lock2path())) or bench._mon
            x = bench.ctl.run(progs, [], bench.reset_env, chooser=TraceFollower(trace))
            x._events = list(bench._mon.events)
            sc.count(evaluations=1, traces=1, transitions=len(x.choices))
            sc.add_note("model_behaviours_replayed", 1)
            got = [(w, "acq" if e == "acq" else "rel") for e, w, _ in x._events]
            want = [(w, a) for w, a, _ in trace]
            verdicts = list(x.verdicts)
            if not verdicts and len(x.logs) == bench.n:
                if got != want:
                    verdicts.append(("implementation-left-the-model-behaviour", f"lock-level events {got} != model behaviour {want}"))
                verdicts += judge(bench, spec, x)
            dig = hashlib.sha1(repr((progs_lock, trace)).encode()).hexdigest()
            sc.state_keys.add(hashlib.blake2b(("model" + dig).encode(), digest_size=10).digest())
            sc.outcome(hashlib.sha1(repr((got, sorted((k, repr(v)) for k, v in x.logs.items()))).encode()).hexdigest())
            sc.nontrivial(dig)
            for sym, detail in verdicts:
                if sym == "model-behaviour-refused":
                    # the property does not promise that readers overlap: a stronger lock is not a
                    # violation; recorded (non-deciding) so that a model/implementation drift is visible
                    sc.add_note("model_behaviours_refused", 1)
                    continue
                sc.violation(f"{sym}:model-replay", detail, {"nworkers": bench.n, "spec": spec, "model_trace": [list(t) for t in trace]})
    finally:
        bench.close()


def model_behaviours(ctx, nworkers, menu):
    from mc import tlcx

    try:
        stats, beh = tlcx.behaviours(Path(ctx.scratch) / f"tlc{nworkers}", nworkers, menu)
    except tlcx.TLCUnavailable as e:
        ctx.note(f"tlc_{nworkers}proc", f"skipped: {str(e)[:200]}")
        return None
    ctx.note(f"tlc_{nworkers}proc", stats)
    _MODEL_BEH[nworkers] = {k: {tuple((w, a) for w, a, _ in tr) for tr in v} for k, v in beh.items()}
    return beh


def model_family(ctx, nworkers, beh, nproc):
    if beh is None:
        return
    items = []
    for progs_lock in sorted(beh):
        if not any("W" in p for p in progs_lock):
            continue
        for tr in beh[progs_lock]:
            items.append((progs_lock, tr))
    ctx.pmap(part_model, [(nworkers, c) for c in chunks(items, nproc * 2)], nproc=nproc)


def chunks(lst, n):
    k = max(1, (len(lst) + n - 1) // n)
    return [lst[i : i + k] for i in range(0, len(lst), k)]


def run(ctx):
    ctx.rule = (
        "every schedule (choice of which process performs its next lock/file action) with <= bound preemptions of every program tuple "
        "(2..3 processes x 1..2 sessions from {writer of 2 records, writer of a shared duplicate key, reader}, long-lived handles, one "
        "path spelling and buffer size per process) is executed on real processes with the real fcntl lock; plus, for the fault family, "
        "one injected exception at every fault point (body, encoder, n-th file write, close, open, final flush that loses the buffered "
        "bytes, an item that can never be written) of a session, the faulted writes carrying zero-filled values; writing sessions that "
        "read an earlier record before they store new ones; handles that arrive pickled from a parent that created the library with "
        "overwrite=True and are unpickled under the scheduler; one process working on two libraries in sequential sessions, one of which fails in its exit flush; a session on another library (same name, other case) nested inside a session; a process that gives up on a session (timeout), goes on with a new handle and loses the last reference to the old one in the middle of the new session; sessions ended by KeyboardInterrupt / GeneratorExit / SystemExit; before every action of a worker that holds the lock the controller probes the lock file with a conflicting non-blocking lock (must be refused); a construction family in which the handles are created under the scheduler; a lifecycle family with "
        "sessions that give up after a timeout and processes that exit normally (captured atexit hooks run under the scheduler) while "
        "others continue; a re-creation family in which another process creates the library anew (overwrite=True, header of another "
        "length) before, between or after the sessions of a long-lived handle; a configuration family in which the processes learn "
        "the shared (lock file) directory by different routes (environment at import time / configure() at run time); and every behaviour of the TLA+ session model (TLC, models/Sessions.tla) replayed through the scheduler, "
        "with every lock-level event sequence of every explored execution checked for membership in the model. states = distinct "
        "(program, schedule) executions, transitions = scheduling steps. non-trivial = executions with >= 1 preemption or a fired fault, "
        "distinct by (lock order, per-session logs)"
    )
    ctx.assumptions += [
        "scheduling points are Python-level lock and file calls (open/write/truncate/close); preemption inside one such call and true multi-core simultaneity are not explored; the OS lock itself is trusted",
        "sessions of one process do not overlap (the lock is per process) - as the property states",
        "a failing file close is modelled as: descriptor closed, OSError raised (what a failing flush-on-close does)",
    ]
    seed = ctx.seed
    sp_all = ["abs", "rel", "sym"]
    r = seed % 3
    sp2 = (sp_all[r:] + sp_all[:r])
    nproc = 16 if ctx.thorough else 8
    menu2 = [s for L in (1, 2) for s in itertools.product("RW", repeat=L)]
    beh2 = model_behaviours(ctx, 2, menu2)
    if not ctx.thorough:
        bound = 2
        # one of the two spellings always goes through the symlinked directory
        sp_q = [("abs", "sym"), ("rel", "sym"), ("sym", "abs")][seed % 3]
        specs2 = plain_specs(ctx, 2, 4, list(sp_q), ["dflt", "large"])
        parts = [(2, bound, c) for c in chunks(specs2, nproc)]
        ctx.pmap(part_plain, parts, nproc=nproc)
        fss = fault_specs(ctx, ["dflt", "large"])
        ctx.pmap(part_fault, [(1, c) for c in chunks(fss, nproc)], nproc=nproc)
        specsc = ctor_specs(ctx, 2, list(sp_q))
        ctx.pmap(part_plain, [(2, 2, c) for c in chunks(specsc, nproc)], nproc=nproc)
        lsp = lifecycle_specs(ctx, sp2)
        ctx.pmap(part_plain, [(len(s), 2, [s]) for s in lsp], nproc=nproc)
        ctx.pmap(part_plain, [(2, 1, c) for c in chunks(recreate_specs(ctx, list(sp_q)), nproc)], nproc=nproc)
        ctx.pmap(part_plain, [(2, 2, c) for c in chunks(cfg_route_specs(ctx, list(sp_q)), 4)], nproc=nproc)
        ctx.pmap(part_plain, [(2, 1, c) for c in chunks(mixed_specs(ctx, list(sp_q)), nproc)], nproc=nproc)
        ctx.pmap(part_plain, [(2, 2, c) for c in chunks(unpickle_specs(ctx, 2), nproc)], nproc=nproc)
        ctx.pmap(part_plain, [(1, 0, c) for c in chunks(twolib_specs(ctx), nproc)], nproc=nproc)
        ctx.pmap(part_plain, [(2, 1, c) for c in chunks(nested_specs(ctx, list(sp_q)), nproc)], nproc=nproc)
        ctx.pmap(part_plain, [(2, 1, c) for c in chunks(dropped_specs(ctx, list(sp_q)), nproc)], nproc=nproc)
        model_family(ctx, 2, beh2, nproc)
        ctx.bound = {"processes": 2, "sessions_total": 4, "preemptions": bound, "fault_family_preemptions": 1, "faults_per_execution": 1, "path_spellings": list(sp_q) + ["rel+sym in the fault family"]}
    else:
        specs2 = plain_specs(ctx, 2, 4, sp2[:2], ["dflt", "large"])
        ctx.pmap(part_plain, [(2, 3, c) for c in chunks(specs2, nproc)], nproc=nproc)
        beh3 = model_behaviours(ctx, 3, menu2)
        specs3 = plain_specs(ctx, 3, 4, sp2, ["dflt", "large", "dflt"])
        ctx.pmap(part_plain, [(3, 2, c) for c in chunks(specs3, nproc * 4)], nproc=nproc)
        fss = fault_specs(ctx, ["dflt", "large"])
        ctx.pmap(part_fault, [(2, c) for c in chunks(fss, nproc * 2)], nproc=nproc)
        ctx.pmap(part_plain, [(2, 3, c) for c in chunks(ctor_specs(ctx, 2, sp2[:2]), nproc)], nproc=nproc)
        ctx.pmap(part_plain, [(3, 2, c) for c in chunks(ctor_specs(ctx, 3, sp2), nproc * 2)], nproc=nproc)
        ctx.pmap(part_plain, [(len(s), 3, [s]) for s in lifecycle_specs(ctx, sp2)], nproc=nproc)
        ctx.pmap(part_plain, [(2, 2, c) for c in chunks(recreate_specs(ctx, sp2[:2]), nproc)], nproc=nproc)
        ctx.pmap(part_plain, [(2, 3, c) for c in chunks(cfg_route_specs(ctx, sp2[:2]), 6)], nproc=nproc)
        ctx.pmap(part_plain, [(2, 2, c) for c in chunks(mixed_specs(ctx, sp2[:2]), nproc)], nproc=nproc)
        ctx.pmap(part_plain, [(2, 3, c) for c in chunks(unpickle_specs(ctx, 2), nproc)], nproc=nproc)
        ctx.pmap(part_plain, [(3, 2, c) for c in chunks(unpickle_specs(ctx, 3)[::3], nproc)], nproc=nproc)
        ctx.pmap(part_plain, [(1, 0, c) for c in chunks(twolib_specs(ctx), nproc)], nproc=nproc)
        ctx.pmap(part_plain, [(2, 2, c) for c in chunks(nested_specs(ctx, sp2[:2]), nproc)], nproc=nproc)
        ctx.pmap(part_plain, [(2, 3, c) for c in chunks(dropped_specs(ctx, sp2[:2]), nproc)], nproc=nproc)
        model_family(ctx, 2, beh2, nproc)
        model_family(ctx, 3, beh3, nproc)
        ctx.bound = {"processes": "2 (bound 3) and 3 (bound 2)", "sessions_total": "4 / 4", "fault_family_preemptions": 2, "faults_per_execution": 1, "path_spellings": sp2}


def replay(ctx, case):
    bench = Bench(ctx, case["nworkers"], "r")
    try:
        spec = case["spec"]
        for w in spec:
            for s in w["sessions"]:
                if "puts" in s:
                    s["puts"] = [(k, _unjson(v)) for k, v in s["puts"]]
        progs = bench.programs(spec)
        bench.ctl.monitor_factory = lambda: setattr(bench, "_mon", Monitor(bench.lockpath, bench.lock2path())) or bench._mon
        x = bench.ctl.run(progs, list(case["choices"]), bench.reset_env)
        x._events = list(bench._mon.events)
        verdicts = list(x.verdicts) or (judge(bench, spec, x) if len(x.logs) == bench.n else [])
        fctx = fault_context(spec)
        for sym, detail in verdicts:
            ctx.violation(f"{sym}:{fctx}", detail, case)
    finally:
        bench.close()


def _unjson(v):
    if isinstance(v, dict) and "bytes_hex" in v:
        return bytes.fromhex(v["bytes_hex"])
    return v
