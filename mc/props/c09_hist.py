"""
C09 helper: HISTORY cells.  The matrix of c09.py executes every cell once on a fresh path; an entry
point that keeps state between calls (a cache keyed by the path, a result object handed out twice, a
remembered working directory, ...) is invisible to it.  Here every entry point is called TWICE and
the second call is compared with the class-level codec applied at that moment:

  readers  {load, load_all} x {xyz, mol2, cdxml} x {path str, Path} and {loads, loads_all} x {xyz, mol2}
     rewrite        call; overwrite the SAME path with other content (other molecule count / names); call
     rewrite-key    (cdxml, load) the same with key= : first key of the old document, then of the new one
     twin-paths     call on one path, edit the returned object(s), call on another path with the same content
     mutate         call, edit the returned object(s) in place, call again on the same path
     str-then-Path  call with str(path), overwrite, call with Path(path)   (and Path-then-str)
     chdir          the same RELATIVE path in two working directories holding different content
  writers  dump x {xyz, mol2} x {path str, Path, StringIO}
     twice          two dumps of two different objects into the same target, every combination of modes
     str-then-Path  first dump through str(path), second through Path(path)
     chdir          the same relative target in two working directories
  dumps              two different objects one after the other

Nothing more is demanded than in the matrix: the second call equals the class method (same exception
type, or the same structural snapshot / the same text).
"""
from __future__ import annotations

import io
import os
import shutil
from pathlib import Path

import molli as ml

from mc.props import c09 as M

READ_FMTS = ("xyz", "mol2", "cdxml")
HIST_OTYPES = ("molecule", "Structure", "ensemble")
NEW_NAME = "edited_by_the_caller"


def history_cells(order):
    def rot(t):
        r = order % len(t)
        return t[r:] + t[:r]

    for func in rot(M.READERS):
        pathy = func in ("load", "load_all")
        for fmt in rot(READ_FMTS):
            if not pathy and fmt == "cdxml":
                continue  # cdxml cannot be read from a string (documented)
            for otype in rot(HIST_OTYPES):
                if otype == "ensemble" and func in ("load_all", "loads_all"):
                    continue  # documented as unsupported
                if pathy:
                    for kind in ("pathstr", "Path"):
                        for h in ("rewrite", "twin-paths", "mutate", "chdir"):
                            yield {"op": "hist-read", "func": func, "fmt": fmt, "kind": kind, "otype": otype, "hist": h}
                    yield {"op": "hist-read", "func": func, "fmt": fmt, "kind": "pathstr", "otype": otype, "hist": "str-then-Path"}
                    yield {"op": "hist-read", "func": func, "fmt": fmt, "kind": "Path", "otype": otype, "hist": "Path-then-str"}
                    if fmt == "cdxml" and func == "load":
                        for kind in ("pathstr", "Path"):
                            yield {"op": "hist-read", "func": func, "fmt": fmt, "kind": kind, "otype": otype, "hist": "rewrite-key"}
                else:
                    for h in ("rewrite", "mutate"):
                        yield {"op": "hist-read", "func": func, "fmt": fmt, "kind": "str", "otype": otype, "hist": h}
    for fmt in rot(("xyz", "mol2")):
        for obj in rot(("Molecule", "ConformerEnsemble")):
            yield {"op": "hist-write", "func": "dumps", "fmt": fmt, "kind": "str", "otype": obj, "hist": "twice"}
            for kind in ("pathstr", "Path", "stringio"):
                for fmtmode in ("explicit", "suffix"):
                    if kind == "stringio" and fmtmode == "suffix":
                        continue
                    for m1 in M.MODES:
                        for m2 in M.MODES:
                            yield {"op": "hist-write", "func": "dump", "fmt": fmt, "fmtmode": fmtmode, "kind": kind, "otype": obj, "hist": "twice", "modes": m1 + m2}
            for fmtmode in ("explicit", "suffix"):
                yield {"op": "hist-write", "func": "dump", "fmt": fmt, "fmtmode": fmtmode, "kind": "pathstr", "otype": obj, "hist": "str-then-Path", "modes": "aa"}
                yield {"op": "hist-write", "func": "dump", "fmt": fmt, "fmtmode": fmtmode, "kind": "pathstr", "otype": obj, "hist": "chdir", "modes": "aa"}


def sig(cell, symptom):
    return f"{cell['func']}|{M.fmtclass(cell['fmt'])}|{M.kindclass(cell['kind'])}|{M.oclass(cell['otype'])}|history={cell['hist']}:{symptom}"


def edit_in_place(v):
    """what a caller may do with a result it owns"""
    items = v if isinstance(v, list) else [v]
    for o in items:
        try:
            o.name = NEW_NAME
            c = getattr(o, "_coords", None)
            if c is not None:
                c += 1.0
        except Exception:
            pass
    if isinstance(v, list):
        v.reverse()
        del v[1:]


def _arg(kind, p):
    return str(p) if kind == "pathstr" else Path(p)


def _first_key(p):
    keys = list(ml.CDXMLFile(p).keys())
    return keys[0] if keys else "no-such-key"


def _call(func, fmt, otype, src, key=None):
    kw = {"otype": M.otype_arg(otype)}
    if key is not None:
        kw["key"] = key
    return M.outcome_of(lambda: getattr(ml, func)(src, fmt, **kw))


def _class(func, fmt, otype, src, key=None):
    cls = M.otype_cls(otype)
    if fmt == "cdxml":

        def thunk():
            cdxf = ml.CDXMLFile(src)
            if key is not None:
                return cls(cdxf[key])
            if func == "load":
                return cls(cdxf._parse_fragment(cdxf.xfrags[0], name=None))
            return [cls(cdxf._parse_fragment(fg, name=None)) for fg in cdxf.xfrags]

        return M.outcome_of(thunk)
    meth = getattr(cls, f"{func}_{fmt}", None)
    if meth is None:
        return None
    return M.outcome_of(lambda: meth(src))


def _compare(ctx, cell, which, got, exp, viol):
    """the second (or first) call against the class method; -> True when they agree"""
    if exp is None:
        return True
    if exp[0] == "exc":
        if got[0] == "ok":
            viol(f"{which}-returned-but-class-method-raised", f"{which}: {M.describe(got)}; the class method {M.describe(exp)}")
            return False
        if got[1] != exp[1]:
            viol(f"{which}-raised-{got[1]}", f"{which}: {M.describe(got)}; the class method {M.describe(exp)}")
            return False
        return True
    if got[0] == "exc":
        viol(f"{which}-raised-{got[1]}", f"{which}: {M.describe(got)}; the class method {M.describe(exp)}")
        return False
    if M.snap(got[1]) != M.snap(exp[1]):
        viol(f"{which}-result-differs-from-class-method", f"{which}: {M.describe(got)}; the class method, applied at that moment, {M.describe(exp)}")
        return False
    return True


def run_history_cell(ctx, fam, cell, given):
    if cell["op"] == "hist-write":
        return run_write_history(ctx, fam, cell, given)
    func, fmt, kind, otype, h = cell["func"], cell["fmt"], cell["kind"], cell["otype"], cell["hist"]
    case = {"family": list(fam.spec), "cell": cell, "given": given}
    key = (fam.name, tuple(sorted((k, str(v)) for k, v in cell.items())))

    def viol(symptom, what):
        ctx.violation(sig(cell, symptom), f"ml.{func}({kind}, {fmt!r}, otype={otype}), history {h}: {what}", case)

    A, B = fam.text[fmt], fam.alt[fmt]
    # every cell works on file names of its own: state kept by an entry point shows up inside the cell
    # that provokes it, not as noise in the first call of some later cell
    tag = M.digest(key)[:10]
    hd = fam.dir / "hist"
    if hd.exists():
        shutil.rmtree(hd)
    hd.mkdir()
    ctx.count(evaluations=1, traces=1)
    cwd = os.getcwd()
    try:
        if kind == "str":
            first_src, second_src = A, (B if h == "rewrite" else A)
            e1 = _class(func, fmt, otype, first_src)
            r1 = _call(func, fmt, otype, first_src)
            if h == "mutate" and r1[0] == "ok":
                edit_in_place(r1[1])
            e2 = _class(func, fmt, otype, second_src)
            r2 = _call(func, fmt, otype, second_src)
            k1 = k2 = None
        else:
            p = hd / f"history-{tag}.{fmt}"
            p.write_text(A)
            k1 = k2 = None
            if h == "chdir":
                d1, d2 = hd / "wd1", hd / "wd2"
                d1.mkdir()
                d2.mkdir()
                (d1 / f"rel-{tag}.{fmt}").write_text(A)
                (d2 / f"rel-{tag}.{fmt}").write_text(B)
                os.chdir(d1)
                src1 = src2 = _arg(kind, f"rel-{tag}.{fmt}")
            elif h == "twin-paths":
                p2 = hd / f"history-twin-{tag}.{fmt}"
                p2.write_text(A)
                src1, src2 = _arg(kind, p), _arg(kind, p2)
            elif h == "str-then-Path":
                src1, src2 = str(p), Path(p)
            elif h == "Path-then-str":
                src1, src2 = Path(p), str(p)
            else:
                src1 = src2 = _arg(kind, p)
            if h == "rewrite-key":
                k1 = _first_key(p)
            e1 = _class(func, fmt, otype, src1, k1)
            r1 = _call(func, fmt, otype, src1, k1)
            # ---- what happens between the two calls ----
            if h in ("rewrite", "rewrite-key", "str-then-Path", "Path-then-str"):
                p.write_text(B)
            elif h == "chdir":
                os.chdir(d2)
            elif h in ("twin-paths", "mutate"):
                if r1[0] == "ok":
                    edit_in_place(r1[1])
            if h == "rewrite-key":
                k2 = _first_key(p)
            e2 = _class(func, fmt, otype, src2, k2)
            r2 = _call(func, fmt, otype, src2, k2)
        ctx.count(transitions=4)
        ctx.outcome(("hist", h, r2[0], r2[1] if r2[0] == "exc" else M.digest(M.snap(r2[1]))))
        # e1 was computed BEFORE r1 could be edited; r1 is compared only when it has not been edited
        ok1 = True
        if h not in ("mutate", "twin-paths"):
            ok1 = _compare(ctx, cell, "first-call", r1, e1, viol)
        if ok1:
            _compare(ctx, cell, "second-call", r2, e2, viol)
        if r2[0] == "ok" and e2 is not None and e2[0] == "ok":
            ctx.nontrivial(key)
    finally:
        os.chdir(cwd)
        shutil.rmtree(hd, ignore_errors=True)


# ---- writers -------------------------------------------------------------------------------------------
def _objects(fam, objkind):
    cls = {"Molecule": ml.Molecule, "ConformerEnsemble": ml.ConformerEnsemble}[objkind]
    out = []
    for src in (fam.path["mol2"], M.FILES / fam.alt_spec[0]):
        try:
            out.append(cls.load_mol2(src))
        except Exception:
            out.append(None)
    return out


def run_write_history(ctx, fam, cell, given):
    func, fmt, kind, h = cell["func"], cell["fmt"], cell["kind"], cell["hist"]
    case = {"family": list(fam.spec), "cell": cell, "given": given}
    key = (fam.name, tuple(sorted((k, str(v)) for k, v in cell.items())))

    def viol(symptom, what):
        ctx.violation(sig(cell, symptom), f"ml.{func}({cell['otype']} -> {kind}, {fmt!r}/{cell.get('fmtmode')}), history {h}, modes {cell.get('modes')}: {what}", case)

    o1, o2 = _objects(fam, cell["otype"])
    if o1 is None or o2 is None:
        ctx.add_note("history_cells_skipped_object_not_loadable")
        return
    ctx.count(evaluations=1, traces=1)
    texts = []
    for o in (o1, o2):
        buf = io.StringIO()
        e = M.outcome_of(lambda: getattr(o, f"dump_{fmt}")(buf))
        if e[0] == "exc":
            ctx.add_note("history_cells_skipped_class_method_raises")
            return
        texts.append(buf.getvalue())
    t1, t2 = texts
    if func == "dumps":
        r1 = M.outcome_of(lambda: ml.dumps(o1, fmt))
        r2 = M.outcome_of(lambda: ml.dumps(o2, fmt))
        ctx.count(transitions=4)
        ctx.outcome(("hist-dumps", r2[0]))
        for which, r, o in (("first-call", r1, o1), ("second-call", r2, o2)):
            e = M.outcome_of(getattr(o, f"dumps_{fmt}"))
            if e[0] == "exc":
                if r[0] == "ok":
                    viol(f"{which}-returned-but-class-method-raised", f"{which} returned text, obj.dumps_{fmt}() {M.describe(e)}")
                continue
            if r[0] == "exc":
                viol(f"{which}-raised-{r[1]}", f"{which}: {M.describe(r)}")
            elif r[1] != e[1]:
                viol(f"{which}-text-differs-from-class-method", f"{which} returned {len(r[1])} characters, obj.dumps_{fmt}() {len(e[1])}")
            else:
                ctx.nontrivial(key)
        return

    tag = M.digest(key)[:10]
    hd = fam.dir / "hist"
    if hd.exists():
        shutil.rmtree(hd)
    hd.mkdir()
    m1, m2 = cell["modes"][0], cell["modes"][1]
    explicit = cell["fmtmode"] == "explicit"
    cwd = os.getcwd()

    def dump(o, target, mode):
        if explicit:
            return M.outcome_of(lambda: ml.dump(o, target, fmt, mode=mode))
        return M.outcome_of(lambda: ml.dump(o, target, mode=mode))

    try:
        if kind == "stringio":
            s = io.StringIO()
            s.write(M.PREFIX)
            r1 = dump(o1, s, m1)
            r2 = dump(o2, s, m2)
            content = {"target": s.getvalue() if not s.closed else "<closed>"}
            want = {"target": M.PREFIX + t1 + t2}
        elif h == "chdir":
            d1, d2 = hd / "wd1", hd / "wd2"
            d1.mkdir()
            d2.mkdir()
            rel = f"rel-{tag}.{fmt}"
            (d1 / rel).write_text(M.PREFIX)
            (d2 / rel).write_text(M.PREFIX)
            os.chdir(d1)
            r1 = dump(o1, rel, m1)
            os.chdir(d2)
            r2 = dump(o2, rel, m2)
            os.chdir(cwd)
            content = {"first directory": (d1 / rel).read_text(), "second directory": (d2 / rel).read_text()}
            want = {"first directory": M.PREFIX + t1, "second directory": M.PREFIX + t2}
        else:
            p = hd / f"history-{tag}.{fmt}"
            p.write_text(M.PREFIX)
            a1 = _arg(kind, p)
            a2 = Path(p) if h == "str-then-Path" else a1
            r1 = dump(o1, a1, m1)
            r2 = dump(o2, a2, m2)
            c1 = (M.PREFIX if m1 == "a" else "") + t1
            want = {"target": (c1 if m2 == "a" else "") + t2}
            content = {"target": p.read_text()}
        ctx.count(transitions=4)
        ctx.outcome(("hist-dump", r1[0], r2[0]))
        for which, r in (("first-call", r1), ("second-call", r2)):
            if r[0] == "exc":
                viol(f"{which}-raised-{r[1]}", f"{which}: {M.describe(r)}; obj.dump_{fmt}(stream) works")
                return
        ctx.nontrivial(key)
        for where in want:
            if content[where] != want[where]:
                viol("content-after-two-dumps-differs", f"{where} holds {len(content[where])} characters; expected {len(want[where])} (what the two obj.dump_{fmt} calls write, modes {m1},{m2})")
                return
    finally:
        os.chdir(cwd)
        shutil.rmtree(hd, ignore_errors=True)
