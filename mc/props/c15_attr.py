"""
C15, two further dimensions of substructure matching.

part A (attributes)  every node / edge attribute that Connectivity._node_match / _edge_match look at or could look
    at is varied on the target and on the pattern INDEPENDENTLY (one attribute at a time, on the first atom / bond
    and on all of them): element (incl. Unknown on either side), isotope, atom stereo, atom type (all members),
    label, geometry (all members), formal charge / spin; bond type (all members on the target x the pattern types
    that are implemented), bond stereo, bond label, f_order.
    Reference: brute-force induced embeddings with the documented compatibility rule.  Where the docstrings are silent
    the behaviour of the reviewed tree is the rule (recorded in ctx.assumptions by c15.run):
      node: pattern element Unknown matches any element, otherwise elements are equal (a target Unknown only matches
            a pattern Unknown); pattern isotope None matches any, otherwise equal; pattern stereo Unknown matches any,
            otherwise equal; atom type, label, geometry, formal charge, formal spin, attrib never matter;
      edge: pattern bond type Unknown matches any; Single/Double/Triple match a target bond whose type value is not
            smaller; Aromatic/Amide match only the same type; NotConnected matches nothing; pattern stereo Unknown /
            label None match any, otherwise equal; f_order never matters.
part V (views)  get_substr_indices must index the atom list OF THE QUERIED OBJECT: Substructure views (heavy, arbitrary
    unordered index lists), Conformer views, objects whose Atom objects were afterwards put into another container
    (which re-parents them), patterns built from the target's own atoms.
"""
from __future__ import annotations

import itertools

import numpy as np

from molli.chem import Atom, AtomGeom, AtomStereo, AtomType, Bond, BondStereo, BondType, Connectivity, Element
from molli.chem import ConformerEnsemble, Molecule

EL = {"C": Element.C, "N": Element.N, "O": Element.O, "H": Element.H, "X": Element.Unknown}
ATOM_DEFAULT = {"element": "C", "isotope": None, "label": None, "atype": "Regular", "stereo": "Unknown", "geom": "Unknown", "formal_charge": 0, "formal_spin": 0}
BOND_DEFAULT = {"btype": "Single", "stereo": "Unknown", "label": None, "f_order": 1.0}
PATTERN_BTYPES = ("Unknown", "Single", "Double", "Triple", "Aromatic", "Amide", "NotConnected")  # the others raise NotImplementedError by design
APIS = ("match", "get_substr_indices", "mol.get_substr_indices", "ens.get_substr_indices")
OPNAME = {"match": "match", "get_substr_indices": "get_substr_indices", "mol.get_substr_indices": "get_substr_indices", "ens.get_substr_indices": "ConformerEnsemble.get_substr_indices"}
API_CLS = {"match": "Connectivity", "get_substr_indices": "Connectivity", "mol.get_substr_indices": "Molecule", "ens.get_substr_indices": "ConformerEnsemble"}


# =================================================================================================
# descriptions -> molli objects
# =================================================================================================
def desc(elements, bonds):
    return {"atoms": [dict(ATOM_DEFAULT, element=e) for e in elements], "bonds": [[i, j, dict(BOND_DEFAULT)] for i, j in bonds]}


def mk_atom(d, i):
    return Atom(
        EL[d["element"]], isotope=d["isotope"], label=d["label"] if d["label"] is not None else None, atype=AtomType[d["atype"]], stereo=AtomStereo[d["stereo"]],
        geom=AtomGeom[d["geom"]], formal_charge=d["formal_charge"], formal_spin=d["formal_spin"],
    )  # fmt: skip


def build_obj(ds, cls_name):
    atoms = [mk_atom(d, i) for i, d in enumerate(ds["atoms"])]
    c = Connectivity()
    for a in atoms:
        c.append_atom(a)
    for i, j, bd in ds["bonds"]:
        c.append_bond(Bond(atoms[i], atoms[j], label=bd["label"], btype=BondType[bd["btype"]], stereo=BondStereo[bd["stereo"]], f_order=bd["f_order"]))
    if cls_name == "Connectivity":
        return c
    m = Molecule(c)
    if cls_name == "Molecule":
        return m
    return ConformerEnsemble(m, n_conformers=2)


def repro_desc(ds, var, cls_name):
    lines = [f"{var}_atoms = ["]
    for d in ds["atoms"]:
        el = "Element.Unknown" if d["element"] == "X" else f"Element.{d['element']}"
        lines.append(f"    Atom({el}, isotope={d['isotope']!r}, label={d['label']!r}, atype=AtomType.{d['atype']}, stereo=AtomStereo.{d['stereo']}, geom=AtomGeom.{d['geom']}, formal_charge={d['formal_charge']}, formal_spin={d['formal_spin']}),")
    lines += ["]", f"{var} = Connectivity()", f"for a in {var}_atoms: {var}.append_atom(a)"]
    for i, j, bd in ds["bonds"]:
        lines.append(f"{var}.append_bond(Bond({var}_atoms[{i}], {var}_atoms[{j}], label={bd['label']!r}, btype=BondType.{bd['btype']}, stereo=BondStereo.{bd['stereo']}, f_order={bd['f_order']}))")
    if cls_name == "Molecule":
        lines.append(f"{var} = Molecule({var})")
    elif cls_name == "ConformerEnsemble":
        lines.append(f"{var} = ConformerEnsemble(Molecule({var}), n_conformers=2)")
    return lines


REPRO_IMPORT = "from molli.chem import Atom, AtomGeom, AtomStereo, AtomType, Bond, BondStereo, BondType, Connectivity, Element, Molecule, ConformerEnsemble"


# =================================================================================================
# reference
# =================================================================================================
def node_ok(t, p):
    if p["element"] != "X" and t["element"] != p["element"]:
        return "element"
    if p["isotope"] is not None and t["isotope"] != p["isotope"]:
        return "isotope"
    if p["stereo"] != "Unknown" and t["stereo"] != p["stereo"]:
        return "atom-stereo"
    return None


def edge_ok(t, p):
    pt = p["btype"]
    if pt == "Unknown":
        pass
    elif pt in ("Single", "Double", "Triple"):
        if int(BondType[t["btype"]]) < int(BondType[pt]):
            return "bond-type"
    elif pt in ("Aromatic", "Amide"):
        if t["btype"] != pt:
            return "bond-type"
    elif pt == "NotConnected":
        return "bond-type"
    else:
        raise ValueError(pt)
    if p["stereo"] != "Unknown" and int(BondStereo[t["stereo"]]) != int(BondStereo[p["stereo"]]):
        return "bond-stereo"
    if p["label"] is not None and t["label"] != p["label"]:
        return "bond-label"
    return None


def why_not(f, T, P):
    """None when f (pattern atom i -> target atom f[i]) is an induced embedding respecting the attributes"""
    tn, pn = len(T["atoms"]), len(P["atoms"])
    if not isinstance(f, tuple) or len(f) != pn or any((not isinstance(x, int)) or x < 0 or x >= tn for x in f):
        return "malformed-mapping"
    if len(set(f)) != pn:
        return "not-injective"
    for i in range(pn):
        r = node_ok(T["atoms"][f[i]], P["atoms"][i])
        if r:
            return f"{r}-mismatch"
    tb = {frozenset((i, j)): bd for i, j, bd in T["bonds"]}
    pb = {frozenset((i, j)): bd for i, j, bd in P["bonds"]}
    for i in range(pn):
        for j in range(i + 1, pn):
            pe = pb.get(frozenset((i, j)))
            te = tb.get(frozenset((f[i], f[j])))
            if pe is not None and te is None:
                return "bonded-mapped-to-nonbonded"
            if pe is None and te is not None:
                return "nonbonded-mapped-to-bonded"
            if pe is not None:
                r = edge_ok(te, pe)
                if r:
                    return f"{r}-mismatch"
    return None


def embeddings_attr(T, P):
    tn, pn = len(T["atoms"]), len(P["atoms"])
    return {f for f in itertools.permutations(range(tn), pn) if why_not(f, T, P) is None}


class ReusedContainer(Exception):
    pass


def call_api(tgt, pat, api):
    """-> list of tuples (target position per pattern atom) or 'malformed' entries"""
    patoms = list(pat.atoms)
    tpos = {id(a): i for i, a in enumerate(tgt.atoms)}
    got = []
    items = list(tgt.match(pat)) if api == "match" else list(tgt.get_substr_indices(pat))  # exhausted first, inspected afterwards
    if len({id(x) for x in items}) != len(items):
        raise ReusedContainer(f"{len(items)} items, {len({id(x) for x in items})} distinct objects")
    for m in items:
        if api == "match":
            if not isinstance(m, dict) or len(m) != len(patoms) or any(not any(k is a for k in m) for a in patoms):
                got.append("malformed")
            else:
                got.append(tuple(tpos.get(id(m[a]), -1) for a in patoms))
        else:
            got.append(tuple(int(x) if isinstance(x, (int, np.integer)) else -1 for x in m) if isinstance(m, (list, tuple)) else "malformed")
    return got


# =================================================================================================
# part A
# =================================================================================================
def attr_case(ctx, agg, T, P, attribute, side, apis=APIS):
    expected = embeddings_attr(T, P)
    attrs = {"attribute": attribute, "side": side}
    for api in apis:
        opname = OPNAME[api]
        cls_name = API_CLS[api]
        agg.tick(opname, attrs)
        ctx.count(evaluations=1, traces=1, transitions=1)
        tgt = build_obj(T, cls_name)
        pat = build_obj(P, "Connectivity")

        def fail(symptom, what):
            case = {"kind": "attr", "op": opname, "symptom": symptom, "T": T, "P": P, "attribute": attribute, "side": side, "api": api}
            rep = [REPRO_IMPORT] + repro_desc(T, "t", cls_name) + repro_desc(P, "p", "Connectivity")
            rep.append("print([[t.atoms.index(m[a]) for a in p.atoms] for m in t.match(p)])" if api == "match" else "print(list(t.get_substr_indices(p)))")
            agg.fail(opname, symptom, attrs, f"{what} [{attribute} varied on the {side}: target atoms {[_short(a) for a in T['atoms']]} bonds {[_shortb(b) for b in T['bonds']]}; pattern atoms {[_short(a) for a in P['atoms']]} bonds {[_shortb(b) for b in P['bonds']]}]", case, "\n".join(rep))

        try:
            got = call_api(tgt, pat, api)
        except ReusedContainer as e:
            fail("yielded-containers-are-one-object-reused", f"list({opname}(...)): {e}")
            continue
        except Exception as e:
            fail(f"raised-{type(e).__name__}", f"{opname} raised {type(e).__name__}: {e}")
            continue
        gset = set(got)
        for f in sorted(gset - expected, key=repr):
            why = "malformed-mapping" if f == "malformed" else why_not(f, T, P)
            fail(f"invalid-embedding:{why}", f"{opname} yielded {f}, which the attribute rule excludes ({why}); expected {len(expected)} embeddings")
        missed = expected - gset
        if missed:
            fail("missed-embedding", f"{opname} missed {len(missed)} of {len(expected)} embeddings, e.g. {sorted(missed)[0]}")
        ctx.outcome(("a", attribute, len(gset)))
    if expected:
        ctx.nontrivial(("a", attribute, side, len(expected)))
    ctx.count(states=1)


def _short(a):
    return ",".join(f"{k}={v}" for k, v in a.items() if v != ATOM_DEFAULT[k] or k == "element")


def _shortb(b):
    return f"{b[0]}-{b[1]}" + "".join(f",{k}={v}" for k, v in b[2].items() if v != BOND_DEFAULT[k])


def base_pairs(seed):
    """(target, pattern) descriptions in which the default pattern embeds"""
    rot = seed % 3
    els3 = ["C", "N", "C"]
    T1 = desc(els3, [(0, 1), (1, 2)])
    P1 = desc(["C", "N"], [(0, 1)])
    P2 = desc(["C"], [])
    els4 = (["C", "N", "C", "C"] * 2)[rot : rot + 4]
    T3 = desc(els4, [(0, 1), (1, 2), (2, 3), (0, 3)])
    P3 = desc([els4[1], els4[2], els4[3]], [(0, 1), (1, 2)])
    return [("path3/pair", T1, P1), ("path3/atom", T1, P2), ("ring4/path3", T3, P3)]


def node_menus():
    sm = [m.name for m in AtomStereo]
    out = []
    for m in AtomType:
        out += [("atom.atype", m.name, "Regular"), ("atom.atype", "Regular", m.name), ("atom.atype", m.name, m.name)]
    for m in AtomGeom:
        out += [("atom.geom", m.name, "Unknown"), ("atom.geom", "Unknown", m.name), ("atom.geom", m.name, m.name)]
    out += [("atom.isotope", a, b) for a in (None, 12, 13) for b in (None, 12, 13)]
    out += [("atom.stereo", a, b) for a in sm for b in sm]
    out += [("atom.label", a, b) for a in (None, "x", "y") for b in (None, "x", "y")]
    out += [("atom.formal_charge", a, b) for a in (0, 1, -1) for b in (0, 1, -1)]
    out += [("atom.formal_spin", a, b) for a in (0, 1) for b in (0, 1)]
    out += [("atom.element", a, b) for a in ("C", "N", "X") for b in ("C", "N", "X")]
    return out


def edge_menus():
    bs = [m.name for m in BondStereo]
    out = [("bond.btype", t.name, p) for t in BondType for p in PATTERN_BTYPES]
    out += [("bond.stereo", a, b) for a in bs for b in bs]
    out += [("bond.label", a, b) for a in (None, "x", "y") for b in (None, "x", "y")]
    out += [("bond.f_order", a, b) for a in (1.0, 1.5, 2.0) for b in (1.0, 1.5, 2.0)]
    return out


def _with(ds, kind, key, value, where):
    import copy

    d = copy.deepcopy(ds)
    items = d["atoms"] if kind == "atom" else [b[2] for b in d["bonds"]]
    for k, it in enumerate(items):
        if where == "all" or k == 0:
            it[key] = value
    return d


def side_of(tv, pv, default):
    if tv == default and pv == default:
        return "neither"
    if pv == default:
        return "target"
    if tv == default:
        return "pattern"
    return "both"


def attr_job(ctx, agg, arg):
    seed, part, nparts = arg["seed"], arg["part"], arg["nparts"]
    cases = []
    for name, T, P in base_pairs(seed):
        for attribute, tv, pv in node_menus():
            key = attribute.split(".")[1]
            for where in ("first", "all"):
                if attribute == "atom.element" and where == "all":
                    continue
                cases.append((_with(T, "atom", key, tv, where), _with(P, "atom", key, pv, where), attribute, side_of(tv, pv, ATOM_DEFAULT[key] if key != "element" else "C")))
        if P["bonds"]:
            for attribute, tv, pv in edge_menus():
                key = attribute.split(".")[1]
                for where in ("first", "all"):
                    cases.append((_with(T, "bond", key, tv, where), _with(P, "bond", key, pv, where), attribute, side_of(tv, pv, BOND_DEFAULT[key])))
    for k, (T, P, attribute, side) in enumerate(cases):
        if k % nparts == part:
            attr_case(ctx, agg, T, P, attribute, side)


def replay_attr(ctx, agg, case):
    attr_case(ctx, agg, case["T"], case["P"], case["attribute"], case["side"], (case["api"],))


# =================================================================================================
# part V : which atom list an index refers to
# =================================================================================================
PARENTS = (
    # elements, bonds; hydrogens are interleaved so that the heavy atoms are not a prefix of the atom list
    (["H", "C", "H", "N", "C", "H", "O"], [(0, 1), (1, 2), (1, 3), (3, 4), (4, 5), (4, 6)]),
    (["C", "H", "H", "C", "N", "H", "C"], [(0, 1), (0, 2), (0, 3), (3, 4), (4, 5), (4, 6), (6, 0)]),
    (["N", "H", "C", "C", "H", "N"], [(0, 1), (0, 2), (2, 3), (3, 4), (3, 5)]),
)
VIEW_PATTERNS = (
    (["C", "N"], [(0, 1)]),
    (["N", "C"], [(0, 1)]),
    (["X", "C"], [(0, 1)]),
    (["C", "C", "N"], [(0, 1), (0, 2)]),
    (["C", "X", "N"], [(0, 2), (1, 2)]),
    (["X"], []),
)


def rotate_parent(els, bonds, seed):
    n = len(els)
    r = seed % n
    perm = [(i + r) % n for i in range(n)]  # atom i goes to position perm[i]
    e2 = [None] * n
    for i in range(n):
        e2[perm[i]] = els[i]
    return e2, [(perm[i], perm[j]) for i, j in bonds]


def current_desc(obj):
    """the queried object's OWN atom list and the bonds among them, by identity"""
    atoms = list(obj.atoms)
    pos = {id(a): i for i, a in enumerate(atoms)}
    inv = {v: k for k, v in EL.items()}
    ds = {"atoms": [dict(ATOM_DEFAULT, element=inv.get(a.element, "?")) for a in atoms], "bonds": []}
    for b in obj.bonds:
        if id(b.a1) in pos and id(b.a2) in pos:
            ds["bonds"].append([pos[id(b.a1)], pos[id(b.a2)], dict(BOND_DEFAULT)])
    return ds


def make_view(kind, els, bonds, extra):
    """-> (queried object, python source lines building it as `t`, objects to keep alive)"""
    T = desc(els, bonds)
    src = repro_desc(T, "base", "Connectivity") + ["import numpy as np", "mol = Molecule(base); mol.coords = np.zeros((mol.n_atoms, 3))"]
    mol = build_obj(T, "Molecule")
    mol.coords = np.zeros((mol.n_atoms, 3))
    if kind == "Molecule":
        return mol, src + ["t = mol"], None
    if kind == "Substructure.heavy":
        return mol.heavy, src + ["t = mol.heavy"], mol
    if kind == "Substructure.list":
        return mol.substructure(list(extra)), src + [f"t = mol.substructure({list(extra)!r})"], mol
    if kind == "Conformer":
        ens = ConformerEnsemble(mol, n_conformers=2)
        ens.coords = np.zeros((2, mol.n_atoms, 3))
        return ens[1], src + ["ens = ConformerEnsemble(mol, n_conformers=2); ens.coords = np.zeros((2, mol.n_atoms, 3)); t = ens[1]"], (mol, ens)
    if kind == "ConformerEnsemble":
        ens = ConformerEnsemble(mol, n_conformers=2)
        return ens, src + ["t = ConformerEnsemble(mol, n_conformers=2)"], mol
    if kind in ("atoms-put-into-a-later-container", "ensemble-atoms-put-into-a-later-container"):
        tgt = mol if kind.startswith("atoms") else ConformerEnsemble(mol, n_conformers=2)
        picked = [tgt.atoms[i] for i in extra]
        other = Connectivity(picked)  # copy_atoms=False: the same Atom objects, now parented by `other`
        line = "t = mol" if kind.startswith("atoms") else "t = ConformerEnsemble(mol, n_conformers=2)"
        return tgt, src + [line, f"other = Connectivity([t.atoms[i] for i in {list(extra)!r}])  # re-parents these atoms"], (mol, other)
    if kind == "built-from-atoms-of-an-earlier-container":
        first = build_obj(T, "Connectivity")
        atoms = list(first.atoms)
        order = list(extra)
        tgt = Connectivity([atoms[i] for i in order])
        pos = {i: k for k, i in enumerate(order)}
        for i, j, bd in T["bonds"]:
            if i in pos and j in pos:
                tgt.append_bond(Bond(atoms[i], atoms[j]))
        return tgt, repro_desc(T, "first", "Connectivity") + [f"t = Connectivity([first.atoms[i] for i in {order!r}])"] + [f"t.append_bond(Bond(first_atoms[{i}], first_atoms[{j}]))" for i, j, _ in T["bonds"] if i in pos and j in pos], first
    raise ValueError(kind)


def view_case(ctx, agg, kind, pidx, extra, pat_i, seed, pattern_from_target=False):
    els, bonds = rotate_parent(*PARENTS[pidx], seed)
    try:
        tgt, src, keep = make_view(kind, els, bonds, extra)
    except Exception as e:
        ctx.add_note(f"view_construction_raised[{kind}:{type(e).__name__}]", 1)
        return
    Tcur = current_desc(tgt)
    if any(a["element"] == "?" for a in Tcur["atoms"]):
        return
    pels, pbonds = VIEW_PATTERNS[pat_i]
    P = desc(pels, pbonds)
    psrc = repro_desc(P, "p", "Connectivity")
    pat = build_obj(P, "Connectivity")
    if pattern_from_target:
        # the pattern is built from the target's own Atom objects (copy_atoms=False re-parents them)
        emb = sorted(embeddings_attr(Tcur, P))
        if not emb or "X" in pels:
            return
        f = emb[(seed + pat_i) % len(emb)]
        tatoms = list(tgt.atoms)
        pat = Connectivity([tatoms[i] for i in f])
        for i, j, _ in P["bonds"]:
            pat.append_bond(Bond(tatoms[f[i]], tatoms[f[j]]))
        P = current_desc(pat)
        psrc = [f"p = Connectivity([t.atoms[i] for i in {list(f)!r}])"] + [f"p.append_bond(Bond(p.atoms[{i}], p.atoms[{j}]))" for i, j, _ in P["bonds"]]
    expected = embeddings_attr(Tcur, P)
    api = "get_substr_indices"
    opname = "ConformerEnsemble.get_substr_indices" if kind in ("ConformerEnsemble", "ensemble-atoms-put-into-a-later-container") else "get_substr_indices"
    attrs = {"target": kind + ("+pattern-built-from-its-atoms" if pattern_from_target else "")}
    agg.tick(opname, attrs)
    ctx.count(states=1, evaluations=2, traces=2, transitions=2)

    def fail(symptom, what):
        case = {"kind": "view", "op": opname, "symptom": symptom, "view": kind, "pidx": pidx, "extra": list(extra) if extra is not None else None, "pat_i": pat_i, "seed": seed, "pattern_from_target": pattern_from_target}
        rep = [REPRO_IMPORT] + src + psrc + ["print(list(t.get_substr_indices(p)), [a.element.symbol for a in t.atoms])"]
        agg.fail(opname, symptom, attrs, f"{what} [queried object: {kind} with atoms {''.join(a['element'] for a in Tcur['atoms'])} (parent {''.join(els)}); pattern {''.join(pels)} bonds {pbonds}]", case, "\n".join(rep))

    try:
        ident = set(call_api(tgt, pat, "match"))
        got = call_api(tgt, pat, api)
    except ReusedContainer as e:
        fail("yielded-containers-are-one-object-reused", f"list(get_substr_indices(...)): {e}")
        return
    except Exception as e:
        fail(f"raised-{type(e).__name__}", f"raised {type(e).__name__}: {e}")
        return
    gset = set(got)
    if gset != expected:
        if ident == expected:
            bad = sorted(gset - expected, key=repr)
            fail("indices-do-not-refer-to-the-queried-atom-list", f"match() maps the right atoms, but get_substr_indices returned {sorted(gset, key=repr)[:4]} where positions in the queried object's atom list are {sorted(expected)[:4]}" + (f" (e.g. {bad[0]})" if bad else ""))
        else:
            for f in sorted(gset - expected, key=repr):
                fail(f"invalid-embedding:{'malformed-mapping' if f == 'malformed' else why_not(f, Tcur, P)}", f"yielded {f}; expected {sorted(expected)[:4]}")
            if expected - gset:
                fail("missed-embedding", f"missed {sorted(expected - gset)[:3]}")
        return
    if expected:
        ctx.nontrivial(("v", kind, pidx, pat_i, pattern_from_target))
    ctx.outcome(("v", kind, len(expected)))


def view_cases(seed, thorough):
    out = []
    for pidx, (els, bonds) in enumerate(PARENTS):
        n = len(els)
        r_els, _ = rotate_parent(els, bonds, seed)
        heavy = [i for i, e in enumerate(r_els) if e != "H"]
        lists = [list(reversed(heavy)), heavy[1:] + heavy[:1], [heavy[-1], heavy[0], heavy[1]], list(reversed(range(n)))[: n - 1]]
        if thorough:
            lists += [list(p) for p in itertools.permutations(heavy, 3)]
        shared = [[heavy[-1], heavy[0]], list(reversed(heavy)), list(reversed(range(n)))]
        for pat_i in range(len(VIEW_PATTERNS)):
            for kind in ("Molecule", "Substructure.heavy", "Conformer", "ConformerEnsemble"):
                out.append((kind, pidx, None, pat_i, False))
                out.append((kind, pidx, None, pat_i, True))
            for l in lists:
                out.append(("Substructure.list", pidx, l, pat_i, False))
                out.append(("Substructure.list", pidx, l, pat_i, True))
            for l in shared:
                out.append(("atoms-put-into-a-later-container", pidx, l, pat_i, False))
                out.append(("ensemble-atoms-put-into-a-later-container", pidx, l, pat_i, False))
            out.append(("built-from-atoms-of-an-earlier-container", pidx, list(reversed(heavy)), pat_i, False))
            out.append(("built-from-atoms-of-an-earlier-container", pidx, list(reversed(range(n))), pat_i, False))
    return out


def view_job(ctx, agg, arg):
    for kind, pidx, extra, pat_i, pft in view_cases(arg["seed"], arg["thorough"]):
        view_case(ctx, agg, kind, pidx, extra, pat_i, arg["seed"], pft)


def replay_view(ctx, agg, case):
    view_case(ctx, agg, case["view"], case["pidx"], case["extra"], case["pat_i"], case["seed"], case["pattern_from_target"])
