"""
C10 helper: INTERPRETER CONFIGURATION.  A compact, representative part of the single-fault layer is run
once more in a child interpreter started with -O and with -OO (assert statements and docstrings are
gone there), through the SAME harness code (mc.props.c10.judge) on the SAME tree (VERIF_REPO):

    multi-block base texts (different molecules, conformers under different names, unimplemented
    records, attribute records, xyz frames); on them every fault that touches a record type indicator
    (renamed, suffix, shortened, split, garbled, deleted, duplicated, cut before), the deletion of every
    line that is not a later atom / bond line, and the
    count / id faults and token garblings of the first atom and bond line of every block.

The child is this module run as a script:   python -O -m mc.props.c10_child   with a JSON job on stdin
and a JSON result on stdout.  Nothing is cached; the parent merges the result (signatures get the suffix
|python-O / |python-OO).
"""
from __future__ import annotations

import json
import os
import subprocess
import sys

CONFIG_BASES = ["gen_tiny.mol2", "gen_confs3_named.mol2", "gen_record_multi.mol2", "gen_unity.mol2", "gen_confs3.xyz"]
LINE_FAULTS = ("delete-line",)
RTI_KINDS = ("rename-section", "damage-section", "garble-token", "extra-token", "duplicate-line", "insert-line", "truncate")
TOKEN_KINDS = ("count+1", "count-1", "retarget", "garble-token", "delete-token", "replace-token")


def selected(doc, f):
    """is fault f of the annotated document part of the compact subset?"""
    i = f["line"]
    if i >= len(doc):
        return False
    cls = doc[i][1]
    first = i == 0 or doc[i - 1][1] != cls
    if f["kind"] in LINE_FAULTS:
        return first or cls not in ("atom", "bond", "xyz-atom")
    if cls.startswith("rti-"):
        return f["kind"] in RTI_KINDS and not f.get("byte")
    if cls in ("mol-counts", "xyz-count"):
        # the atom / bond / frame counts: off by one, to 0 and to a negative value
        role = doc[i][3][f["tok"]][2] if "tok" in f else None
        return role in ("n-atoms", "n-bonds", "count") and (f["kind"] in ("count+1", "count-1") or (f["kind"] == "retarget" and f["to"] in (0, -1)))
    if cls in ("atom", "bond", "xyz-atom") and first:
        # the first atom / bond line of every block: every token garbled, the id columns re-targeted to 0
        return (f["kind"] == "garble-token" and f["how"] == "prefix") or (f["kind"] == "retarget" and f["to"] == 0)
    return False


class Collect:
    """the part of the Ctx interface judge() uses, JSON-able"""

    def __init__(self):
        self.evaluations = 0
        self.state_keys = set()
        self.nontriv = set()
        self.outcomes = set()
        self.notes = {}
        self.violations = {}
        self.violation_counts = {}

    def count(self, evaluations=0, **kw):
        self.evaluations += evaluations

    def nontrivial(self, k):
        self.nontriv.add(k)

    def outcome(self, k):
        self.outcomes.add(repr(k))

    def add_note(self, k, inc=1):
        self.notes[k] = self.notes.get(k, 0) + inc

    def violation(self, signature, what, case=None, repro=None):
        self.violation_counts[signature] = self.violation_counts.get(signature, 0) + 1
        self.violations.setdefault(signature, {"what": what, "case": case, "repro": repro})


def child_main():
    job = json.loads(sys.stdin.read())
    from mc.props import c10 as C
    from mc.props import c10_text as T

    C.install_guards()
    col = Collect()
    fargs = (C.FILLS[job["seed"] % len(C.FILLS)], C.INFIXES[job["seed"] % len(C.INFIXES)], True, C.NUMS[job["seed"] % len(C.NUMS)])
    if job.get("cases"):
        for case in job["cases"]:
            base = C.Base(case["base"])
            doc = base.doc
            for f in case["faults"]:
                doc = T.apply_fault(doc, f)
            C.judge(col, base, doc, case["faults"])
    else:
        for name in job["bases"]:
            base = C.Base(name)
            for f in T.enumerate_faults(base.doc, *fargs):
                if selected(base.doc, f):
                    C.judge(col, base, T.apply_fault(base.doc, f), [f])
    import molli

    json.dump(
        {
            "optimize": sys.flags.optimize,
            "molli": os.path.dirname(molli.__file__),
            "evaluations": col.evaluations,
            "texts": len(col.state_keys),
            "nontrivial": len(col.nontriv),
            "outcomes": sorted(col.outcomes),
            "violations": col.violations,
            "violation_counts": col.violation_counts,
        },
        sys.stdout,
    )


# ---- parent side ---------------------------------------------------------------------------------------
def spawn(flag, job):
    """start a child interpreter with the given optimisation flag; -> Popen"""
    verif = os.path.dirname(os.path.dirname(os.path.dirname(os.path.abspath(__file__))))
    repo = os.environ.get("VERIF_REPO", "/repo")
    env = dict(os.environ)
    env["PYTHONPATH"] = os.pathsep.join([repo, verif])
    env.pop("PYTHONOPTIMIZE", None)
    env["PYTHONDONTWRITEBYTECODE"] = "1"
    p = subprocess.Popen([sys.executable, flag, "-W", "ignore", "-m", "mc.props.c10_child"], stdin=subprocess.PIPE, stdout=subprocess.PIPE, stderr=subprocess.PIPE, env=env, cwd=verif, text=True)
    p.stdin.write(json.dumps(job))
    p.stdin.close()
    return p


def collect(ctx, flag, p, timeout=600):
    from mc.core import HarnessError

    try:
        out = p.stdout.read()
        err = p.stderr.read()
        p.wait(timeout=timeout)
    except subprocess.TimeoutExpired:
        p.kill()
        raise HarnessError(f"the child interpreter ({flag}) did not finish")
    if p.returncode != 0:
        raise HarnessError(f"the child interpreter ({flag}) failed: {err[-800:]}")
    res = json.loads(out)
    want = {"-O": 1, "-OO": 2}[flag]
    if res["optimize"] != want:
        raise HarnessError(f"the child interpreter ran with optimize={res['optimize']}, expected {want}")
    repo = os.path.realpath(os.environ.get("VERIF_REPO", "/repo"))
    if not os.path.realpath(res["molli"]).startswith(repo):
        raise HarnessError(f"the child interpreter imported molli from {res['molli']}")
    tag = "python" + flag
    ctx.count(evaluations=res["evaluations"], transitions=res["evaluations"], traces=res["evaluations"], states=res["texts"])
    ctx.note(f"texts_read_under_{tag}", res["texts"])
    for o in res["outcomes"]:
        ctx.outcome((tag, o))
    for sig, v in res["violations"].items():
        case = dict(v["case"] or {})
        case["config"] = flag
        for _ in range(res["violation_counts"].get(sig, 1)):
            ctx.violation(f"{sig}|{tag}", f"[{tag}] {v['what']}", case, v.get("repro"))
    return res


if __name__ == "__main__":
    child_main()
