"""
Independent float64 numerics shared by the C11 (rigid motions) and C12 (join) checks.

Nothing in here imports molli: lattices, the seed-chosen global rotation, proper rotations
(own Rodrigues / quaternion formulas), Kabsch alignment, rigid-motion invariants (distance matrix,
signed volumes) and the seam for `numpy.random.rand`.
"""
from __future__ import annotations

import hashlib
import itertools
import math
import random

import numpy as np

EPS = float(np.finfo(np.float64).eps)
TOL = 1e-9  # relative tolerance of float64 paths (DESIGN section 2)


# ---- rotations written here (never molli's) -------------------------------------------------------
def quat_to_mat(q):
    w, x, y, z = (float(t) for t in q)
    return np.array(
        [
            [1 - 2 * (y * y + z * z), 2 * (x * y - z * w), 2 * (x * z + y * w)],
            [2 * (x * y + z * w), 1 - 2 * (x * x + z * z), 2 * (y * z - x * w)],
            [2 * (x * z - y * w), 2 * (y * z + x * w), 1 - 2 * (x * x + y * y)],
        ]
    )


def seed_rotation(seed: int, salt: str = "G") -> np.ndarray:
    """A proper rotation in general position, a deterministic function of (salt, seed)."""
    h = hashlib.sha256(f"molli-verif:{salt}:{int(seed)}".encode()).digest()
    q = np.array([int.from_bytes(h[4 * i : 4 * i + 4], "big") / 2.0**32 - 0.5 for i in range(4)])
    if np.linalg.norm(q) < 0.1:  # pragma: no cover (never for the seeds in use)
        q = q + np.array([0.5, 0.25, 0.125, 0.0625])
    q /= np.linalg.norm(q)
    return quat_to_mat(q)


def rot_axis_angle(axis, angle: float) -> np.ndarray:
    """Column convention: `R @ v` turns v about `axis` by `angle` (right-hand rule)."""
    a = np.asarray(axis, dtype=float)
    x, y, z = a / np.linalg.norm(a)
    c, s = math.cos(angle), math.sin(angle)
    C = 1.0 - c
    return np.array(
        [
            [c + x * x * C, x * y * C - z * s, x * z * C + y * s],
            [y * x * C + z * s, c + y * y * C, y * z * C - x * s],
            [z * x * C - y * s, z * y * C + x * s, c + z * z * C],
        ]
    )


def unit(v):
    v = np.asarray(v, dtype=float)
    return v / np.linalg.norm(v)


def any_orthogonal(v):
    """Two unit vectors u1, u2 with (v/|v|, u1, u2) a right-handed orthonormal frame."""
    n = unit(v)
    k = np.zeros(3)
    k[int(np.argmin(np.abs(n)))] = 1.0
    u1 = unit(np.cross(n, k))
    u2 = np.cross(n, u1)
    return u1, u2


# ---- lattices -------------------------------------------------------------------------------------
LATTICE_DIRS = [d for d in itertools.product((0, 1, -1), repeat=3) if any(d)]  # simplest first
LATTICE_DIRS.sort(key=lambda d: (sum(abs(t) for t in d), [-t for t in d]))
assert len(LATTICE_DIRS) == 26
MAGS = (1.0, 1e-3, 1e3)

# poses: proper rigid motions (axis, angle, translation); the first one is the identity
POSES = [
    ((0.0, 0.0, 1.0), 0.0, (0.0, 0.0, 0.0)),
    ((0.0, 0.0, 1.0), math.pi / 2, (1.0, -2.0, 0.5)),
    ((1.0, 1.0, 0.0), math.pi, (0.0, 0.0, 0.0)),
    ((1.0, -2.0, 3.0), 2.0, (-3.0, 4.0, 5.0)),
    ((-0.3, 0.9, 0.2), -1.1, (10.0, 0.25, -7.0)),
    ((0.6, 0.1, -0.7), 4.0, (0.001, 0.002, -0.003)),
]


def pose_matrix(i: int):
    ax, ang, t = POSES[i]
    # row convention for coordinates: X' = X @ M + t, M = R^T
    return rot_axis_angle(ax, ang).T, np.array(t, dtype=float)


def lattice_vectors(G=None):
    """26 directions x 3 magnitudes (78 vectors), optionally turned by the global rotation G (rows)."""
    out = []
    for m in MAGS:
        for d in LATTICE_DIRS:
            v = np.array(d, dtype=float) * m
            if G is not None:
                v = v @ G
            out.append(v)
    return out


# ---- the RNG seam ---------------------------------------------------------------------------------
# every answer lies in [0, 1)^3 = the range of numpy.random.rand(3)
RNG_GENERIC = [
    (0.1, 0.2, 0.3),
    (0.9, 0.1, 0.1),
    (0.2, 0.9, 0.4),
    (0.5, 0.5, 0.1),
    (0.7, 0.3, 0.6),
    (0.05, 0.6, 0.95),
]
RNG_SPECIAL = [
    (0.5, 0.0, 0.0),
    (0.0, 0.5, 0.0),
    (0.0, 0.0, 0.5),
    (0.5, 0.5, 0.0),
    (0.0, 0.5, 0.5),
    (0.5, 0.5, 0.5),
]
RNG_MENU = RNG_GENERIC + RNG_SPECIAL  # 12 answers


class SeamExhausted(RuntimeError):
    pass


class RandSeam:
    """Replaces numpy.random.rand by a finite sequence of answers; also re-seeds the global numpy and
    python generators with `reseed`, so that any *other* use of hidden random state shows up as a
    difference between two runs made with different `reseed` values."""

    def __init__(self, answers, reseed: int = 0, max_calls: int = 16):
        self.answers = [tuple(float(x) for x in a) for a in answers]
        self.calls = 0
        self.reseed = reseed
        self.max_calls = max_calls

    def _fake(self, *shape):
        if self.calls >= self.max_calls or not self.answers:
            raise SeamExhausted(f"numpy.random.rand called more than {self.max_calls} times")
        a = self.answers[self.calls % len(self.answers)] if self.calls >= len(self.answers) else self.answers[self.calls]
        self.calls += 1
        arr = np.array(a, dtype=float)
        if shape and tuple(shape) != (3,):
            arr = np.resize(arr, shape)
        return arr

    def __enter__(self):
        self._orig = np.random.rand
        self._np_state = np.random.get_state()
        self._py_state = random.getstate()
        np.random.seed(1000 + self.reseed)
        random.seed(1000 + self.reseed)
        np.random.rand = self._fake
        return self

    def __exit__(self, *exc):
        np.random.rand = self._orig
        np.random.set_state(self._np_state)
        random.setstate(self._py_state)
        return False


def answer_sequence(first, k: int = 0):
    """first answer, then the generic answers (rotated by k): what a real generator would do - it does
    not repeat itself."""
    g = RNG_GENERIC[k % len(RNG_GENERIC) :] + RNG_GENERIC[: k % len(RNG_GENERIC)]
    return [tuple(first)] + [a for a in g if tuple(a) != tuple(first)]


def parallel_answers(v):
    """Answers of rand(3) exactly / nearly parallel to +-v, when such answers exist in [0,1)^3."""
    n = unit(v)
    out = []
    for s in (1.0, -1.0):
        w = s * n
        if np.all(w >= 0):
            w = np.where(w == 0, 0.0, w)  # no negative zeros
            p = 0.5 * w / np.max(w)
            out.append(("parallel-to-v2", tuple(float(x) for x in p)))
            q = p.copy()
            j = int(np.argmin(p))
            q[j] = q[j] + 1e-9
            out.append(("near-parallel-to-v2", tuple(float(x) for x in q)))
    return out


# ---- rigid-motion invariants ------------------------------------------------------------------------
def pdist(X):
    X = np.asarray(X, dtype=float)
    d = X[:, None, :] - X[None, :, :]
    return np.sqrt(np.einsum("ijk,ijk->ij", d, d))


def quads_for(n: int, extra=()):
    """Index quadruples whose signed volume is compared: all of them for small n, otherwise a fixed
    deterministic family (index windows and strided picks) plus the caller's stereocentre quadruples."""
    qs = []
    if n >= 4:
        if n <= 8:
            qs = list(itertools.combinations(range(n), 4))
        else:
            for i in range(n):
                qs.append(tuple((i + k) % n for k in range(4)))
                qs.append((i, (i + n // 4) % n, (i + n // 2) % n, (i + (3 * n) // 4) % n))
                qs.append((i, (i + 1) % n, (i + n // 3) % n, (i + (2 * n) // 3) % n))
    seen = set()
    out = []
    for q in list(qs) + [tuple(q) for q in extra]:
        if len(set(q)) == 4 and q not in seen:
            seen.add(q)
            out.append(q)
    return out


def signed_volumes(X, quads):
    X = np.asarray(X, dtype=float)
    if not quads:
        return np.zeros(0)
    q = np.asarray(quads, dtype=int)
    a = X[q[:, 1]] - X[q[:, 0]]
    b = X[q[:, 2]] - X[q[:, 0]]
    c = X[q[:, 3]] - X[q[:, 0]]
    return np.einsum("ij,ij->i", a, np.cross(b, c))


def rigid_errors(before, after, quads):
    """(max distance error, max signed-volume error, any non-finite)"""
    before = np.asarray(before, dtype=float)
    after = np.asarray(after, dtype=float)
    if before.shape != after.shape:
        return math.inf, math.inf, True
    if not np.all(np.isfinite(after)):
        return math.inf, math.inf, True
    if len(before) == 0:
        return 0.0, 0.0, False
    de = float(np.max(np.abs(pdist(before) - pdist(after)))) if len(before) > 1 else 0.0
    vb, va = signed_volumes(before, quads), signed_volumes(after, quads)
    ve = float(np.max(np.abs(vb - va))) if len(vb) else 0.0
    return de, ve, False


def mirrored(before, after, quads, vtol):
    """True when the signed volumes are (within vtol) the negatives of the originals and not all ~0."""
    vb, va = signed_volumes(before, quads), signed_volumes(after, quads)
    if not len(vb) or float(np.max(np.abs(vb))) <= 10 * vtol:
        return False
    return float(np.max(np.abs(vb + va))) <= vtol


def mag(*arrays):
    m = 1.0
    for a in arrays:
        a = np.asarray(a, dtype=float)
        if a.size and np.all(np.isfinite(a)):
            m = max(m, float(np.max(np.abs(a))))
    return m


def extent(X):
    X = np.asarray(X, dtype=float)
    if len(X) < 2:
        return 1.0
    return max(1.0, float(np.max(pdist(X))))


# ---- Kabsch (row convention, as scripts/align.py uses it: P @ R ~ Q) -----------------------------
def kabsch(P, Q):
    """Proper rotation R minimising |P @ R - Q| (no centring, like scipy's align_vectors wrapper in
    molli/scripts/align.py), and the true RMSD achieved by it."""
    P = np.asarray(P, dtype=float)
    Q = np.asarray(Q, dtype=float)
    H = P.T @ Q
    U, S, Vt = np.linalg.svd(H)
    d = 1.0 if np.linalg.det(U @ Vt) > 0 else -1.0
    R = U @ np.diag([1.0, 1.0, d]) @ Vt
    return R, rmsd(P @ R, Q)


def rmsd(X, Y):
    X = np.asarray(X, dtype=float)
    Y = np.asarray(Y, dtype=float)
    return float(np.sqrt(np.mean(np.sum((X - Y) ** 2, axis=1))))


def wrap_angle(x: float) -> float:
    """to (-pi, pi]"""
    y = math.fmod(x, 2 * math.pi)
    if y > math.pi:
        y -= 2 * math.pi
    elif y <= -math.pi:
        y += 2 * math.pi
    return y


def dihedral(p0, p1, p2, p3) -> float:
    """IUPAC dihedral written independently (projection form): sign positive for a clockwise turn of
    the far bond when looking from p1 to p2."""
    b0 = np.asarray(p0, float) - np.asarray(p1, float)
    b1 = np.asarray(p2, float) - np.asarray(p1, float)
    b2 = np.asarray(p3, float) - np.asarray(p2, float)
    b1n = b1 / np.linalg.norm(b1)
    v = b0 - np.dot(b0, b1n) * b1n
    w = b2 - np.dot(b2, b1n) * b1n
    x = np.dot(v, w)
    y = np.dot(np.cross(b1n, v), w)
    return float(math.atan2(y, x))


def lst(a):
    """numpy -> nested python lists of floats (exact through JSON)"""
    return np.asarray(a, dtype=float).tolist()
