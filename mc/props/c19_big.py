"""
C19, size dimension.

many_coords_job  prune / nearest_atom_index on geometries and ensembles with 11 .. 200 atom coordinates (more than one
                 KD-tree leaf), eps in {0, 0.0, 1e-12, 0.25, 0.5, 1.0} x max_dist in {0, 0.0, 0.5, 1.0, 2.0, 3.5}: BOTH bounds
                 of the prune clause (kept => within max_dist; within max_dist/(1+eps) => kept; eps = 0 is exact pruning),
                 an explicit 0 is a value, not 'use the default'.
big_job          every descriptor on problems whose size n_conformers*n_atoms*n_gridpoints lies just below / above
                 2^20, 2^22, 2^24 (2^26 in the thorough tier), with a prime number of grid points and occupied points
                 at the END of the grid; reference by brute force in float64 in blocks.
Point clouds come from a fixed low-discrepancy sequence (no random numbers); the seed shifts them.
"""
from __future__ import annotations

import zlib

import numpy as np

import molli as ml
from molli.descriptor import gridbased as gb

from mc.props.c19 import BAND, offset

R3 = (0.8191725133961645, 0.6710436067037893, 0.5497004779019703)  # 1/g, 1/g^2, 1/g^3 of the plastic-number generalisation
ELEMS = ("H", "C", "Cl", "O", "N")


def cloud(n, lo, hi, start=0):
    i = np.arange(start + 1, start + n + 1, dtype=np.float64)[:, None]
    u = (i * np.array(R3)[None, :]) % 1.0
    return lo + u * (hi - lo)


def make_big_ens(nc, na, seed):
    off = offset(seed)
    coords = np.stack([cloud(na, -4.0, 4.0, start=1000 * c + 17 * seed) + off + 0.3 * c for c in range(nc)], axis=0)
    els = [ELEMS[(a + seed) % len(ELEMS)] for a in range(na)]
    charges = np.array([[((-1) ** (a + c)) * (0.05 * (a % 7) + 0.1) + 0.01 * c for a in range(na)] for c in range(nc)])
    weights = np.array([[1.0, 2.0, 0.5, 3.0, 1.5, 0.25, 4.0, 0.75][c % 8] for c in range(nc)])
    ens = ml.ConformerEnsemble(n_conformers=nc, n_atoms=na, coords=coords, weights=weights, atomic_charges=charges)
    for a, e in zip(ens.atoms, els):
        a.element = ml.Element[e]
    return ens, els, coords, charges, weights


def make_geom(kind, na, seed):
    coords = cloud(na, -4.0, 4.0, start=31 * seed) + offset(seed)
    obj = (ml.Molecule if kind == "Molecule" else ml.CartesianGeometry)(n_atoms=na, coords=coords)
    return obj, coords[None]


def big_grid(ng, coords, seed, dtype=np.float32):
    """ng points: a cloud around the atoms and, at the END, points on and next to atoms of every conformer"""
    flat = coords.reshape(-1, 3)
    ntail = min(len(flat) * 2, max(1, ng // 3))
    head = cloud(ng - ntail, -6.0, 6.0, start=5000 + 13 * seed) + offset(seed)
    idx = np.arange(ntail)
    tail = flat[idx % len(flat)] + np.where((idx // len(flat))[:, None] % 2 == 0, 0.0, 0.35)
    return np.vstack([head, tail]).astype(dtype)


def blocks(ng, size=16384):
    for lo in range(0, ng, size):
        yield lo, min(ng, lo + size)


def dist_block(coords, g):
    d = coords[:, :, None, :] - g[None, None, :, :].astype(np.float64)
    return np.sqrt((d * d).sum(-1))  # nc, na, B


# =================================================================================================
# vectorised references
# =================================================================================================
def field_reference(coords, grid, radii, values, weights):
    """-> expected [ng], comparable [ng]   (the definitions and exclusions of mc.props.c19.ref_indicator, vectorised)"""
    nc, na = coords.shape[:2]
    ng = len(grid)
    M = max(1.0, float(np.abs(coords).max()), float(np.abs(grid).max()))
    band = BAND * M
    r = np.asarray(radii, dtype=np.float64)[None, :, None]
    exp = np.zeros(ng)
    ok = np.ones(ng, dtype=bool)
    w = np.ones(nc) if weights is None else np.asarray(weights, dtype=np.float64)
    for lo, hi in blocks(ng):
        d = dist_block(coords, grid[lo:hi])
        ok[lo:hi] &= ~(np.abs(d - r) <= band).any(axis=(0, 1))
        contains = d <= r
        inside = contains.any(axis=1)  # nc, B
        if values is None:
            per = inside.astype(np.float64)
        else:
            v = np.asarray(values, dtype=np.float64)
            k = d.argmin(axis=1)  # nc, B
            vk = np.take_along_axis(v, k, axis=1)
            dmin = d.min(axis=1)
            # nearest atom not unique (within the band) with another value
            tied = d <= (dmin[:, None, :] + band)
            amb = (tied & (v[:, :, None] != vk[:, None, :])).any(axis=1)
            # nearest atom among the spheres that contain the point has another value
            dcont = np.where(contains, d, np.inf)
            k2 = dcont.argmin(axis=1)
            v2 = np.take_along_axis(v, k2, axis=1)
            amb |= inside & (v2 != vk)
            ok[lo:hi] &= ~(amb & inside).any(axis=0)
            per = np.where(inside, vk, 0.0)
        exp[lo:hi] = (per * w[:, None]).sum(axis=0) / w.sum()
    return exp, ok


def dmin_all(coords, grid):
    out = np.empty(len(grid))
    for lo, hi in blocks(len(grid)):
        out[lo:hi] = dist_block(coords, grid[lo:hi]).min(axis=(0, 1))
    return out


def judge_prune(got, dmin, md, eps, band, ng):
    if not isinstance(got, np.ndarray) or got.ndim != 1 or got.dtype.kind not in "iu" or (got.size and (got.min() < 0 or got.max() >= ng)):
        return "malformed-result", f"returned {type(got).__name__} {getattr(got, 'shape', None)} {getattr(got, 'dtype', None)}"
    kept = np.zeros(ng, dtype=bool)
    kept[got] = True
    far = kept & (dmin > md + band)
    inner = md / (1.0 + eps)
    lost = ~kept & (dmin < inner - band)
    if far.any():
        g = int(np.argmax(far))
        return "kept-a-point-beyond-the-cutoff", f"kept grid point {g} whose closest atom is at {dmin[g]:.6g} > max_dist = {md}"
    if lost.any():
        g = int(np.argmax(lost))
        return "dropped-a-point-inside-cutoff/(1+eps)", f"dropped grid point {g} whose closest atom is at {dmin[g]:.6g} < {md}/(1+{eps}) = {inner:.6g} ({int(lost.sum())} such points)"
    return None, (int(kept.sum()), ng)


def judge_nearest(got, coords, grid, md, band, is_ens):
    nc = coords.shape[0]
    ng = len(grid)
    want = (nc, ng) if is_ens else (ng,)
    if not isinstance(got, np.ndarray) or got.shape != want or got.dtype.kind not in "iu":
        return "malformed-result", f"returned {type(got).__name__} {getattr(got, 'shape', None)}, expected {want}"
    g2 = got if is_ens else got[None]
    for lo, hi in blocks(ng):
        d = dist_block(coords, grid[lo:hi])
        dmin = d.min(axis=1)  # nc, B
        k = g2[:, lo:hi]
        decided = np.abs(dmin - md) > band
        beyond = decided & (dmin > md) & (k != -1)
        within = decided & (dmin <= md)
        miss = within & (k == -1)
        rng = within & ~miss & ((k < 0) | (k >= coords.shape[1]))
        kk = np.clip(k, 0, coords.shape[1] - 1)
        dk = np.take_along_axis(d, kk[:, None, :], axis=1)[:, 0, :]
        wrong = within & ~miss & ~rng & (dk > dmin + band)
        for mask, sym, txt in ((beyond, "cutoff-not-honoured", "an atom is named although the closest one is beyond max_dist"), (miss, "cutoff-not-honoured", "-1 although an atom is within max_dist"), (rng, "index-out-of-range", "index out of range"), (wrong, "not-the-closest-atom", "not the closest atom")):
            if mask.any():
                c, g = [int(x) for x in np.argwhere(mask)[0]]
                return sym, f"conformer {c}, grid point {lo + g}: {txt} (closest at {dmin[c, g]:.6g}, max_dist={md}, returned {int(k[c, g])})"
    return None, None


# =================================================================================================
# many coordinates: prune / nearest_atom_index, explicit zeros
# =================================================================================================
EPS_MENU = (0, 0.0, 1e-12, 0.25, 0.5, 1.0)
MD_MENU = (0, 0.0, 0.5, 1.0, 2.0, 3.5)


def many_coords_inputs(seed):
    out = []
    for na in (11, 40, 200):
        obj, coords = make_geom("Molecule" if na != 40 else "CartesianGeometry", na, seed)
        out.append((f"{type(obj).__name__}-{na}-atoms", obj, coords, False, f"obj = ml.{type(obj).__name__}(n_atoms={na}, coords=cloud({na}, -4.0, 4.0, start={31 * seed}) + np.array({offset(seed).tolist()!r}))"))
    ens, els, coords, charges, weights = make_big_ens(4, 25, seed)
    out.append(("ensemble-4x25", ens, coords, True, f"obj = ml.ConformerEnsemble(n_conformers=4, n_atoms=25, coords=np.stack([cloud(25, -4.0, 4.0, start=1000 * c + {17 * seed}) + np.array({offset(seed).tolist()!r}) + 0.3 * c for c in range(4)]))"))
    return out


REPRO_CLOUD = (
    "import numpy as np, molli as ml\nfrom molli.descriptor import gridbased as gb\n"
    f"R3 = np.array({list(R3)!r})\n"
    "def cloud(n, lo, hi, start=0):\n    i = np.arange(start + 1, start + n + 1, dtype=float)[:, None]\n    return lo + ((i * R3[None, :]) % 1.0) * (hi - lo)\n"
)


def many_coords_job(ctx, agg, arg):
    seed = arg["seed"]
    for label, obj, coords, is_ens, src in many_coords_inputs(seed):
        flat = coords.reshape(-1, 3)
        grid = np.vstack([cloud(700, -5.5, 5.5, start=9000 + seed) + offset(seed), flat[: min(40, len(flat))]]).astype(np.float32)
        gsrc = f"grid = np.vstack([cloud(700, -5.5, 5.5, start={9000 + seed}) + np.array({offset(seed).tolist()!r}), np.asarray(obj.coords).reshape(-1, 3)[:{min(40, len(flat))}]]).astype(np.float32)\n"
        M = max(1.0, float(np.abs(coords).max()), float(np.abs(grid).max()))
        band = BAND * M
        dmin = dmin_all(coords, grid)
        ctx.count(states=1)
        for md in MD_MENU:
            # ---- nearest_atom_index -----------------------------------------------------------
            op = "nearest_atom_index"
            attrs = {"coordinates": label, "max_dist": "zero" if md == 0 else "positive"}
            agg.tick(op, **attrs)
            ctx.count(evaluations=1, traces=1, transitions=1)
            try:
                got = gb.nearest_atom_index(grid, obj, max_dist=md)
            except Exception as e:
                sym, det = f"raised-{type(e).__name__}", f"raised {type(e).__name__}: {e}"
            else:
                sym, det = judge_nearest(got, coords, grid, float(md), band, is_ens)
            if sym:
                case = {"kind": "many-coords", "op": op, "symptom": sym, "label": label, "md": md, "eps": None, "seed": seed, "md_is_int": isinstance(md, int)}
                agg.fail(op, sym, attrs, f"nearest_atom_index(grid of {len(grid)} points, {label}, max_dist={md!r}): {det}", case, REPRO_CLOUD + src + "\n" + gsrc + f"print(gb.nearest_atom_index(grid, obj, max_dist={md!r}))")
            else:
                ctx.outcome((op, label, zlib.crc32(np.asarray(got).astype(np.int64).tobytes()) % 1024))
            # ---- prune ------------------------------------------------------------------------
            op = "prune"
            for eps in EPS_MENU:
                attrs = {"coordinates": label, "max_dist": "zero" if md == 0 else "positive", "eps": repr(eps)}
                agg.tick(op, **attrs)
                ctx.count(evaluations=1, traces=1, transitions=1)
                try:
                    got = gb.prune(grid, obj, max_dist=md, eps=eps)
                except Exception as e:
                    sym, det = f"raised-{type(e).__name__}", f"raised {type(e).__name__}: {e}"
                else:
                    sym, det = judge_prune(got, dmin, float(md), float(eps), band, len(grid))
                if sym:
                    case = {"kind": "many-coords", "op": op, "symptom": sym, "label": label, "md": md, "eps": eps, "seed": seed, "md_is_int": isinstance(md, int), "eps_is_int": isinstance(eps, int)}
                    agg.fail(op, sym, attrs, f"prune(grid of {len(grid)} points, {label}, max_dist={md!r}, eps={eps!r}): {det}", case, REPRO_CLOUD + src + "\n" + gsrc + f"print(gb.prune(grid, obj, max_dist={md!r}, eps={eps!r}))")
                else:
                    if 0 < det[0] < det[1]:
                        ctx.nontrivial((op, label, repr(md), repr(eps)))
                    ctx.outcome((op, label, det[0]))


# =================================================================================================
# size classes
# =================================================================================================
PRIMES = {20: (16381, 16411), 22: (65521, 65537), 24: (262139, 262147), 26: (1048573, 1048583)}  # x 64 coordinates: just below / above 2^k
FUNCS = ("aso", "aeif", "atomic_indicator_field", "nearest_atom_index", "prune")


def big_case(ctx, agg, fn, k, side, seed):
    nc, na = 4, 16
    ng = PRIMES[k][0 if side == "below" else 1]
    ens, els, coords, charges, weights = make_big_ens(nc, na, seed)
    grid = big_grid(ng, coords, seed)
    size = f"{side}-2^{k}"
    op = fn
    attrs = {"size": size}
    agg.tick(op, **attrs)
    ctx.count(states=1, evaluations=1, traces=1, transitions=1)
    M = max(1.0, float(np.abs(coords).max()), float(np.abs(grid).max()))
    band = BAND * M
    vdw = np.array([a.vdw_radius for a in ens.atoms], dtype=np.float64)
    custom_r = np.array([0.9 + 0.07 * (a % 11) for a in range(na)])
    custom_v = np.array([[1.0 + a + 100.0 * c for a in range(na)] for c in range(nc)])
    sym = det = None
    try:
        if fn == "aso":
            got = gb.aso(ens, grid, weighted=True)
            exp, ok = field_reference(coords, grid, vdw, None, weights)
        elif fn == "aeif":
            got = gb.aeif(ens, grid, weighted=True)
            exp, ok = field_reference(coords, grid, vdw, charges, weights)
        elif fn == "atomic_indicator_field":
            got = gb.atomic_indicator_field(ens, grid, custom_v, custom_r, weighted=False)
            exp, ok = field_reference(coords, grid, custom_r, custom_v, None)
        elif fn == "nearest_atom_index":
            got = gb.nearest_atom_index(grid, ens, max_dist=1.5)
        else:
            got = gb.prune(grid, ens, max_dist=1.5, eps=0.25)
    except Exception as e:
        sym, det = f"raised-{type(e).__name__}", f"raised {type(e).__name__}: {e}"
    else:
        if fn in ("aso", "aeif", "atomic_indicator_field"):
            if not isinstance(got, np.ndarray) or got.shape != exp.shape or got.dtype.kind != "f":
                sym, det = "malformed-result", f"returned {type(got).__name__} {getattr(got, 'shape', None)}, expected {exp.shape}"
            else:
                bad = ok & ~(np.abs(got.astype(np.float64) - exp) <= 1e-9 * max(1.0, float(np.abs(exp).max())))
                if bad.any():
                    g = int(np.argmax(bad))
                    last = int(np.flatnonzero(bad)[-1])
                    sym = "wrong-value"
                    det = f"{int(bad.sum())} of {int(ok.sum())} compared grid points differ, first at index {g} (returned {got[g]!r}, definition {exp[g]!r}), last at index {last} of {ng}"
                else:
                    ctx.add_note(f"{fn}_big_points_compared", int(ok.sum()))
                    nz = exp[ok] != 0
                    if nz.any() and (~nz).any() and (exp[-min(50, ng) :] != 0).any():
                        ctx.nontrivial((fn, size))
                    ctx.outcome((fn, size, zlib.crc32(np.round(exp[ok][-200:], 9).tobytes()) % 1024))
        elif fn == "nearest_atom_index":
            sym, det = judge_nearest(got, coords, grid, 1.5, band, True)
            if not sym:
                ctx.nontrivial((fn, size))
                ctx.outcome((fn, size, zlib.crc32(np.asarray(got)[:, -200:].astype(np.int64).tobytes()) % 1024))
        else:
            sym, det = judge_prune(got, dmin_all(coords, grid), 1.5, 0.25, band, ng)
            if not sym:
                ctx.nontrivial((fn, size))
                ctx.outcome((fn, size, det[0]))
    if sym:
        case = {"kind": "big", "op": op, "symptom": sym, "fn": fn, "k": k, "side": side, "seed": seed}
        agg.fail(op, sym, attrs, f"{fn} on {nc} conformers x {na} atoms x {ng} grid points ({nc * na * ng} = {size}), occupied points at the end of the grid: {det}", case, f"# see mc/props/c19_big.py big_case(fn={fn!r}, k={k}, side={side!r}, seed={seed}): make_big_ens(4, 16, seed), big_grid({ng}, coords, seed)")


def big_job(ctx, agg, arg):
    for fn in arg["funcs"]:
        for side in ("below", "above"):
            big_case(ctx, agg, fn, arg["k"], side, arg["seed"])


def replay_big(ctx, agg, case):
    if case["kind"] == "big":
        big_case(ctx, agg, case["fn"], case["k"], case["side"], case["seed"])
    else:
        many_coords_job(ctx, agg, {"seed": case["seed"]})
