"""
C19 - distance kernels and grid descriptors equal their mathematical definition.

Bounded-exhaustive input enumeration (DESIGN 3.4 / section C19) over stated lattices:

K  compiled kernels, two implementations
   so  : the shipped extension molli_xt*.so through Python (what every descriptor calls)
   src : molli_xt/distance.cpp + _molli_xt.cpp of the CURRENT tree, compiled unchanged at run time
         (g++ -std=c++17 -O1) against the pybind11 stand-in in /verif/shim and called via ctypes
         (pybind11 is not installed in the sandbox, the extension itself cannot be rebuilt)
   shapes (n,3)x(m,3) and (x,n,3)x(m,3), dtypes float32/float64/int/mixed, layouts C / Fortran /
   sliced / transposed, points from {-1,0,0.5,2}^3 (+ a seed-chosen exactly representable offset).
D  rectangular_grid, nearest_atom_index, prune, aso, aeif, atomic_indicator_field over small
   ensembles (1..3 conformers x 1..3 atoms) and single geometries.

Reference: float64 numpy written from the definitions in the property text.  Every part runs in
forked children with a timeout (a crashing kernel must not take the harness down).

Violations are collected per (operation, symptom) over the whole enumeration; the signature names
the input classes (dtype, layout, input kind, cut-off ...) only when the failure is confined to
some of them - so one root cause gives one signature that does not depend on the seed.
"""
from __future__ import annotations

import ctypes
import itertools
import os
import pickle
import re
import signal
import subprocess
import time
import traceback
import zlib
from fractions import Fraction
from pathlib import Path

import numpy as np

from mc.core import HarnessError, VERIF

import molli as ml
import molli_xt
from molli.descriptor import gridbased as gb

LEVEL = "model_checking"

REPO = Path(os.environ.get("VERIF_REPO", "/repo"))
SHIM_DIR = VERIF / "shim"
EPS = {4: float(np.finfo(np.float32).eps), 8: float(np.finfo(np.float64).eps)}
ULPS = 8  # "a few ulp of the result dtype scaled by magnitude"
BAND = 1e-5  # float32 rounding band around a sphere surface / a cut-off (relative to max(1, magnitude))


# =================================================================================================
# failure aggregation -> stable signatures
# =================================================================================================
class Agg:
    def __init__(self):
        self.tried: dict = {}
        self.fails: dict = {}
        self.maxima: dict = {}

    def maximum(self, key, value):
        if value > self.maxima.get(key, float("-inf")):
            self.maxima[key] = value

    def tick(self, op, **attrs):
        t = self.tried.setdefault(op, {})
        for k, v in attrs.items():
            t.setdefault(k, set()).add(str(v))

    def fail(self, op, symptom, attrs, what, case, repro=None):
        f = self.fails.setdefault((op, symptom), {"attrs": {}, "first": None, "n": 0})
        f["n"] += 1
        for k, v in attrs.items():
            f["attrs"].setdefault(k, set()).add(str(v))
        if f["first"] is None:
            f["first"] = (what, case, repro)

    def merge(self, o: "Agg"):
        for k, v in o.maxima.items():
            self.maximum(k, v)
        for op, t in o.tried.items():
            mine = self.tried.setdefault(op, {})
            for k, s in t.items():
                mine.setdefault(k, set()).update(s)
        for key, f in o.fails.items():
            m = self.fails.setdefault(key, {"attrs": {}, "first": None, "n": 0})
            m["n"] += f["n"]
            for k, s in f["attrs"].items():
                m["attrs"].setdefault(k, set()).update(s)
            if m["first"] is None:
                m["first"] = f["first"]

    def signatures(self):
        """(signature, n, what, case, repro) per distinct failure class"""
        rows = []
        for (op, symptom), f in sorted(self.fails.items()):
            restr = ""
            for k in sorted(f["attrs"]):
                if f["attrs"][k] != self.tried.get(op, {}).get(k, f["attrs"][k]):
                    restr += f"[{k}={'|'.join(sorted(f['attrs'][k]))}]"
            rows.append([op, symptom, restr, f])
        # a kernel failure that hits every function of a template family is one finding
        out = []
        used = set()
        kre = re.compile(r"^kernel\[(so|src)\]:(cdist22|cdist32)[fd]?_eu2?(:history\[.*\])?$")
        groups = {}  # (impl, family, suffix) -> operation names that were tried
        for op in self.tried:
            m = kre.match(op)
            if m:
                groups.setdefault((m.group(1), m.group(2), m.group(3) or ""), set()).add(op)
        for (impl, fam, suffix), names in sorted(groups.items()):
            by = {}
            for i, (op, symptom, restr, f) in enumerate(rows):
                if op in names:
                    by.setdefault((symptom, restr), []).append(i)
            for (symptom, restr), idxs in sorted(by.items()):
                if len(names) > 1 and {rows[i][0] for i in idxs} == names:
                    first = rows[idxs[0]][3]["first"]
                    n = sum(rows[i][3]["n"] for i in idxs)
                    out.append((f"kernel[{impl}]:{fam}*{suffix}:{symptom}{restr}", n) + tuple(first))
                    used.update(idxs)
        for i, (op, symptom, restr, f) in enumerate(rows):
            if i not in used:
                out.append((f"{op}:{symptom}{restr}", f["n"]) + tuple(f["first"]))
        return sorted(out, key=lambda r: r[0])

    def emit(self, ctx, replay_of=None):
        for sig, n, what, case, repro in self.signatures():
            case = dict(case)
            if replay_of is not None:
                # a single re-executed case cannot see the class restrictions: same (op, symptom) => same finding
                if (case.get("op"), case.get("symptom")) == (replay_of.get("op"), replay_of.get("symptom")) and replay_of.get("sig"):
                    sig = replay_of["sig"]
            case["sig"] = sig
            ctx.violation(sig, what, case, repro)
            ctx.violation_counts[sig] = n


# =================================================================================================
# forked execution with timeout
# =================================================================================================
def run_forked(ctx, agg, jobs, nproc, timeout):
    """jobs: [(label, func, arg)]; func(sub_ctx, sub_agg, arg).  Every job is completed; results are
    merged in job order.  A job that dies on a signal is a finding of its label, a job that hangs or
    raises is a harness error."""
    scratch = Path(ctx.scratch)
    pending = list(enumerate(jobs))
    running = {}
    results = {}
    while pending or running:
        while pending and len(running) < nproc:
            i, (label, func, arg) = pending.pop(0)
            out = scratch / f"job{i}.pkl"
            pid = os.fork()
            if pid == 0:
                code = 0
                try:
                    sc = ctx.sub(1000 + i)
                    sa = Agg()
                    func(sc, sa, arg)
                    with open(out, "wb") as fh:
                        pickle.dump((sc.export(), sa), fh)
                except BaseException:
                    try:
                        (scratch / f"job{i}.err").write_text(traceback.format_exc())
                    except Exception:
                        pass
                    code = 3
                os._exit(code)
            running[pid] = (i, label, time.time())
        done = []
        for pid, (i, label, t0) in list(running.items()):
            r, status = os.waitpid(pid, os.WNOHANG)
            if r == 0:
                if time.time() - t0 > timeout:
                    os.kill(pid, signal.SIGKILL)
                    os.waitpid(pid, 0)
                    for p in running:
                        if p != pid:
                            try:
                                os.kill(p, signal.SIGKILL)
                            except Exception:
                                pass
                    raise HarnessError(f"job {label!r} exceeded {timeout} s")
                continue
            done.append(pid)
            if os.WIFSIGNALED(status):
                results[i] = ("signal", os.WTERMSIG(status))
            elif os.WEXITSTATUS(status) != 0:
                err = scratch / f"job{i}.err"
                raise HarnessError(f"job {label!r} failed:\n{err.read_text() if err.exists() else status}")
            else:
                results[i] = ("ok", None)
        for pid in done:
            del running[pid]
        if not done:
            time.sleep(0.02)
    for i, (label, func, arg) in enumerate(jobs):
        kind, val = results[i]
        if kind == "signal":
            name = signal.Signals(val).name if val in list(signal.Signals) else str(val)
            if label == "samples":
                # the kernel jobs report a crashing kernel; the sample writer is not a case
                ctx.add_note("samples_job_died_on_" + name, 1)
                continue
            agg.tick(label)
            agg.fail(label, f"process-killed-by-{name}", {}, f"the process running {label} died on {name}", {"kind": "crash", "op": label, "symptom": f"process-killed-by-{name}", "label": label})
            continue
        with open(scratch / f"job{i}.pkl", "rb") as fh:
            exp, sa = pickle.load(fh)
        ctx.merge(exp)
        agg.merge(sa)


# =================================================================================================
# the source-compiled kernels (pybind11 stand-in)
# =================================================================================================
_LL = ctypes.c_longlong


class SrcKernels:
    def __init__(self, lib_path):
        self.lib = ctypes.CDLL(str(lib_path))
        self.names = {4: [], 8: []}
        buf = ctypes.create_string_buffer(128)
        for isd, size in ((0, 4), (1, 8)):
            for i in range(self.lib.shim_n_functions(isd)):
                if self.lib.shim_function_name(isd, i, buf, 128) >= 0:
                    self.names[size].append(buf.value.decode())

    def call(self, name, a, b, size):
        """what pybind11 does before the kernel runs (c_style | forcecast) is done here"""
        dt = np.float32 if size == 4 else np.float64
        a = np.ascontiguousarray(a, dtype=dt)
        b = np.ascontiguousarray(b, dtype=dt)
        cap = 1
        for s in a.shape[:-1]:
            cap *= s
        cap = cap * b.shape[0] + 64
        out = np.full(cap, np.nan, dtype=dt)
        ond = ctypes.c_int(0)
        osh = (_LL * 8)()
        fn = self.lib.shim_call_f32 if size == 4 else self.lib.shim_call_f64
        rc = fn(
            name.encode(),
            a.ctypes.data_as(ctypes.c_void_p), ctypes.c_int(a.ndim), (_LL * a.ndim)(*a.shape),
            b.ctypes.data_as(ctypes.c_void_p), ctypes.c_int(b.ndim), (_LL * b.ndim)(*b.shape),
            out.ctypes.data_as(ctypes.c_void_p), _LL(cap), ctypes.byref(ond), osh,
        )  # fmt: skip
        shape = tuple(int(osh[i]) for i in range(ond.value))
        if rc == 0:
            n = int(np.prod(shape)) if shape else 1
            return 0, out[:n].reshape(shape)
        return rc, shape


def compile_src(scratch: Path) -> Path:
    srcs = [REPO / "molli_xt" / "distance.cpp", REPO / "molli_xt" / "_molli_xt.cpp", SHIM_DIR / "shim_entry.cpp"]
    for s in srcs:
        if not s.exists():
            raise HarnessError(f"missing source {s}")
    out = Path(scratch) / "libmolli_xt_src.so"
    cmd = ["g++", "-std=c++17", "-O1", "-shared", "-fPIC", f"-I{SHIM_DIR}", f"-I{REPO / 'molli_xt'}"] + [str(s) for s in srcs] + ["-o", str(out)]
    try:
        r = subprocess.run(cmd, capture_output=True, text=True, timeout=300)
    except subprocess.TimeoutExpired:
        raise HarnessError("g++ did not finish within 300 s")
    if r.returncode != 0 or not out.exists():
        raise HarnessError("molli_xt sources do not compile against the pybind11 stand-in:\n" + r.stderr[-3000:])
    return out


# =================================================================================================
# alphabets
# =================================================================================================
VALS = (-1.0, 0.0, 0.5, 2.0)
ALPHABET = np.array([(x, y, z) for x in VALS for y in VALS for z in VALS], dtype=np.float64)


def offset(seed):
    # exactly representable in float32, and 4*offset is an integer (int dtype cases)
    return np.array([0.25 * (seed % 4), -0.25 * (seed % 3), 0.5 * (seed % 5)])


def point_table(seed, size):
    idx = [(5 * i + 7 * seed) % 64 for i in range(size)]
    return ALPHABET[idx] + offset(seed)


def inexact_table(seed, size):
    # coordinates that are not representable in binary (rounded differently in float32 and float64)
    t = point_table(seed, size)
    return t * 1.1 + np.array([0.3, -0.7, 1.0 / 3.0])


def subsets_le2(table):
    out = [np.zeros((0, 3))]
    n = len(table)
    out += [table[[i]] for i in range(n)]
    out += [table[[i, j]] for i in range(n) for j in range(i + 1, n)]
    return out


def window(table, start, n):
    idx = [(start + k) % len(table) for k in range(n)]
    return table[idx].reshape(n, 3)


def lay2(a, kind):
    n = a.shape[0]
    if kind == "C":
        return np.ascontiguousarray(a)
    if kind == "F":
        return np.asfortranarray(a)
    if kind == "sliced":
        big = np.full((2 * n, 3), 77, dtype=a.dtype)
        big[::2] = a
        return big[::2]
    if kind == "T":
        return np.ascontiguousarray(a.T).T
    raise HarnessError(kind)


def lay3(a, kind):
    x, n = a.shape[:2]
    if kind == "C":
        return np.ascontiguousarray(a)
    if kind == "F":
        return np.asfortranarray(a)
    if kind == "sliced":
        big = np.full((2 * x, n, 3), 77, dtype=a.dtype)
        big[::2] = a
        return big[::2]
    if kind == "sliced1":
        big = np.full((x, 2 * n, 3), 77, dtype=a.dtype)
        big[:, ::2] = a
        return big[:, ::2]
    if kind == "T":
        return np.ascontiguousarray(a.transpose(1, 0, 2)).transpose(1, 0, 2)
    raise HarnessError(kind)


LAY2 = ("C", "F", "sliced", "T")
LAY3 = ("C", "F", "sliced", "sliced1", "T")
DTYPES = {"f4": (np.float32, np.float32), "f8": (np.float64, np.float64), "i8": (np.int64, np.int64), "f4+f8": (np.float32, np.float64)}
NAME_RE = re.compile(r"^(cdist22|cdist32)([fd]?)_eu(2?)$")


def so_names():
    return sorted(n for n in dir(molli_xt) if NAME_RE.match(n))


def ref_dist(A, B, squared):
    A = np.asarray(A, dtype=np.float64)
    B = np.asarray(B, dtype=np.float64)
    diff = A[..., :, None, :] - B[None, :, :]
    d2 = (diff * diff).sum(axis=-1)
    return d2 if squared else np.sqrt(d2)


# =================================================================================================
# K : one kernel call
# =================================================================================================
def kernel_case(ctx, agg, impl, src, name, A, B, dt, la, lb, block):
    """A, B: float64 logical values (for dt == i8 they are multiplied by 4 first -> integers)"""
    fam, width, sq = NAME_RE.match(name).groups()
    squared = sq == "2"
    dta, dtb = DTYPES[dt]
    scale = 4.0 if dt == "i8" else 1.0
    a = (A * scale).astype(dta)
    b = (B * scale).astype(dtb)
    a = lay3(a, la) if a.ndim == 3 else lay2(a, la)
    b = lay2(b, lb)
    op = f"kernel[{impl}]:{name}"
    if impl == "src" and name not in src.names[4 if dt == "f4" else 8]:
        return  # this name has no overload for this scalar type (e.g. cdist22f_eu for double)
    shapeclass = "empty" if (a.size == 0 or b.size == 0) else "nonempty"
    attrs = {"dtype": dt, "layout": "contiguous" if (la == "C" and lb == "C") else "non-contiguous", "shape": shapeclass}
    agg.tick(op, **attrs)
    ref = ref_dist(a, b, squared)  # from the values actually passed
    ctx.count(evaluations=1, traces=1, transitions=1)
    if block == "K5":
        a = np.array(a)
        b = np.array(b)
        a.setflags(write=False)
        b.setflags(write=False)
        attrs["layout"] = "read-only"
        agg.tick(op, **attrs)
    snap_a, snap_b = a.copy(), b.copy()

    def fail(symptom, what):
        case = {"kind": "kernel", "op": op, "impl": impl, "name": name, "A": A.tolist(), "B": B.tolist(), "dt": dt, "la": la, "lb": lb, "symptom": symptom}
        repro = None
        if impl == "so":
            repro = (
                "import numpy as np, molli_xt\n"
                f"a = np.array({(A * scale).tolist()!r}, dtype=np.{np.dtype(dta).name}).reshape({tuple(A.shape)!r})\n"
                f"b = np.array({(B * scale).tolist()!r}, dtype=np.{np.dtype(dtb).name}).reshape({tuple(B.shape)!r})\n"
                f"# layouts: a {la}, b {lb}\n"
                f"print(molli_xt.{name}(a, b))"
            )
        agg.fail(op, symptom, attrs, f"{name}[{impl}] {what} (shapes {a.shape} x {b.shape}, dtype {dt}, layouts {la}/{lb})", case, repro)

    # which precision is promised: explicit f/d names by their name; overloaded names by the input width
    if impl == "so":
        try:
            got = getattr(molli_xt, name)(a, b)
        except Exception as e:
            fail(f"raised-{type(e).__name__}", f"raised {type(e).__name__}: {e}")
            return
        psize = 4 if width == "f" else (8 if width == "d" else (8 if dt == "f8" else 4))
    else:
        psize = 4 if dt == "f4" else 8
        rc, got = src.call(name, a, b, psize)
        if rc == 1:
            return  # this name has no overload for this scalar type (e.g. cdist22f_eu for double)
        if rc == 2:
            fail("wrong-shape", f"returned shape {got}, expected {ref.shape}")
            return
        if rc == 3:
            fail("raised-cpp-exception", "threw a C++ exception")
            return
        if rc == 4:
            fail("out-of-bounds-write", "wrote outside its result array (guard zone damaged)")
            return
    changed = [n for n, x, sn in (("first-input", a, snap_a), ("second-input", b, snap_b)) if not (x.dtype == sn.dtype and np.array_equal(x, sn))]
    if changed:
        fail(f"caller-input-mutated[{'+'.join(changed)}]", f"changed the caller's {' and '.join(changed)} array in place")
        return
    if not isinstance(got, np.ndarray):
        fail("result-not-an-array", f"returned {type(got).__name__}")
        return
    if got.shape != ref.shape:
        fail("wrong-shape", f"returned shape {got.shape}, expected {ref.shape}")
        return
    if got.dtype.kind != "f":
        fail("result-not-float", f"returned dtype {got.dtype}")
        return
    if impl == "so" and got.dtype.itemsize < psize:
        # e.g. a non-contiguous float64 array given to an overloaded name is computed by the float32 overload
        # (pybind11 tries the overloads without conversion first; c_style makes the double overload refuse it).
        # The property fixes the values up to the precision of the returned float width, not the dispatch: noted, not a violation.
        ctx.add_note("so_results_narrower_than_the_input_width", 1)
    M = max(1.0, float(np.abs(a).max(initial=0.0)), float(np.abs(b).max(initial=0.0)))
    mag = np.maximum(np.abs(ref), M * M if squared else M)
    tol = ULPS * EPS[min(psize, got.dtype.itemsize)] * mag
    err = np.abs(got.astype(np.float64) - ref)
    if ref.size and not np.all(err <= tol):  # NaN fails too
        k = np.unravel_index(int(np.argmax(np.where(np.isnan(err), np.inf, err - tol))), ref.shape)
        fail("wrong-value", f"element {tuple(int(x) for x in k)} = {got[k]!r}, definition gives {ref[k]!r}")
        return
    if ref.size:
        agg.maximum(f"max_error_in_ulp_kernel[{impl}]", float((err / (EPS[min(psize, got.dtype.itemsize)] * mag)).max()))
    if ref.size and float(ref.max()) > 0:
        ctx.nontrivial(("k", impl, name, a.shape, b.shape, dt, la, lb))
    ctx.outcome(("k", ref.shape, zlib.crc32(np.round(ref, 6).tobytes()) % 2048))


def kernel_job(ctx, agg, arg):
    impl, fam, seed, thorough, libpath = arg["impl"], arg["fam"], arg["seed"], arg["thorough"], arg.get("lib")
    src = SrcKernels(libpath) if impl == "src" else None
    if impl == "so":
        names = [n for n in so_names() if n.startswith(fam)]
    else:
        names = sorted({n for s in (4, 8) for n in src.names[s] if NAME_RE.match(n) and n.startswith(fam)})
    if not names:
        agg.tick(f"kernel[{impl}]:{fam}")
        agg.fail(f"kernel[{impl}]:{fam}", "no-such-kernel", {}, f"no {fam}* function is exposed by the {impl} implementation", {"kind": "kernel-missing", "op": f"kernel[{impl}]:{fam}", "symptom": "no-such-kernel", "impl": impl, "fam": fam})
        return
    three = fam == "cdist32"
    tsize = 24 if thorough else 12
    table = point_table(seed, tsize)
    lays_a = (LAY3 if three else LAY2) if impl == "so" else ("C",)
    lays_b = LAY2 if impl == "so" else ("C",)
    dts = tuple(DTYPES) if impl == "so" else ("f4", "f8")

    def wrapA(P, x=1):
        if not three:
            return P
        # x conformers: conformer c is the point set shifted by c/4 along z (exactly representable)
        return np.stack([P + np.array([0, 0, 0.25 * c]) for c in range(x)], axis=0)

    nstates = 0
    blocks = arg.get("blocks", ("K1", "K2", "K3", "K4"))
    k1_i, k1_k = arg.get("k1_part", (0, 1))
    # K1: every pair of subsets of size <= 2 of the table, C layout, both float widths
    subs = subsets_le2(table)
    for A in subs[k1_i::k1_k] if "K1" in blocks else ():
        for B in subs:
            nstates += 1
            for name in names:
                for dt in ("f4", "f8"):
                    kernel_case(ctx, agg, impl, src, name, wrapA(A), B, dt, "C", "C", "K1")
    # K2: every shape, window placements, every layout pair, every dtype
    nmax = 6 if thorough else 4
    xs = (1, 2, 3, 4) if thorough else (1, 2, 3)
    starts = (0, 5, 9, 13, 18) if thorough else (0, 5, 9)
    for n in range(nmax + 1) if "K2" in blocks else ():
        for m in range(nmax + 1):
            for st in starts:
                A0 = window(table, st, n)
                B = window(table, st + 3, m)
                for x in xs if three else (1,):
                    A = wrapA(A0, x)
                    nstates += 1
                    for la in lays_a:
                        for lb in lays_b:
                            for dt in dts:
                                for name in names:
                                    kernel_case(ctx, agg, impl, src, name, A, B, dt, la, lb, "K2")
    # K3: every pair of points of the 64-point alphabet in one call
    allp = ALPHABET + offset(seed)
    A = np.stack([allp[:32], allp[32:]], axis=0) if three else allp
    nstates += 1 if "K3" in blocks else 0
    for name in names if "K3" in blocks else ():
        for dt in dts:
            kernel_case(ctx, agg, impl, src, name, A, allp, dt, "C", "C", "K3")
    # K5: read-only input arrays (a kernel that writes into its input fails here, and so does one that demands writeable buffers)
    for n, m, st in ((1, 1, 0), (2, 3, 4), (4, 2, 9)) if "K3" in blocks else ():
        A = wrapA(window(table, st, n), 2)
        B = window(table, st + 5, m)
        nstates += 1
        for name in names:
            for dt in dts:
                kernel_case(ctx, agg, impl, src, name, A, B, dt, "C", "C", "K5")
    # K4: coordinates that are not exactly representable (float32 and float64 round them differently)
    it = inexact_table(seed, tsize)
    for n, m in ((1, 1), (3, 2), (2, 4)) if "K4" in blocks else ():
        for st in starts:
            A = wrapA(window(it, st, n), 2)
            B = window(it, st + 4, m)
            nstates += 1
            for name in names:
                for dt in ("f4", "f8", "f4+f8") if impl == "so" else ("f4", "f8"):
                    kernel_case(ctx, agg, impl, src, name, A, B, dt, "C", "C", "K4")
    ctx.count(states=nstates)


# =================================================================================================
# D1 : rectangular_grid
# =================================================================================================
def F(x):
    return Fraction(str(x))


def is_dyadic(fr: Fraction):
    d = fr.denominator
    return d & (d - 1) == 0


def grid_axis_class(l1, l2, pad, sp):
    """per axis: ('general'|'exact-multiple'|'decimal-multiple'|'skip', allowed point counts)"""
    E = (F(l2) + F(pad)) - (F(l1) - F(pad))
    q = E / F(sp)
    k = q.numerator // q.denominator
    if q == k:
        if all(is_dyadic(F(v)) for v in (l1, l2, pad, sp)):
            return "exact-multiple", (k + 1,)
        # the decimal values are a multiple, their binary images are not: the text cannot decide
        return "decimal-multiple", (k, k + 1)
    frac = float(q - k)
    if min(frac, 1 - frac) < 1e-3:
        return "skip", ()
    return "general", (k + 1,)


def check_grid(r1, r2, pad, sp, dtype, got):
    """-> (symptom | None, detail)"""
    if not isinstance(got, np.ndarray) or got.ndim != 2 or got.shape[1] != 3:
        return "malformed-result", f"returned {type(got).__name__} of shape {getattr(got, 'shape', None)}"
    if got.dtype.kind != "f":
        return "malformed-result", f"dtype {got.dtype}"
    if got.dtype != np.dtype(dtype):
        return "result-dtype-differs-from-requested", f"dtype={dtype!r} was requested, the grid has dtype {got.dtype}"
    g = got.astype(np.float64)
    M = max(1.0, max(abs(float(v)) for v in list(r1) + list(r2)) + pad)
    tol = 2 * ULPS * EPS[np.dtype(dtype).itemsize] * M  # the precision that was asked for
    ks = []
    counts = []
    for ax in range(3):
        cls, allowed = grid_axis_class(r1[ax], r2[ax], pad, sp)
        l = float(F(r1[ax]) - F(pad))
        r = float(F(r2[ax]) + F(pad))
        v = g[:, ax]
        if v.size == 0:
            return "wrong-number-of-points", "no points at all"
        if v.min() < l - tol or v.max() > r + tol:
            return "outside-the-padded-box", f"axis {ax}: points span [{v.min()}, {v.max()}], box [{l}, {r}]"
        distinct = np.unique(np.round((v - v.min()) / max(sp, 1e-300) * 64) / 64)  # clusters much finer than the spacing
        fit = None
        for n in allowed:
            x0 = (l + r) / 2 - (n - 1) * sp / 2
            k = np.rint((v - x0) / sp)
            if np.all(np.abs(v - (x0 + k * sp)) <= tol) and k.min() >= 0 and k.max() <= n - 1:
                fit = (n, k.astype(int))
                break
        if fit is None:
            nobs = len(distinct)
            if nobs not in allowed:
                return "wrong-number-of-points", f"axis {ax}: {nobs} distinct coordinates, the box [{l}, {r}] holds {' or '.join(map(str, allowed))} at spacing {sp}"
            if nobs > 1:
                dv = np.diff(np.sort(np.unique(np.round(v, 9))))
                if np.any(np.abs(dv - sp) > 2 * tol):
                    return "wrong-spacing", f"axis {ax}: consecutive coordinates differ by {dv.tolist()[:4]}, requested {sp}"
            if abs((v.min() + v.max()) / 2 - (l + r) / 2) > tol:
                return "not-centred", f"axis {ax}: lattice centre {(v.min() + v.max()) / 2}, box centre {(l + r) / 2}"
            return "wrong-coordinates", f"axis {ax}: coordinates {np.unique(v).tolist()[:6]} are not the centred lattice"
        ks.append(fit[1])
        counts.append(fit[0])
    N = counts[0] * counts[1] * counts[2]
    triples = set(zip(ks[0].tolist(), ks[1].tolist(), ks[2].tolist()))
    if len(g) != N or len(triples) != N:
        return "lattice-incomplete-or-repeated", f"{len(g)} rows, {len(triples)} distinct lattice points, full lattice {counts[0]}x{counts[1]}x{counts[2]} = {N}"
    return None, counts


ARG_KINDS = ("list", "tuple", "ndarray-exact-dtype", "ndarray-other-dtype", "non-contiguous-view", "read-only")


def make_corner(values, kind, dtype):
    """the same three numbers as the kind of object a caller may hand in -> (object, python source)"""
    vals = [float(v) for v in values]
    other = "float64" if dtype == "float32" else "float32"
    if kind == "list":
        return list(vals), repr(vals)
    if kind == "tuple":
        return tuple(vals), repr(tuple(vals))
    if kind == "ndarray-exact-dtype":
        return np.array(vals, dtype=dtype), f"np.array({vals!r}, dtype=np.{dtype})"
    if kind == "ndarray-other-dtype":
        return np.array(vals, dtype=other), f"np.array({vals!r}, dtype=np.{other})"
    if kind == "non-contiguous-view":
        big = np.full(6, 77, dtype=dtype)
        big[::2] = vals
        return big[::2], f"np.array({[x for v in vals for x in (v, 77.0)]!r}, dtype=np.{dtype})[::2]"
    if kind == "read-only":
        a = np.array(vals, dtype=dtype)
        a.setflags(write=False)
        return a, f"_ro(np.array({vals!r}, dtype=np.{dtype}))"
    raise HarnessError(kind)


def snapshot(x):
    if isinstance(x, np.ndarray):
        base = x.base if isinstance(x.base, np.ndarray) else None
        return ("a", x.dtype.str, x.shape, x.tobytes(), None if base is None else base.tobytes())
    return ("o", repr(x))


def same_as_snapshot(x, snap):
    return snapshot(x) == snap


def same_result(r1, r2):
    if isinstance(r1, np.ndarray) and isinstance(r2, np.ndarray):
        return r1.shape == r2.shape and r1.dtype == r2.dtype and bool(np.array_equal(r1, r2, equal_nan=r1.dtype.kind == "f"))
    return type(r1) is type(r2) and r1 == r2


def scribble(arr):
    """what a caller may do with an array it was handed: change it in place.  -> False when it cannot be written"""
    if not isinstance(arr, np.ndarray) or not arr.flags.writeable or arr.size == 0:
        return False
    if arr.dtype.kind == "f":
        arr *= -3.0
        arr += 11.5
    elif arr.dtype.kind in "iu":
        arr[...] = -7 if arr.dtype.kind == "i" else 7
    elif arr.dtype.kind == "b":
        np.logical_not(arr, out=arr)
    else:
        return False
    return True


def owned_verdict(first, snap, again, what):
    """first: the array returned by the first call (scribbled on meanwhile); snap: its copy as returned; again: the result of
    an equal call.  -> (symptom, detail) or (None, None)"""
    if isinstance(again, np.ndarray) and isinstance(first, np.ndarray) and (again is first or np.shares_memory(again, first)):
        return "result-not-caller-owned", f"{what} returned an array that shares memory with the array returned before (which the caller had changed in place meanwhile)"
    if not same_result(snap, again):
        if isinstance(first, np.ndarray) and same_result(first, again):
            return "result-not-caller-owned", f"{what} returned the values the caller had written into the earlier result"
        return "repeated-call-differs", f"{what} returned a different result than the first call"
    return None, None


def grid_case(ctx, agg, r1, r2, pad, sp, dtype, argkind="list"):
    o1, src1 = make_corner(r1, argkind, dtype)
    o2, src2 = make_corner(r2, argkind, dtype)
    if argkind == "ndarray-other-dtype" and dtype == "float64":
        # float32 corners given to a float64 request: the box is the one the float32 numbers describe
        r1 = tuple(float(x) for x in o1)
        r2 = tuple(float(x) for x in o2)
    classes = [grid_axis_class(r1[ax], r2[ax], pad, sp)[0] for ax in range(3)]
    if "skip" in classes:
        return
    cls = "decimal-multiple" if "decimal-multiple" in classes else ("exact-multiple" if "exact-multiple" in classes else "general")
    op = "rectangular_grid"
    attrs = {"dtype": dtype, "extent": cls, "padding": "zero" if pad == 0 else "nonzero", "argkind": argkind}
    agg.tick(op, **attrs)
    case = {"kind": "grid", "op": op, "r1": list(r1), "r2": list(r2), "pad": pad, "sp": sp, "dtype": dtype, "argkind": argkind}
    repro = (
        "import numpy as np\nfrom molli.descriptor.gridbased import rectangular_grid\n"
        "def _ro(a):\n    a.setflags(write=False)\n    return a\n"
        f"r1 = {src1}\nr2 = {src2}\n"
        f"g = rectangular_grid(r1, r2, padding={pad!r}, spacing={sp!r}, dtype={dtype!r})\nprint(g.shape, g.min(axis=0), g.max(axis=0)); print(r1, r2)\n"
        f"g = rectangular_grid(r1, r2, padding={pad!r}, spacing={sp!r}, dtype={dtype!r})\nprint(g.shape, g.min(axis=0), g.max(axis=0)); print(r1, r2)"
    )
    ctx.count(evaluations=1, traces=1, transitions=1, states=1)
    s1, s2 = snapshot(o1), snapshot(o2)
    got = None
    try:
        got = gb.rectangular_grid(o1, o2, padding=pad, spacing=sp, dtype=dtype)
    except Exception as e:
        sym, det = f"raised-{type(e).__name__}", f"raised {type(e).__name__}: {e}"
    else:
        sym, det = check_grid(r1, r2, pad, sp, dtype, got)
    if not sym:
        changed = [n for n, o, sn in (("r1", o1, s1), ("r2", o2, s2)) if not same_as_snapshot(o, sn)]
        if changed:
            sym, det = f"caller-input-mutated[{'+'.join(changed)}]", f"the caller's {' and '.join(changed)} changed during the call: now r1={np.asarray(o1).tolist()}, r2={np.asarray(o2).tolist()}"
    if not sym:
        # the result belongs to the caller, and the call does not depend on history: the caller changes the returned grid in
        # place, then asks again - with the same corner objects, and with equal corners handed in as another kind of object
        counts0 = det
        snap = got.copy()
        scribble(got)
        other_kind = ARG_KINDS[(ARG_KINDS.index(argkind) + 1 + (len(r1) and int(abs(r1[0]) * 4)) % 3) % len(ARG_KINDS)]
        p1, _ = make_corner(r1 if not (argkind == "ndarray-other-dtype" and dtype == "float64") else [float(x) for x in o1], other_kind, dtype)
        p2, _ = make_corner(r2 if not (argkind == "ndarray-other-dtype" and dtype == "float64") else [float(x) for x in o2], other_kind, dtype)
        for what, a1, a2 in (("the same call with the same corner objects", o1, o2), (f"an equal call with the corners as {other_kind}", p1, p2)):
            if other_kind == "ndarray-other-dtype" and a1 is p1:
                continue  # the other float width describes a (slightly) different box
            ctx.count(evaluations=1, traces=1, transitions=1)
            try:
                again = gb.rectangular_grid(a1, a2, padding=pad, spacing=sp, dtype=dtype)
            except Exception as e:
                sym, det = f"repeated-call-raised-{type(e).__name__}", f"{what} raised {type(e).__name__}: {e}"
                break
            sym, det = owned_verdict(got, snap, again, what)
            if sym:
                break
            scribble(again)
        if not sym:
            det = counts0
            got = snap
    if sym:
        c = dict(case)
        c["symptom"] = sym
        agg.fail(op, sym, attrs, f"rectangular_grid({src1}, {src2}, padding={pad}, spacing={sp}, dtype={dtype}): {det}", c, repro)
        return
    det_counts = check_grid(r1, r2, pad, sp, dtype, got)[1] if not isinstance(det, list) else det
    if len(got) > 1:
        ctx.nontrivial(("grid", tuple(det_counts), cls, dtype, argkind))
    ctx.outcome(("grid", tuple(det_counts)))


DTYPE_SPELLINGS = (("'float32'", "float32"), ("'float64'", "float64"), ("'f4'", "f4"), ("'f8'", "f8"), ("np.float32", np.float32), ("np.float64", np.float64), ("np.dtype('f4')", np.dtype("f4")), ("np.dtype('f8')", np.dtype("f8")))


def grid_dtype_case(ctx, agg, r1, r2, pad, sp, spelling_src, spelling):
    """every way of spelling the dtype argument: the grid has that dtype and is the lattice to that precision"""
    name = np.dtype(spelling).name
    if "skip" in [grid_axis_class(r1[ax], r2[ax], pad, sp)[0] for ax in range(3)]:
        return
    op = "rectangular_grid"
    attrs = {"dtype": name, "dtype-given-as": spelling_src}
    agg.tick(op, **attrs)
    ctx.count(evaluations=1, traces=1, transitions=1, states=1)
    try:
        got = gb.rectangular_grid(list(r1), list(r2), padding=pad, spacing=sp, dtype=spelling)
    except Exception as e:
        sym, det = f"raised-{type(e).__name__}", f"raised {type(e).__name__}: {e}"
    else:
        sym, det = check_grid(r1, r2, pad, sp, name, got)
    if sym:
        case = {"kind": "grid-dtype", "op": op, "symptom": sym, "r1": list(r1), "r2": list(r2), "pad": pad, "sp": sp, "spelling": spelling_src}
        repro = f"import numpy as np\nfrom molli.descriptor.gridbased import rectangular_grid\ng = rectangular_grid({list(r1)!r}, {list(r2)!r}, padding={pad!r}, spacing={sp!r}, dtype={spelling_src})\nprint(g.dtype, g.shape, g.min(axis=0), g.max(axis=0))"
        agg.fail(op, sym, attrs, f"rectangular_grid({list(r1)}, {list(r2)}, padding={pad}, spacing={sp}, dtype={spelling_src}): {det}", case, repro)
        return
    ctx.outcome(("grid-dtype", name, tuple(det)))


def grid_menus(seed, thorough):
    corners = [(0.0, 0.0, 0.0), (-1.0, 0.0, 0.5), (-1.5, -2.0, 0.25)]
    extents = [(0.0, 0.0, 0.0), (1.3, 0.4, 2.15), (2.0, 1.0, 0.5), (0.9, 2.6, 1.7), (3.05, 0.35, 1.1), (1.5, 0.0, 3.0)]
    pads = [0.0, 0.3, 0.25]
    spacings = [0.5, 0.7, 1.0, 3.0, 0.25]
    if thorough:
        corners += [(2.0, -1.0, -0.5), (0.5, 0.5, 0.5)]
        extents += [(0.15, 5.2, 0.65), (4.0, 2.25, 0.75), (2.45, 1.55, 3.3), (0.05, 0.05, 6.1)]
        pads += [1.1, 0.5]
        spacings += [0.3, 1.25, 0.9]
    r = seed % len(corners)
    corners = corners[r:] + corners[:r]
    off = [float(x) for x in offset(seed)]
    corners = [tuple(float(F(c[i]) + F(off[i])) for i in range(3)) for c in corners]
    return corners, extents, pads, spacings


def grid_job(ctx, agg, arg):
    corners, extents, pads, spacings = grid_menus(arg["seed"], arg["thorough"])
    for r1 in corners:
        for ex in extents[:4]:
            r2 = tuple(float(F(r1[i]) + F(ex[i])) for i in range(3))
            for pad in (0, 0.0, 0.3):  # the integer 0 and the float 0.0 are both 'no padding'
                for sp in (spacings[1], spacings[2]):
                    for src, spelling in DTYPE_SPELLINGS:
                        grid_dtype_case(ctx, agg, r1, r2, pad, sp, src, spelling)
    for r1 in corners:
        for ex in extents:
            r2 = tuple(float(F(r1[i]) + F(ex[i])) for i in range(3))
            for pad in pads:
                for sp in spacings:
                    for dtype in ("float32", "float64"):
                        grid_case(ctx, agg, r1, r2, pad, sp, dtype)
                        # the kind of object the caller hands in (sub-menu of spacings; every corner, extent, padding, dtype)
                        if sp in (spacings[1], spacings[2]) or arg["thorough"]:
                            for kind in ARG_KINDS[1:]:
                                grid_case(ctx, agg, r1, r2, pad, sp, dtype, kind)


# =================================================================================================
# D2/D3 : nearest_atom_index, prune, aso, aeif, atomic_indicator_field
# =================================================================================================
VDW_ELEMENTS = ("H", "C", "Cl", "O")
MAX_DISTS = (0.5, 1.0, 2.0, 3.5)
PRUNE_EPS = (0.0, 0.5, 2.0)


def own_lattice(lo, hi, sp, dtype):
    axes = [np.arange(lo[i], hi[i] + 1e-9, sp) for i in range(3)]
    g = np.array(list(itertools.product(*axes)), dtype=np.float64).reshape(-1, 3)
    return g.astype(dtype)


def grids_for(seed, thorough):
    off = offset(seed)
    lo = np.array([-2.3, -1.9, -2.1]) + off
    hi = np.array([3.2, 3.0, 3.4]) + off
    out = {
        "lattice-f4": own_lattice(lo, hi, 1.1 if not thorough else 0.8, np.float32),
        "lattice-f8": own_lattice(lo + 0.35, hi, 1.3 if not thorough else 0.9, np.float64),
        # the atoms' own alphabet as grid points: distance 0 and many points exactly on a cut-off (excluded by the band)
        "alphabet-f4": (ALPHABET + off).astype(np.float32),
    }
    return out


def ensembles_for(seed, thorough):
    """(label, elements, coords[nc,na,3], charges[nc,na], weights[nc])"""
    table = point_table(seed, 24 if thorough else 12)
    T = len(table)
    out = []
    strides = (1, 5, 7) if thorough else (1, 5)
    for nc in (1, 2, 3):
        for na in (1, 2, 3):
            for st in range(T):
                for stride in strides:
                    idx = [[(st + c * stride + a * (c + 1)) % T for a in range(na)] for c in range(nc)]
                    # distinct atoms inside one conformer
                    if any(len(set(row)) != na for row in idx):
                        continue
                    coords = table[np.array(idx)]
                    els = tuple(VDW_ELEMENTS[(st + a + seed) % len(VDW_ELEMENTS)] for a in range(na))
                    charges = np.array([[(-1) ** (a + c) * 0.25 * (a + 1) + 0.125 * c for a in range(na)] for c in range(nc)])
                    weights = np.array([1.0, 2.0, 0.5][:nc])
                    out.append((f"ens{nc}x{na}", els, coords, charges, weights))
    return out


def make_ens(els, coords, charges, weights):
    nc, na = coords.shape[:2]
    ens = ml.ConformerEnsemble(n_conformers=nc, n_atoms=na, coords=np.array(coords, dtype=np.float64), weights=np.array(weights, dtype=np.float64), atomic_charges=np.array(charges, dtype=np.float64))
    for a, e in zip(ens.atoms, els):
        a.element = ml.Element[e]
    return ens


def make_struct(kind, els, coords):
    na = coords.shape[0]
    if kind == "Molecule":
        s = ml.Molecule(n_atoms=na, coords=np.array(coords, dtype=np.float64))
    elif kind == "CartesianGeometry":
        s = ml.CartesianGeometry(n_atoms=na, coords=np.array(coords, dtype=np.float64))
    elif kind == "Structure":
        s = ml.Structure(n_atoms=na, coords=np.array(coords, dtype=np.float64))
    elif kind == "Conformer":
        e = make_ens(els, coords[None, :, :], np.zeros((1, na)), np.ones(1))
        return e[0]
    else:
        raise HarnessError(kind)
    for a, e in zip(s.atoms, els):
        a.element = ml.Element[e]
    return s


def repro_ens(els, coords, charges, weights):
    return (
        "import numpy as np, molli as ml\nfrom molli.descriptor import gridbased as gb\n"
        f"ens = ml.ConformerEnsemble(n_conformers={coords.shape[0]}, n_atoms={coords.shape[1]}, coords=np.array({coords.tolist()!r}), weights={list(map(float, weights))!r}, atomic_charges={charges.tolist()!r})\n"
        f"for a, e in zip(ens.atoms, {list(els)!r}): a.element = ml.Element[e]\n"
    )


def dist_all(coords, grid):
    """float64 distances [nc, na, ng]"""
    c = np.asarray(coords, dtype=np.float64)
    g = np.asarray(grid, dtype=np.float64)
    d = c[:, :, None, :] - g[None, None, :, :]
    return np.sqrt((d * d).sum(-1))


def check_nearest(got, d, max_dist, band):
    """got [ng] ints, d [na, ng]; -> (symptom|None, detail, n_checked)"""
    ng = d.shape[1]
    if not isinstance(got, np.ndarray) or got.shape != (ng,) or got.dtype.kind not in "iu":
        return "malformed-result", f"returned {type(got).__name__} {getattr(got, 'shape', None)} {getattr(got, 'dtype', None)}", 0
    dmin = d.min(axis=0)
    nchk = 0
    for g in range(ng):
        k = int(got[g])
        if abs(dmin[g] - max_dist) <= band:
            continue  # on the cut-off within rounding: either answer
        nchk += 1
        if dmin[g] > max_dist:
            if k != -1:
                return "cutoff-not-honoured", f"grid point {g}: closest atom at {dmin[g]:.6g} > max_dist={max_dist}, but index {k} returned instead of -1", nchk
        else:
            if k == -1:
                return "cutoff-not-honoured", f"grid point {g}: closest atom at {dmin[g]:.6g} <= max_dist={max_dist}, but -1 returned", nchk
            if k < 0 or k >= d.shape[0]:
                return "index-out-of-range", f"grid point {g}: index {k}", nchk
            if d[k, g] > dmin[g] + band:
                return "not-the-closest-atom", f"grid point {g}: atom {k} at {d[k, g]:.6g}, closest atom {int(d[:, g].argmin())} at {dmin[g]:.6g}", nchk
    return None, None, nchk


def _inputs_changed(grid, grid_snap, obj, coords, charges=None, weights=None):
    """which caller-owned inputs differ from what was handed in ('' when none): the grid array and the object's arrays"""
    out = []
    if not (grid.dtype == grid_snap.dtype and grid.shape == grid_snap.shape and np.array_equal(grid, grid_snap)):
        out.append("grid")
    try:
        if not np.array_equal(np.asarray(obj.coords, dtype=np.float64), np.asarray(coords, dtype=np.float64)):
            out.append("coords")
        if charges is not None and not np.array_equal(np.asarray(obj.atomic_charges, dtype=np.float64), np.asarray(charges, dtype=np.float64)):
            out.append("atomic_charges")
        if weights is not None and not np.array_equal(np.asarray(obj.weights, dtype=np.float64), np.asarray(weights, dtype=np.float64)):
            out.append("weights")
    except Exception:
        out.append("object-state-unreadable")
    return "+".join(out)


def nearest_prune_case(ctx, agg, label, kind, els, coords, charges, weights, gname, grid):
    """kind: 'ensemble' or a single-geometry class name (then coords is [1,na,3])"""
    grid_snap = grid.copy()
    M = max(1.0, float(np.abs(coords).max()), float(np.abs(grid).max()))
    band = BAND * M
    d = dist_all(coords, grid)  # nc, na, ng
    if kind == "ensemble":
        obj = make_ens(els, coords, charges, weights)
        rep_obj = repro_ens(els, coords, charges, weights) + "obj = ens\n"
    else:
        obj = make_struct(kind, els, coords[0])
        if kind == "Conformer":
            rep_obj = repro_ens(els, coords, np.zeros((1, coords.shape[1])), np.ones(1)) + "obj = ens[0]\n"
        else:
            rep_obj = f"import numpy as np, molli as ml\nfrom molli.descriptor import gridbased as gb\nobj = ml.{kind}(n_atoms={coords.shape[1]}, coords=np.array({coords[0].tolist()!r}))\n"
    rep_grid = f"grid = np.array({np.asarray(grid).tolist()!r}, dtype=np.{grid.dtype.name})\n"
    base = {"kind": "nearest_prune", "label": label, "input": kind, "els": list(els), "coords": coords.tolist(), "charges": np.asarray(charges).tolist(), "weights": np.asarray(weights).tolist(), "gname": gname, "grid": np.asarray(grid).tolist(), "gdtype": grid.dtype.name}
    ctx.count(states=1)
    for md in MAX_DISTS:
        # ---- nearest_atom_index ------------------------------------------------------------------
        op = "nearest_atom_index"
        attrs = {"input": kind, "max_dist": md}
        agg.tick(op, **attrs)
        ctx.count(evaluations=1, traces=1, transitions=1)
        case = dict(base, op=op, max_dist=md)
        repro = rep_obj + rep_grid + f"print(gb.nearest_atom_index(grid, obj, max_dist={md}))"
        sym = det = None
        try:
            got = gb.nearest_atom_index(grid, obj, max_dist=md)
        except Exception as e:
            sym, det = f"raised-{type(e).__name__}", f"raised {type(e).__name__}: {e}"
        else:
            mut = _inputs_changed(grid, grid_snap, obj, coords if kind == "ensemble" else coords[0])
            if mut:
                sym, det = f"caller-input-mutated[{mut}]", f"the caller's {mut} changed during the call"
        if not sym:
            if kind == "ensemble":
                if not isinstance(got, np.ndarray) or got.shape != (coords.shape[0], len(grid)):
                    sym, det = "malformed-result", f"returned shape {getattr(got, 'shape', None)}, expected (n_conformers, n_gridpoints)"
                else:
                    for c in range(coords.shape[0]):
                        sym, det, _ = check_nearest(got[c], d[c], md, band)
                        if sym:
                            det = f"conformer {c}: {det}"
                            break
            else:
                sym, det, _ = check_nearest(got, d[0], md, band)
            if not sym:
                flat = np.asarray(got).ravel()
                if (flat == -1).any() and (flat >= 0).any():
                    ctx.nontrivial((op, label, kind, md, gname))
                ctx.outcome((op, zlib.crc32(flat.astype(np.int64).tobytes()) % 2048))
        if sym:
            agg.fail(op, sym, attrs, f"nearest_atom_index(grid {gname}, {kind} {label}, max_dist={md}): {det}", dict(case, symptom=sym), repro)
        # ---- prune ----------------------------------------------------------------------------
        op = "prune"
        dmin = d.min(axis=(0, 1))
        for eps in PRUNE_EPS:
            attrs = {"input": kind, "max_dist": md, "eps": eps}
            agg.tick(op, **attrs)
            ctx.count(evaluations=1, traces=1, transitions=1)
            case = dict(base, op=op, max_dist=md, eps=eps)
            repro = rep_obj + rep_grid + f"print(gb.prune(grid, obj, max_dist={md}, eps={eps}))"
            sym = det = None
            try:
                got = gb.prune(grid, obj, max_dist=md, eps=eps)
            except Exception as e:
                sym, det = f"raised-{type(e).__name__}", f"raised {type(e).__name__}: {e}"
            else:
                mut = _inputs_changed(grid, grid_snap, obj, coords if kind == "ensemble" else coords[0])
                if mut:
                    sym, det = f"caller-input-mutated[{mut}]", f"the caller's {mut} changed during the call"
                elif not isinstance(got, np.ndarray) or got.ndim != 1 or got.dtype.kind not in "iu" or (got.size and (got.min() < 0 or got.max() >= len(grid))):
                    sym, det = "malformed-result", f"returned {type(got).__name__} {getattr(got, 'shape', None)} {getattr(got, 'dtype', None)}"
                else:
                    kept = set(int(x) for x in got)
                    far = [g for g in sorted(kept) if dmin[g] > md + band]
                    inner = md / (1.0 + eps)
                    lost = [g for g in range(len(grid)) if dmin[g] < inner - band and g not in kept]
                    if far:
                        sym, det = "kept-a-point-beyond-the-cutoff", f"kept grid point {far[0]} whose closest atom is at {dmin[far[0]]:.6g} > {md}"
                    elif lost:
                        sym, det = "dropped-a-point-inside-cutoff/(1+eps)", f"dropped grid point {lost[0]} whose closest atom is at {dmin[lost[0]]:.6g} < {md}/(1+{eps}) = {inner:.6g}"
                    else:
                        if 0 < len(kept) < len(grid):
                            ctx.nontrivial((op, label, kind, md, eps, gname))
                        ctx.outcome((op, zlib.crc32(np.sort(got).astype(np.int64).tobytes()) % 2048))
            if sym:
                agg.fail(op, sym, attrs, f"prune(grid {gname}, {kind} {label}, max_dist={md}, eps={eps}): {det}", dict(case, symptom=sym), repro)


def ref_indicator(d, radii, values, weights, band):
    """d [nc,na,ng]; radii [na]; values [nc,na] or None (occupancy).
    -> (expected [ng], comparable mask [ng]) following the property text:
       occupancy: 1 inside the union of the spheres of a conformer, else 0
       charge   : value of the NEAREST atom inside the union of the spheres, else 0
    A grid point is not comparable when some distance is within the rounding band of a sphere surface,
    when the nearest atom is not unique (within the band) with different values, or when 'nearest atom'
    and 'nearest atom among the spheres containing the point' would give different values."""
    nc, na, ng = d.shape
    r = np.asarray(radii, dtype=np.float64)[None, :, None]
    near_surface = (np.abs(d - r) <= band).any(axis=(0, 1))
    inside = (d <= r).any(axis=1)  # nc, ng
    ok = ~near_surface
    if values is None:
        per = inside.astype(np.float64)
    else:
        v = np.asarray(values, dtype=np.float64)
        per = np.zeros((nc, ng))
        for c in range(nc):
            for g in range(ng):
                if not inside[c, g]:
                    continue
                dc = d[c, :, g]
                k = int(dc.argmin())
                tied = [a for a in range(na) if dc[a] <= dc[k] + band]
                if len({float(v[c, a]) for a in tied}) > 1:
                    ok[g] = False
                cont = [a for a in range(na) if dc[a] <= r[0, a, 0]]
                k2 = min(cont, key=lambda a: dc[a])
                if float(v[c, k2]) != float(v[c, k]):
                    ok[g] = False
                per[c, g] = v[c, k]
    w = np.ones(nc) if weights is None else np.asarray(weights, dtype=np.float64)
    return (per * w[:, None]).sum(axis=0) / w.sum(), ok


def field_case(ctx, agg, label, els, coords, charges, weights, gname, grid):
    M = max(1.0, float(np.abs(coords).max()), float(np.abs(grid).max()))
    band = BAND * M
    d = dist_all(coords, grid)
    ens = make_ens(els, coords, charges, weights)
    vdw = np.array([a.vdw_radius for a in ens.atoms], dtype=np.float64)  # the spheres are input data
    rep = repro_ens(els, coords, charges, weights) + f"grid = np.array({np.asarray(grid).tolist()!r}, dtype=np.{grid.dtype.name})\n"
    base = {"kind": "field", "label": label, "els": list(els), "coords": coords.tolist(), "charges": np.asarray(charges).tolist(), "weights": np.asarray(weights).tolist(), "gname": gname, "grid": np.asarray(grid).tolist(), "gdtype": grid.dtype.name}
    ctx.count(states=1)
    custom_r = np.array([0.9, 2.05, 1.3][: coords.shape[1]])
    custom_v = np.array([[1.0 + a + 10.0 * c for a in range(coords.shape[1])] for c in range(coords.shape[0])])
    nc = coords.shape[0]
    custom_v0, custom_r0 = custom_v.copy(), custom_r.copy()
    grid_snap = grid.copy()
    for weighted in (False, True):
        calls = [
            ("aso", None, vdw, lambda: gb.aso(ens, grid, weighted=weighted), f"print(gb.aso(ens, grid, weighted={weighted}))"),
            ("aeif", charges, vdw, lambda: gb.aeif(ens, grid, weighted=weighted), f"print(gb.aeif(ens, grid, weighted={weighted}))"),
            (
                "atomic_indicator_field",
                custom_v,
                custom_r,
                lambda: gb.atomic_indicator_field(ens, grid, custom_v, custom_r, weighted=weighted),
                f"print(gb.atomic_indicator_field(ens, grid, np.array({custom_v.tolist()!r}), np.array({custom_r.tolist()!r}), weighted={weighted}))",
            ),
        ]
        for op, vals, radii, fn, line in calls:
            attrs = {"weighted": weighted, "conformers": "one" if nc == 1 else "several", "grid": grid.dtype.name}
            agg.tick(op, **attrs)
            ctx.count(evaluations=1, traces=1, transitions=1)
            case = dict(base, op=op, weighted=weighted)
            sym = det = None
            try:
                got = fn()
            except Exception as e:
                sym, det = f"raised-{type(e).__name__}", f"raised {type(e).__name__}: {e}"
            else:
                exp, ok = ref_indicator(d, radii, vals, weights if weighted else None, band)
                mut = _inputs_changed(grid, grid_snap, ens, coords, charges, weights)
                if not mut and not (np.array_equal(custom_v, custom_v0) and np.array_equal(custom_r, custom_r0)):
                    mut = "indicator_values/atomic_radii"
                if mut:
                    sym, det = f"caller-input-mutated[{mut}]", f"the caller's {mut} changed during the call"
                elif not isinstance(got, np.ndarray) or got.shape != exp.shape or got.dtype.kind != "f":
                    sym, det = "malformed-result", f"returned {type(got).__name__} {getattr(got, 'shape', None)} {getattr(got, 'dtype', None)}, expected one float per grid point"
                else:
                    err = np.abs(got.astype(np.float64) - exp)
                    bad = ok & ~(err <= 1e-9 * max(1.0, float(np.abs(exp).max(initial=0.0))))
                    ctx.add_note(f"{op}_gridpoints_compared", int(ok.sum()))
                    ctx.add_note(f"{op}_gridpoints_excluded_band_or_ambiguous", int((~ok).sum()))
                    if bad.any():
                        g = int(np.argmax(bad))
                        inside_any = bool((d[:, :, g] <= np.asarray(radii)[None, :]).any())
                        sym = "wrong-value-inside-spheres" if inside_any else "wrong-value-outside-spheres"
                        det = f"grid point {g} {np.asarray(grid)[g].tolist()}: returned {got[g]!r}, definition gives {exp[g]!r}"
                    else:
                        e2 = exp[ok]
                        if e2.size and (e2 != 0).any() and (e2 == 0).any():
                            ctx.nontrivial((op, label, weighted, gname))
                        ctx.outcome((op, zlib.crc32(np.round(e2, 9).tobytes()) % 2048))
            if sym:
                agg.fail(op, sym, attrs, f"{op}({label} {''.join(els)}, grid {gname}, weighted={weighted}): {det}", dict(case, symptom=sym), rep + line)


def descriptor_job(ctx, agg, arg):
    seed, thorough, lo, hi, what = arg["seed"], arg["thorough"], arg["lo"], arg["hi"], arg["what"]
    grids = grids_for(seed, thorough)
    enss = ensembles_for(seed, thorough)[lo:hi]
    for label, els, coords, charges, weights in enss:
        for gname in sorted(grids):
            grid = grids[gname]
            if what == "nearest":
                nearest_prune_case(ctx, agg, label, "ensemble", els, coords, charges, weights, gname, grid)
                if coords.shape[0] == 1:
                    for kind in ("Molecule", "CartesianGeometry", "Structure", "Conformer"):
                        nearest_prune_case(ctx, agg, label, kind, els, coords, charges, weights, gname, grid)
            else:
                field_case(ctx, agg, label, els, coords, charges, weights, gname, grid)


# =================================================================================================
def run(ctx):
    seed, thorough = ctx.seed, ctx.thorough
    ctx.rule = (
        "every point of the stated lattices: kernels - all pairs of subsets (size <= 2) of a point table from {-1,0,0.5,2}^3, all shapes "
        "(n,3)x(m,3) / (x,n,3)x(m,3) up to the bound x 4 dtypes x layouts, every pair of the 64 alphabet points, and non-representable "
        "coordinates, through the shipped .so and through distance.cpp compiled from the current tree; descriptors - the product of the "
        "corner/extent/padding/spacing/dtype menus, and ensembles of 1..3 conformers x 1..3 atoms x 3 grids x cut-off/eps/weighted menus. "
        "History dimension: every ordered pair of descriptor functions on the SAME ensemble / geometry with every in-place edit between the two calls "
        "(element, coordinates, charges, weights, append/extend, scale, translate, del/add atom, the grid array mutated in place), 3-call sequences over reduced menus, "
        "and kernels called again on the same array objects after in-place mutation; every result is compared with the definition on the object's current state. "
        "Non-trivial: kernel result with a non-zero distance (per function/shape/dtype/layout class), grid with > 1 point, nearest/prune "
        "answer that is mixed (some -1 / dropped, some not), field with zero and non-zero values among the compared points. The result "
        "says nothing about values outside these lattices."
    )
    ctx.assumptions += [
        f"tolerance: {ULPS} ulp of the promised precision scaled by max(|result|, coordinate magnitude (squared for squared distances)); promised precision = "
        "float32 for the *f_ names, float64 for the *d_ names, the input width for the overloaded names (int and mixed input: float32)",
        "kernels are only given (n,3)/(x,n,3) arrays; other trailing dimensions are outside the property",
        "src implementation: the conversion pybind11 performs (c_style | forcecast) is done by the harness, so layouts/dtype dispatch are only visible through the shipped .so",
        "rectangular_grid: the order of the rows is not constrained; the grid has the requested dtype (however it is spelled) and is the lattice to THAT precision; per axis the lattice has floor(extent/spacing)+1 points, centred; "
        "extent/spacing stays >= 1e-3 away from an integer, except (a) exact multiples of exactly representable (dyadic) numbers, where the count is decided "
        "in rational arithmetic and demanded, and (b) decimal multiples whose binary images are not multiples (e.g. padding 0.3), where both k and k+1 points are accepted",
        f"cut-offs and sphere surfaces: a grid point closer than {BAND:g} x max(1, coordinate magnitude) to the surface / cut-off is not compared (float32 rounding band)",
        "nearest atom: any atom within the band of the minimum distance is accepted",
        "aeif / atomic_indicator_field: value of the nearest atom when the point lies inside any sphere of the conformer, else 0; grid points where "
        "'nearest atom' and 'nearest atom among the spheres containing the point' differ in value are not compared (the text does not choose)",
        "van der Waals radii are read from Atom.vdw_radius (input data of the definition)",
        "an explicit 0 / 0.0 for an optional numeric argument (padding, max_dist, eps) is that value: prune(eps=0) keeps every point within max_dist and nothing beyond; "
        "max_dist=0 keeps / names only points that coincide with an atom (those are inside the rounding band and not compared; everything else must be dropped / -1)",
        "caller-supplied nearest_atom_idx tables (cut-offs below / at / above the largest radius, nearly all and all -1): per conformer and grid point the value of the "
        "table's atom when the entry is >= 0 and the point is inside some sphere, otherwise 0; -1 means 'no atom'",
        "argument kinds: rectangular_grid corners as list / tuple / ndarray of the requested dtype / of the other float dtype / non-contiguous view / read-only array; "
        "grids (and value/radius/index arrays) for the descriptors and kernel inputs as C / Fortran / sliced / read-only ndarrays of both float widths (lists are only "
        "given where the signature says ArrayLike). After every call every caller-owned array must be bit-identical to its snapshot, and the same call repeated on the "
        "same caller objects must return the same result; a read-only input must not make a call fail",
        "history sequences: the reference is evaluated on the state read back from the object after each edit (coords, charges, weights, elements); a sequence whose edit raises "
        "or leaves the object non-rectangular is stopped and counted in the notes (that is C14/C05 matter, not C19)",
    ]
    lib = compile_src(ctx.scratch)
    ctx.note("src_kernel_build", f"g++ -std=c++17 -O1 -shared -fPIC {REPO}/molli_xt/distance.cpp {REPO}/molli_xt/_molli_xt.cpp + /verif/shim")
    so_path = Path(molli_xt.__file__).resolve()
    ctx.note("shipped_extension", str(so_path.name))
    ctx.note("shipped_extension_inside_tree_under_test", str(so_path).startswith(str(REPO.resolve())))

    agg = Agg()
    jobs = []
    for impl in ("so", "src"):
        for fam in ("cdist22", "cdist32"):
            base = {"impl": impl, "fam": fam, "seed": seed, "thorough": thorough, "lib": str(lib)}
            k = 4 if thorough else 1
            for i in range(k):
                jobs.append((f"kernel[{impl}]:{fam}", kernel_job, dict(base, blocks=("K1",), k1_part=(i, k))))
            jobs.append((f"kernel[{impl}]:{fam}", kernel_job, dict(base, blocks=("K2", "K3", "K4"))))
    jobs.append(("samples", samples_job, {"seed": seed, "thorough": thorough, "lib": str(lib)}))
    jobs.append(("rectangular_grid", grid_job, {"seed": seed, "thorough": thorough}))
    nens = len(ensembles_for(seed, thorough))
    nchunk = 12 if thorough else 3
    step = (nens + nchunk - 1) // nchunk
    for what in ("nearest", "field"):
        for lo in range(0, nens, step):
            jobs.append((f"descriptors:{what}", descriptor_job, {"seed": seed, "thorough": thorough, "lo": lo, "hi": min(nens, lo + step), "what": what}))
    # history dimension: 2..3 calls on the same object with an in-place edit in between (mc/props/c19_history.py)
    from mc.props import c19_history as hist

    nb = len(hist.history_bases(seed, thorough))
    for impl in ("so", "src"):
        jobs.append((f"kernel-history[{impl}]", hist.kernel_history_job, {"impl": impl, "seed": seed, "thorough": thorough, "lib": str(lib)}))
    for lo in range(0, nb, 1 if thorough else 2):
        jobs.append(("history:ens2", hist.descriptor_history_job, {"seed": seed, "thorough": thorough, "part": "ens2", "lo": lo, "hi": min(nb, lo + (1 if thorough else 2))}))
    for lo in range(0, 4 if thorough else 2):
        jobs.append(("history:ens3", hist.descriptor_history_job, {"seed": seed, "thorough": thorough, "part": "ens3", "lo": lo, "hi": lo + 1}))
    jobs.append(("history:geom", hist.descriptor_history_job, {"seed": seed, "thorough": thorough, "part": "geom"}))
    jobs.append(("argument-kinds", hist.argkind_job, {"seed": seed, "thorough": thorough}))
    jobs.append(("caller-tables", hist.table_job, {"seed": seed, "thorough": thorough}))
    # size dimension (mc/props/c19_big.py): many coordinates with explicit zeros, and problem sizes around 2^20, 2^22, 2^24 (2^26)
    from mc.props import c19_big as big

    jobs.append(("many-coordinates", big.many_coords_job, {"seed": seed}))
    big_jobs = []
    for k in (20, 22, 24) + ((26,) if thorough else ()):
        if k >= 24:
            big_jobs += [(f"size 2^{k} {fn}", big.big_job, {"seed": seed, "k": k, "funcs": (fn,)}) for fn in big.FUNCS]
        else:
            big_jobs.append((f"size 2^{k}", big.big_job, {"seed": seed, "k": k, "funcs": big.FUNCS}))
    jobs = big_jobs[::-1] + jobs  # the long ones first
    ctx.bound["size_classes"] = [f"4 conformers x 16 atoms x {p} grid points" for k in (20, 22, 24) + ((26,) if thorough else ()) for p in big.PRIMES[k]]
    ctx.bound["many_coordinates"] = {"inputs": "11 / 40 / 200 atoms, ensemble 4 x 25", "eps": [repr(x) for x in big.EPS_MENU], "max_dist": [repr(x) for x in big.MD_MENU]}
    ctx.bound["history"] = {
        "ensemble_functions": list(hist.ENS_FUNCS), "ensemble_edits": list(hist.ENS_EDITS), "geometry_functions": list(hist.GEOM_FUNCS), "geometry_edits": list(hist.GEOM_EDITS),
        "calls_per_sequence": "2 (all ordered function pairs x every edit) and 3 (reduced menus)", "base_objects": nb,
        "kernel_edits": ["first-input-mutated-in-place", "second-input-mutated-in-place", "previous-result-mutated-in-place"],
    }  # fmt: skip
    # the big kernel jobs first
    run_forked(ctx, agg, jobs, nproc=16 if thorough else 8, timeout=840 if thorough else 110)
    agg.emit(ctx)

    ctx.bound.update(
        {
            "kernel_shapes_n_m_max": 6 if thorough else 4,
            "kernel_conformers_max": 4 if thorough else 3,
            "kernel_point_table": 24 if thorough else 12,
            "ensembles": nens,
            "max_dists": list(MAX_DISTS),
            "prune_eps": list(PRUNE_EPS),
            "grids": {k: int(len(v)) for k, v in grids_for(seed, thorough).items()},
        }
    )
    for k, v in sorted(agg.maxima.items()):
        ctx.note(k, round(v, 3))
    ctx.note("tried_classes", {op: {k: sorted(v) for k, v in t.items()} for op, t in sorted(agg.tried.items()) if not op.startswith("kernel[")})


def samples_job(ctx, agg, arg):
    """a few cases written out (run in a child like everything that touches the kernels)"""
    seed, thorough, lib = arg["seed"], arg["thorough"], arg["lib"]
    a = point_table(seed, 12)[:2].astype(np.float32)
    b = point_table(seed, 12)[3:5].astype(np.float32)
    rc, got = SrcKernels(lib).call("cdist22_eu2", a, b, 4)
    ctx.sample({"kind": "kernel", "name": "cdist22_eu2", "a": a.tolist(), "b": b.tolist(), "so": molli_xt.cdist22_eu2(a, b).tolist(), "src": got.tolist() if rc == 0 else f"rc={rc}", "reference": ref_dist(a, b, True).tolist()})
    g = gb.rectangular_grid([0, 0, 0], [1.3, 0.4, 2.15], padding=0.3, spacing=0.7)
    ctx.sample({"kind": "grid", "r1": [0, 0, 0], "r2": [1.3, 0.4, 2.15], "padding": 0.3, "spacing": 0.7, "n_points": int(len(g)), "min": g.min(axis=0).tolist(), "max": g.max(axis=0).tolist()})
    label, els, coords, charges, weights = ensembles_for(seed, thorough)[-1]
    ens = make_ens(els, coords, charges, weights)
    grid = grids_for(seed, thorough)["lattice-f4"][:12]
    ctx.sample({"kind": "field", "ensemble": label, "elements": els, "coords": coords.tolist(), "grid": grid.tolist(), "aso": gb.aso(ens, grid).tolist(), "aeif_weighted": gb.aeif(ens, grid, weighted=True).tolist(), "nearest(max_dist=2)": gb.nearest_atom_index(grid, ens, 2.0).tolist()})


def replay(ctx, case):
    """one case, executed in a forked child: the harness replays every case twice in one process, and a defect that keeps
    state inside the library (a result cache) would otherwise make the second replay start from the first one's leftovers"""
    agg = Agg()
    if case["kind"] in ("crash", "kernel-missing"):
        _replay_here(ctx, agg, case)
    else:
        run_forked(ctx, agg, [("replay", lambda sc, sa, c: _replay_here(sc, sa, c, emit=False), case)], 1, 300)
        agg.emit(ctx, replay_of=case)


def _replay_here(ctx, agg, case, emit=True):
    kind = case["kind"]
    if kind == "kernel":
        src = SrcKernels(compile_src(ctx.scratch)) if case["impl"] == "src" else None
        kernel_case(ctx, agg, case["impl"], src, case["name"], np.array(case["A"], dtype=np.float64).reshape(-1, 3) if np.array(case["A"]).ndim < 3 else np.array(case["A"], dtype=np.float64), np.array(case["B"], dtype=np.float64).reshape(-1, 3), case["dt"], case["la"], case["lb"], "replay")
    elif kind == "grid-dtype":
        sp_map = dict(DTYPE_SPELLINGS)
        grid_dtype_case(ctx, agg, tuple(case["r1"]), tuple(case["r2"]), case["pad"], case["sp"], case["spelling"], sp_map[case["spelling"]])
    elif kind == "grid":
        grid_case(ctx, agg, tuple(case["r1"]), tuple(case["r2"]), case["pad"], case["sp"], case["dtype"], case.get("argkind", "list"))
    elif kind == "nearest_prune":
        coords = np.array(case["coords"], dtype=np.float64)
        grid = np.array(case["grid"], dtype=np.dtype(case["gdtype"])).reshape(-1, 3)
        nearest_prune_case(ctx, agg, case["label"], case["input"], tuple(case["els"]), coords, np.array(case["charges"]), np.array(case["weights"]), case["gname"], grid)
    elif kind == "field":
        coords = np.array(case["coords"], dtype=np.float64)
        grid = np.array(case["grid"], dtype=np.dtype(case["gdtype"])).reshape(-1, 3)
        field_case(ctx, agg, case["label"], tuple(case["els"]), coords, np.array(case["charges"]), np.array(case["weights"]), case["gname"], grid)
    elif kind == "history":
        from mc.props import c19_history as hist

        hist.replay_history(ctx, agg, case)
    elif kind in ("big", "many-coords"):
        from mc.props import c19_big as big

        big.replay_big(ctx, agg, case)
    elif kind == "table":
        from mc.props import c19_history as hist

        hist.replay_table(ctx, agg, case)
    elif kind == "argkind":
        from mc.props import c19_history as hist

        hist.replay_argkind(ctx, agg, case)
    elif kind == "kernel-history":
        from mc.props import c19_history as hist

        src = SrcKernels(compile_src(ctx.scratch)) if case["impl"] == "src" else None
        A = np.array(case["A"], dtype=np.float64)
        hist.kernel_history_case(ctx, agg, case["impl"], src, case["name"], A, np.array(case["B"], dtype=np.float64).reshape(-1, 3), case["dt"], case["la"], case["lb"])
    elif kind in ("crash", "kernel-missing"):
        # re-run the job that died
        m = re.match(r"kernel\[(\w+)\]:(cdist\d\d)", case["op"])
        if not m:
            return
        lib = compile_src(ctx.scratch)
        impl, fam = m.groups()
        run_forked(ctx, agg, [(case["op"], kernel_job, {"impl": impl, "fam": fam, "seed": ctx.seed, "thorough": False, "lib": str(lib)})], 1, 300)
    if emit:
        agg.emit(ctx, replay_of=case)
