"""
C15, concurrent traversals of one object.

Two traversal generators of the SAME object alive at the same time (zip(mol.yield_bfs(a), mol.yield_bfsd(a)); a ring test
or a substructure search inside `for a in mol.yield_bfs(s)`) must not disturb each other: every generator's total output
equals what it yields when it runs alone.  For each graph of a small family every ordered pair of generators
(yield_bfs / yield_bfsd x every start x no direction / every direction; the pair of two instances of the same generator
included) is advanced in lockstep and as 'first k of A, all of B, rest of A' for k = 0..n; and every generator is advanced
with is_bond_in_ring / connected_atoms / get_substr_indices called between its next() calls.  Every loop is capped at
n_atoms + 5 items and guarded by an alarm: a traversal that does not end is a finding, not a hang.
"""
from __future__ import annotations

import signal

from mc.props.c15 import adjacency, build

FAMILY = (
    ("path4", 4, [(0, 1), (1, 2), (2, 3)]),
    ("ring4", 4, [(0, 1), (1, 2), (2, 3), (0, 3)]),
    ("star4", 4, [(0, 1), (0, 2), (0, 3)]),
    ("triangle-with-tail", 4, [(0, 1), (1, 2), (0, 2), (2, 3)]),
    ("ring5", 5, [(0, 1), (1, 2), (2, 3), (3, 4), (0, 4)]),
    ("two-arms", 5, [(0, 1), (1, 2), (0, 3), (3, 4)]),
    ("ring6", 6, [(0, 1), (1, 2), (2, 3), (3, 4), (4, 5), (0, 5)]),
    ("two-components", 5, [(0, 1), (1, 2), (3, 4)]),
)


class Endless(Exception):
    pass


def _alarm(signum, frame):
    raise Endless("no progress within the time limit")


class guard:
    """a wall-clock limit around a piece of library code that may loop forever"""

    def __init__(self, seconds=5.0):
        self.s = seconds

    def __enter__(self):
        self.old = signal.signal(signal.SIGALRM, _alarm)
        signal.setitimer(signal.ITIMER_REAL, self.s)

    def __exit__(self, *a):
        signal.setitimer(signal.ITIMER_REAL, 0)
        signal.signal(signal.SIGALRM, self.old)
        return False


def generators(obj, n, adj):
    """[(operation name, key, factory, python source)]"""
    atoms = list(obj.atoms)
    out = []
    for s in range(n):
        out.append(("yield_bfs", ("bfs", s, None), (lambda s=s: obj.yield_bfs(atoms[s])), f"g.yield_bfs(g.atoms[{s}])"))
        out.append(("yield_bfsd", ("bfsd", s, None), (lambda s=s: obj.yield_bfsd(atoms[s])), f"g.yield_bfsd(g.atoms[{s}])"))
        for d in sorted(adj[s]):
            out.append(("yield_bfs(direction)", ("bfs", s, d), (lambda s=s, d=d: obj.yield_bfs(atoms[s], atoms[d])), f"g.yield_bfs(g.atoms[{s}], g.atoms[{d}])"))
            out.append(("yield_bfsd(direction)", ("bfsd", s, d), (lambda s=s, d=d: obj.yield_bfsd(atoms[s], atoms[d])), f"g.yield_bfsd(g.atoms[{s}], g.atoms[{d}])"))
    return out


def norm(item, pos):
    if isinstance(item, tuple):
        return (pos.get(id(item[0]), -1),) + tuple(item[1:])
    return pos.get(id(item), -1)


def take(gen, k, cap, out, pos):
    """advance gen by up to k items (k None = until it ends); -> True when the generator is exhausted"""
    i = 0
    while k is None or i < k:
        try:
            x = next(gen)
        except StopIteration:
            return True
        out.append(norm(x, pos))
        i += 1
        if len(out) > cap:
            raise Endless(f"more than {cap} items")
    return False


def interleave_job(ctx, agg, arg):
    seed = arg["seed"]
    for gi, (name, n, ed) in enumerate(FAMILY):
        if gi % arg["nparts"] != arg["part"]:
            continue
        for cls_name in ("Connectivity", "ConformerEnsemble") if name in ("ring4", "two-arms", "ring5") else ("Connectivity",):
            graph_case(ctx, agg, name, n, ed, cls_name, seed)


def graph_case(ctx, agg, name, n, ed, cls_name, seed, only=None):
    r = seed % max(1, len(ed))
    bl = ed[r:] + ed[:r]
    obj = build(cls_name, n, bl, None, None)
    atoms = list(obj.atoms)
    pos = {id(a): i for i, a in enumerate(atoms)}
    adj = adjacency(n, ed)
    cap = n + 5
    gens = generators(obj, n, adj)
    seq = {}
    with guard():
        for op, key, make, src in gens:
            o = []
            take(make(), None, cap, o, pos)
            seq[key] = o
    build_src = [
        "from molli.chem import Atom, Bond, Connectivity, Element, Molecule, ConformerEnsemble",
        f"atoms = [Atom(Element.C, label=f'a{{i}}') for i in range({n})]",
        "g = Connectivity()",
        "for a in atoms: g.append_atom(a)",
    ] + [f"g.append_bond(Bond(atoms[{i}], atoms[{j}]))" for i, j in bl] + (["g = ConformerEnsemble(Molecule(g), n_conformers=2)"] if cls_name == "ConformerEnsemble" else [])
    ctx.count(states=1)

    def fail(op, attrs, symptom, what, case_extra, rep):
        if op.endswith(":interleaved"):
            # wrong items, an exception out of the generator and a traversal that never ends are one and the same finding
            what = f"[{symptom}] {what}"
            symptom = "disturbed-by-concurrent-use"
        case = dict({"kind": "interleave", "op": op, "symptom": symptom, "graph": name, "cls": cls_name, "seed": seed}, **case_extra)
        agg.fail(op, symptom, attrs, f"{what} [{cls_name}, {name}: {n} atoms, bonds {bl}]", case, "\n".join(build_src + rep))

    # ---- two generators alive at once ------------------------------------------------------------
    for ia, (opa, ka, mka, srca) in enumerate(gens):
        for ib, (opb, kb, mkb, srcb) in enumerate(gens):
            if only is not None and only.get("pair") not in (None, [ia, ib]):
                continue
            if only is not None and "pair" not in only:
                continue
            for pattern in ["lockstep"] + [f"first-{k}" for k in range(0, n + 1)]:
                attrs = {"with": opb, "order": "lockstep" if pattern == "lockstep" else "first-k-of-A,all-of-B,rest-of-A", "class": cls_name}
                agg.tick(opa + ":interleaved", attrs)
                agg.tick(opb + ":interleaved", dict(attrs, **{"with": opa}))
                ctx.count(evaluations=1, traces=1, transitions=2)
                oa, ob = [], []
                err = None
                try:
                    with guard():
                        ga, gb_ = mka(), mkb()
                        if pattern == "lockstep":
                            da = db = False
                            while not (da and db):
                                if not da:
                                    da = take(ga, 1, cap, oa, pos)
                                if not db:
                                    db = take(gb_, 1, cap, ob, pos)
                        else:
                            k = int(pattern.split("-")[1])
                            take(ga, k, cap, oa, pos)
                            take(gb_, None, cap, ob, pos)
                            take(ga, None, cap, oa, pos)
                except Endless as e:
                    err = ("did-not-terminate", str(e))
                except Exception as e:
                    err = (f"raised-{type(e).__name__}", f"{type(e).__name__}: {e}")
                rep = [f"A = {srca}; B = {srcb}", f"# consumption order: {pattern} (lockstep: next(A), next(B), ...; first-k: k items of A, all of B, the rest of A)", f"print(list({srca}), list({srcb}))  # alone"]
                extra = {"pair": [ia, ib], "pattern": pattern}
                if err:
                    fail(opa + ":interleaved", attrs, err[0], f"{srca} consumed together with {srcb} ({pattern}): {err[1]}", extra, rep)
                    continue
                if oa != seq[ka]:
                    fail(opa + ":interleaved", attrs, "differs-from-sequential", f"{srca} yielded {oa} while {srcb} was alive ({pattern}); alone it yields {seq[ka]}", extra, rep)
                if ob != seq[kb]:
                    fail(opb + ":interleaved", dict(attrs, **{"with": opa}), "differs-from-sequential", f"{srcb} yielded {ob} while {srca} was alive ({pattern}); alone it yields {seq[kb]}", extra, rep)
                ctx.outcome(("il", len(oa), len(ob)))
            if seq[ka] and seq[kb]:
                ctx.nontrivial(("il", name, cls_name, ka, kb))

    # ---- other queries between the next() calls of one traversal ----------------------------------
    bonds = list(obj.bonds)
    pat = build("Connectivity", 2, [(0, 1)], None, None)
    with guard():
        alone = {
            "is_bond_in_ring": [bool(obj.is_bond_in_ring(b)) for b in bonds],
            "connected_atoms": [sorted(pos.get(id(x), -1) for x in list(obj.connected_atoms(a))) for a in atoms],
            "get_substr_indices": sorted(tuple(x) for x in list(obj.get_substr_indices(pat))),
        }
    inner = {
        "is_bond_in_ring": lambda: [bool(obj.is_bond_in_ring(b)) for b in bonds],
        "connected_atoms": lambda: [sorted(pos.get(id(x), -1) for x in list(obj.connected_atoms(a))) for a in atoms],
        "get_substr_indices": lambda: sorted(tuple(x) for x in list(obj.get_substr_indices(pat))),
    }
    inner_src = {
        "is_bond_in_ring": "[g.is_bond_in_ring(b) for b in g.bonds]",
        "connected_atoms": "[list(g.connected_atoms(a)) for a in g.atoms]",
        "get_substr_indices": "list(g.get_substr_indices(pattern))",
    }
    for ia, (opa, ka, mka, srca) in enumerate(gens):
        for iname in inner:
            if only is not None and only.get("inner") != [ia, iname]:
                continue
            attrs = {"with": iname, "order": "between-next-calls", "class": cls_name}
            agg.tick(opa + ":interleaved", attrs)
            agg.tick(iname + ":inside-a-traversal", {"traversal": opa, "class": cls_name})
            ctx.count(evaluations=1, traces=1, transitions=2)
            oa = []
            seen = []
            err = None
            try:
                with guard():
                    ga = mka()
                    done = False
                    while not done:
                        seen.append(inner[iname]())
                        done = take(ga, 1, cap, oa, pos)
            except Endless as e:
                err = ("did-not-terminate", str(e))
            except Exception as e:
                err = (f"raised-{type(e).__name__}", f"{type(e).__name__}: {e}")
            rep = [f"for a in {srca}:", f"    print(a, {inner_src[iname]})", f"print(list({srca}), {inner_src[iname]})  # alone"]
            extra = {"inner": [ia, iname]}
            if err:
                fail(opa + ":interleaved", attrs, err[0], f"{srca} with {iname} called between its next() calls: {err[1]}", extra, rep)
                continue
            if oa != seq[ka]:
                fail(opa + ":interleaved", attrs, "differs-from-sequential", f"{srca} yielded {oa} with {iname} called between its next() calls; alone it yields {seq[ka]}", extra, rep)
            bad = [x for x in seen if x != alone[iname]]
            if bad:
                fail(iname + ":inside-a-traversal", {"traversal": opa, "class": cls_name}, "differs-from-standalone", f"{iname} called inside `for a in {srca}` returned {bad[0]}, on its own {alone[iname]}", extra, rep)


def replay_interleave(ctx, agg, case):
    fam = {f[0]: f for f in FAMILY}
    name, n, ed = fam[case["graph"]]
    only = {"pair": case["pair"]} if "pair" in case else {"inner": case["inner"]}
    graph_case(ctx, agg, name, n, ed, case["cls"], case["seed"], only=only)
