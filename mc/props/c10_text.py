"""
C10 helper: text model of mol2 / xyz files, independent of molli.

  * annotate_*   : classify every line and token of a WELL-FORMED base text (record kind, block index,
                   which tokens are structural and which are free text)
  * ref_*        : strict reference readers (their only job: decide whether a damaged text is still a
                   well-formed file, and if so whether it still describes molecules of the original)
  * enumerate_faults / apply_fault : the single-fault menu over an annotated document
  * scan_headers_* : lenient scan for the counts every block header of a (damaged) text declares

Nothing in here imports molli.
"""
from __future__ import annotations

import re

RE_INT = re.compile(r"^[+-]?\d+$")
RE_FLOAT = re.compile(r"^[+-]?(\d+\.?\d*|\.\d+)([eE][+-]?\d+)?$")
RE_TOK = re.compile(r"\S+")
RE_SYMBOL = re.compile(r"^([A-Za-z]{1,3}|\*)$")
# the Tripos vocabulary plus the orders 4, 5, 6 which molli documents as accepted extensions: the
# reference has to accept everything a reader may legitimately take for a well-formed record
MOL2_BOND_TYPES = {"1", "2", "3", "4", "5", "6", "am", "ar", "du", "un", "nc"}
MOL2_STATUS_WORDS = {"system", "invalid_charges", "analyzed", "substituted", "altered", "ref_angle"}


class Illformed(Exception):
    pass


def is_int(s):
    return bool(RE_INT.match(s))


def is_float(s):
    # nan / inf are float literals for every reader that uses the language's own float(): a line holding
    # one is a well-formed line with another value, not a malformed one
    return bool(RE_FLOAT.match(s)) or s.lower().lstrip("+-") in ("nan", "inf", "infinity")


def split_lines(text):
    """lines with their end-of-line characters; the last one may lack it."""
    return text.splitlines(keepends=True) if text else []


# =================================================================================================
# annotated documents.  A document is a list of line records
#     (text, cls, block, toks)      toks = tuple of (start, end, role, flag)   flag: "S" | "F"
# `cls`/`block`/`toks` always describe the line as it was in the undamaged base text.
# =================================================================================================
FIXED_GRAMMAR = {"mol-counts", "atom", "bond", "xyz-count", "xyz-atom", "unity-head", "unity-attr"}
UNITY_HEAD_ROLES = [("id", "S"), ("n-attr", "S")]
UNITY_ATTR_ROLES = [("attr-name", "F"), ("attr-value", "S")]
COUNT_ROLES_SET = {"n-atoms", "n-bonds", "n-subst", "n-feat", "n-sets", "count", "n-attr"}

ATOM_ROLES = [("id", "S"), ("label", "F"), ("x", "S"), ("y", "S"), ("z", "S"), ("type", "S"), ("subst-id", "S"), ("subst-name", "F"), ("charge", "S"), ("status", "F")]
BOND_ROLES = [("id", "S"), ("a1", "S"), ("a2", "S"), ("type", "S"), ("status", "F")]
COUNT_ROLES = [("n-atoms", "S"), ("n-bonds", "S"), ("n-subst", "S"), ("n-feat", "S"), ("n-sets", "S")]
XYZ_ATOM_ROLES = [("symbol", "S"), ("x", "S"), ("y", "S"), ("z", "S")]


def _toks(line, roles, default=("free", "F")):
    out = []
    for k, m in enumerate(RE_TOK.finditer(line)):
        role, flag = roles[k] if k < len(roles) else default
        out.append((m.start(), m.end(), role, flag))
    return tuple(out)


def annotate_mol2(text):
    lines = split_lines(text)
    doc = []
    i, n, block = 0, len(lines), -1
    na = nb = None
    section = None
    while i < n:
        raw = lines[i]
        s = raw.strip()
        if s.startswith("@<TRIPOS>"):
            name = s[len("@<TRIPOS>") :]
            if name == "MOLECULE":
                block += 1
                doc.append((raw, "rti-MOLECULE", block, _toks(raw, [("rti", "S")])))
                want = ["mol-name", "mol-counts", "mol-type", "charge-type"]
                for w in want:
                    i += 1
                    if i >= n:
                        raise Illformed("base text: short MOLECULE record")
                    r = lines[i]
                    if w == "mol-counts":
                        t = r.split()
                        if not t or not all(is_int(x) for x in t):
                            raise Illformed("base text: counts line")
                        na = int(t[0])
                        nb = int(t[1]) if len(t) > 1 else None
                        doc.append((r, w, block, _toks(r, COUNT_ROLES)))
                    else:
                        doc.append((r, w, block, _toks(r, [])))
                # optional status bits / comment
                if i + 1 < n and not lines[i + 1].strip().startswith("@"):
                    i += 1
                    doc.append((lines[i], "status-bits", block, _toks(lines[i], [])))
                    if lines[i].strip() != "" and i + 1 < n and not lines[i + 1].strip().startswith("@") and lines[i + 1].strip() != "":
                        i += 1
                        doc.append((lines[i], "mol-comment", block, _toks(lines[i], [])))
                section = None
            elif name == "ATOM":
                doc.append((raw, "rti-ATOM", block, _toks(raw, [("rti", "S")])))
                for _ in range(na or 0):
                    i += 1
                    if i >= n:
                        raise Illformed("base text: short ATOM section")
                    doc.append((lines[i], "atom", block, _toks(lines[i], ATOM_ROLES)))
                section = None
            elif name == "BOND":
                doc.append((raw, "rti-BOND", block, _toks(raw, [("rti", "S")])))
                for _ in range(nb or 0):
                    i += 1
                    if i >= n:
                        raise Illformed("base text: short BOND section")
                    doc.append((lines[i], "bond", block, _toks(lines[i], BOND_ROLES)))
                section = None
            elif name in ("UNITY_ATOM_ATTR", "UNITY_BOND_ATTR"):
                # count-driven attribute lists: "<id> <n>" followed by n lines "<name> <value>"
                doc.append((raw, "rti-UNITY", block, _toks(raw, [("rti", "S")])))
                while i + 1 < n and not lines[i + 1].strip().startswith("@"):
                    i += 1
                    h = lines[i].split()
                    if len(h) != 2 or not all(is_int(x) for x in h):
                        raise Illformed("base text: attribute list header")
                    doc.append((lines[i], "unity-head", block, _toks(lines[i], UNITY_HEAD_ROLES)))
                    for _ in range(int(h[1])):
                        i += 1
                        if i >= n:
                            raise Illformed("base text: short attribute list")
                        doc.append((lines[i], "unity-attr", block, _toks(lines[i], UNITY_ATTR_ROLES)))
                section = None
            else:
                doc.append((raw, "rti-other", block, _toks(raw, [("rti", "S")])))
                section = "other"
        elif s == "":
            doc.append((raw, "blank", max(block, 0), ()))
        elif s.startswith("#"):
            doc.append((raw, "comment", max(block, 0), _toks(raw, [])))
        elif section == "other":
            doc.append((raw, "other-data", block, _toks(raw, [])))
        else:
            raise Illformed(f"base text: stray line {i}")
        i += 1
    return doc


def annotate_xyz(text):
    lines = split_lines(text)
    doc = []
    i, n, block = 0, len(lines), -1
    while i < n:
        t = lines[i].split()
        if len(t) != 1 or not is_int(t[0]):
            raise Illformed("base text: xyz count line")
        block += 1
        na = int(t[0])
        doc.append((lines[i], "xyz-count", block, _toks(lines[i], [("count", "S")])))
        i += 1
        if i >= n:
            raise Illformed("base text: xyz comment missing")
        doc.append((lines[i], "xyz-comment", block, _toks(lines[i], [])))
        for _ in range(na):
            i += 1
            if i >= n:
                raise Illformed("base text: short xyz frame")
            doc.append((lines[i], "xyz-atom", block, _toks(lines[i], XYZ_ATOM_ROLES)))
        i += 1
    return doc


def doc_text(doc):
    return "".join(l[0] for l in doc)


# =================================================================================================
# strict reference readers
# =================================================================================================
def ref_xyz(text):
    """-> list of frames, frame = tuple of (symbol, x, y, z) ; raises Illformed"""
    lines = text.split("\n")
    if lines and lines[-1] == "":
        lines.pop()
    frames = []
    i, n = 0, len(lines)
    while i < n:
        t = lines[i].split()
        if len(t) != 1 or not is_int(t[0]) or int(t[0]) < 0:
            raise Illformed(f"count expected at line {i}")
        na = int(t[0])
        i += 1
        if i >= n:
            raise Illformed("comment line missing")
        i += 1
        atoms = []
        for _ in range(na):
            if i >= n:
                raise Illformed("atom lines missing")
            a = lines[i].split()
            if len(a) != 4 or not RE_SYMBOL.match(a[0]) or not all(is_float(x) for x in a[1:]):
                raise Illformed(f"atom line {i}")
            atoms.append((a[0], float(a[1]), float(a[2]), float(a[3])))
            i += 1
        frames.append(tuple(atoms))
    return frames


def ref_mol2(text):
    """-> list of (name, atoms, bonds); raises Illformed.  Grammar: blank and # lines are ignored
    between records; MOLECULE record = name, counts, mol_type, charge_type [, status bits [, comment]];
    ATOM / BOND sections are count-driven; lines of any other section are skipped; a molecule whose
    header declares atoms (bonds) must have exactly one ATOM (BOND) section of that length."""
    lines = text.split("\n")
    if lines and lines[-1] == "":
        lines.pop()
    mols = []
    cur = None
    i, n = 0, len(lines)
    section = None

    def close(cur):
        if cur is None:
            return
        if cur["atoms"] is None:
            if cur["na"] > 0:
                raise Illformed("ATOM section missing")
            cur["atoms"] = []
        if cur["bonds"] is None:
            if (cur["nb"] or 0) > 0:
                raise Illformed("BOND section missing")
            cur["bonds"] = []
        mols.append((cur["name"], tuple(cur["atoms"]), tuple(cur["bonds"]), tuple(cur["attrs"])))

    while i < n:
        s = lines[i].strip()
        if s.startswith("@"):
            if not s.startswith("@<TRIPOS>"):
                raise Illformed("bad record type indicator")
            rest = s[len("@<TRIPOS>") :]
            # the record name is the first word; a reader may rightly ignore what follows it on the line
            mm = re.match(r"^([A-Z_]+)(\s.*)?$", rest)
            if not mm:
                raise Illformed("bad record type indicator")
            rest = mm.group(1)
            if rest == "MOLECULE":
                close(cur)
                if i + 4 >= n:
                    raise Illformed("short MOLECULE record")
                name = lines[i + 1].strip()
                cnt = lines[i + 2].split()
                # (surplus integer tokens are tolerated: a reader may rightly ignore them)
                if len(cnt) < 1 or not all(is_int(x) for x in cnt) or any(int(x) < 0 for x in cnt):
                    raise Illformed("counts line")
                for k in (3, 4):
                    if lines[i + k].strip().startswith("@"):
                        raise Illformed("short MOLECULE record")
                cur = {"name": name, "na": int(cnt[0]), "nb": int(cnt[1]) if len(cnt) > 1 else None, "atoms": None, "bonds": None, "attrs": []}
                i += 5
                if i < n and not lines[i].strip().startswith("@"):
                    st = lines[i].strip()
                    if st not in ("", "****") and not all(w in MOL2_STATUS_WORDS for w in st.split("|")):
                        raise Illformed("status bits")
                    i += 1
                    if st != "" and i < n and not lines[i].strip().startswith("@") and lines[i].strip() != "":
                        i += 1  # free-text molecule comment
                section = None
                continue
            if cur is None:
                raise Illformed("section before MOLECULE")
            if rest == "ATOM":
                if cur["atoms"] is not None:
                    raise Illformed("second ATOM section")
                atoms = []
                for k in range(cur["na"]):
                    i += 1
                    if i >= n:
                        raise Illformed("short ATOM section")
                    t = lines[i].split()
                    if len(t) < 6 or not is_int(t[0]) or not all(is_float(x) for x in t[2:5]):
                        raise Illformed("atom line")
                    # (the substructure id / name columns carry nothing a molecule is built from: a
                    #  reader may rightly ignore them, so they are not validated)
                    if len(t) > 8 and not is_float(t[8]):
                        raise Illformed("atom line charge")
                    if t[5].startswith("@") or not re.match(r"^[A-Za-z]", t[5]):
                        raise Illformed("atom type")
                    atoms.append((t[1], float(t[2]), float(t[3]), float(t[4]), t[5], float(t[8]) if len(t) > 8 else None))
                cur["atoms"] = atoms
                section = None
            elif rest == "BOND":
                if cur["bonds"] is not None:
                    raise Illformed("second BOND section")
                if cur["nb"] is None:
                    raise Illformed("BOND section without a declared count")
                bonds = []
                for k in range(cur["nb"]):
                    i += 1
                    if i >= n:
                        raise Illformed("short BOND section")
                    t = lines[i].split()
                    if len(t) < 4 or not all(is_int(x) for x in t[:3]) or t[3] not in MOL2_BOND_TYPES:
                        raise Illformed("bond line")
                    a1, a2 = int(t[1]), int(t[2])
                    if not (1 <= a1 <= cur["na"] and 1 <= a2 <= cur["na"]):
                        raise Illformed("bond endpoint")
                    bonds.append((a1, a2, t[3]))
                cur["bonds"] = bonds
                section = None
            elif rest in ("UNITY_ATOM_ATTR", "UNITY_BOND_ATTR"):
                # count-driven attribute lists: "<id> <n>" followed by n lines "<name> <value>"
                limit = cur["na"] if rest == "UNITY_ATOM_ATTR" else (cur["nb"] or 0)
                while i + 1 < n and not lines[i + 1].strip().startswith("@"):
                    i += 1
                    h = lines[i].split()
                    if len(h) != 2 or not all(is_int(x) for x in h) or not (1 <= int(h[0]) <= limit) or int(h[1]) < 0:
                        raise Illformed("attribute list header")
                    for _ in range(int(h[1])):
                        i += 1
                        if i >= n:
                            raise Illformed("short attribute list")
                        av = lines[i].split()
                        if len(av) != 2 or av[0].startswith("@"):
                            raise Illformed("attribute line")
                        cur["attrs"].append((rest, int(h[0]), av[0], av[1]))
                section = None
            else:
                section = "other"
            i += 1
            continue
        if s == "" or s.startswith("#"):
            i += 1
            continue
        if section == "other":
            i += 1
            continue
        raise Illformed(f"stray data line {i}")
    close(cur)
    return mols


def is_sublist(small, big):
    """order-preserving: small is a subsequence of big"""
    j = 0
    for x in small:
        while j < len(big) and big[j] != x:
            j += 1
        if j >= len(big):
            return False
        j += 1
    return True


def classify(fmt, damaged, ref_orig):
    """'benign' (still well-formed, describes molecules of the original in order), 'different'
    (well-formed, other content), 'damaged' (not a well-formed file)"""
    try:
        r = (ref_mol2 if fmt == "mol2" else ref_xyz)(damaged)
    except Illformed:
        return "damaged"
    return "benign" if is_sublist(r, ref_orig) else "different"


def classify_first_record(fmt, text, ref_orig):
    """the same three classes for what a single-structure loader consumes: the first record only (an
    xyz frame as long as its own count line says; a mol2 block up to the next MOLECULE record)"""
    lines = text.split("\n")
    try:
        if fmt == "xyz":
            t = lines[0].split() if lines else []
            if len(t) != 1 or not is_int(t[0]) or int(t[0]) < 0:
                return "damaged"
            n = int(t[0]) + 2
            if len(lines) < n:
                return "damaged"
            r = ref_xyz("\n".join(lines[:n]))
        else:
            starts = [i for i, l in enumerate(lines) if l.strip().startswith("@<TRIPOS>MOLECULE")]
            end = starts[1] if len(starts) > 1 else len(lines)
            r = ref_mol2("\n".join(lines[:end]))
    except Illformed:
        return "damaged"
    if len(r) != 1:
        return "damaged"
    return "benign" if r[0] in ref_orig else "different"


# ---- lenient header scan of a damaged text --------------------------------------------------------
def scan_headers(fmt, text):
    """every (n_atoms, n_bonds|None) some block header of the text declares, in file order"""
    lines = text.split("\n")
    out = []
    if fmt == "xyz":
        for l in lines:
            t = l.split()
            if len(t) == 1 and is_int(t[0]):
                out.append((int(t[0]), None))
        return out
    for i, l in enumerate(lines):
        if l.strip().startswith("@<TRIPOS>MOLECULE") and i + 2 < len(lines):
            ints = []
            for t in lines[i + 2].split():
                if is_int(t):
                    ints.append(int(t))
                else:
                    break
            if ints:
                out.append((ints[0], ints[1] if len(ints) > 1 else None))
    return out


# =================================================================================================
# fault menu
# =================================================================================================
def last_block_start(doc):
    """index of the first line of the last record (last molecule block)"""
    if not doc:
        return 0
    last = max(l[2] for l in doc)
    for i, l in enumerate(doc):
        if l[2] == last and l[1] in ("rti-MOLECULE", "xyz-count"):
            return i
    return 0


RETARGET_ROLES = {"id", "a1", "a2", "subst-id", "n-atoms", "n-bonds", "n-subst", "n-feat", "n-sets", "count", "n-attr"}


def retarget_values(doc, i, j):
    """other integers a token of line i could plausibly hold: 0, 1, n, n+1, -1 and the value the same
    column has in the neighbouring lines (a duplicated id); n = size of what the token indexes"""
    text, cls, block, toks = doc[i]
    a, b, role, _ = toks[j]
    cur = int(text[a:b])
    same = [l for l in doc if l[2] == block and l[1] == cls]
    if cls == "bond" and role == "id":
        n = len(same)
    elif cls in ("atom", "bond", "unity-head"):
        n = sum(1 for l in doc if l[2] == block and l[1] == "atom")
    else:
        n = cur
    vals = [0, 1, n, n + 1, -1]
    if role in COUNT_ROLES_SET:
        # a declared count with a sign: negative ones, and the same number with an explicit plus
        vals += [-cur, f"+{cur}"]
    for k in (i - 1, i + 1):
        if 0 <= k < len(doc) and doc[k][1] == cls and doc[k][2] == block and j < len(doc[k][3]):
            x, y = doc[k][3][j][0], doc[k][3][j][1]
            if is_int(doc[k][0][x:y]):
                vals.append(int(doc[k][0][x:y]))
    out = []
    for v in vals:
        if v != cur and v not in out and str(v) != text[a:b]:
            out.append(v)
    return out


# what a numeric token may be replaced by: things that look a bit like numbers and are not (the empty
# replacement is delete-token); nan / inf are float literals - the strict reference decides about them
LITERALS = ("-", "+", "nan", "inf", "-inf", "1e", "1.2.3", "0x1A", "1.0D+00")


LITERAL_ROLES = {"x", "y", "z", "charge", "count", "n-atoms", "n-bonds", "n-attr"}  # values, not identifiers


def stride_lines(doc, stride):
    """representative lines of a LARGE text: every line that is not an atom / bond line, and of each run
    of atom / bond lines the first, the last and every stride-th"""
    pick = set()
    run = []
    for i, l in enumerate(doc + [("", "end", -1, ())]):
        if l[1] in ("atom", "bond", "xyz-atom"):
            if run and (doc[run[-1]][1] != l[1] or doc[run[-1]][2] != l[2]):
                pick.update({run[0], run[-1]} | set(run[::stride]))
                run = []
            run.append(i)
        else:
            if run:
                pick.update({run[0], run[-1]} | set(run[::stride]))
                run = []
            if i < len(doc):
                pick.add(i)
    return pick


def enumerate_faults(doc, fill="?!", infix="x", byte_cuts=True, num="7", only_lines=None):
    """every single structural fault of the document, as JSON-able descriptors (simplest first).
    `num` is the stray NUMERIC token of the token-adding faults (an integer that is no mol2 bond type).
    `only_lines` (large texts): the faults are enumerated on these lines only, byte cuts on the last
    line only, token splits in the middle only."""
    n = len(doc)
    lean = only_lines is not None
    chosen = range(n) if not lean else sorted(only_lines)
    # truncation at every line boundary (keep the first k lines), k = 0 .. n-1
    for k in (range(n - 1, -1, -1) if not lean else sorted(set(chosen) | {0}, reverse=True)):
        yield {"kind": "truncate", "line": k, "byte": 0}
    # truncation at every byte offset inside the last record
    if byte_cuts:
        for i in range(last_block_start(doc) if not lean else max(n - 1, 0), n):
            L = len(doc[i][0])
            for b in range(1, L):
                yield {"kind": "truncate", "line": i, "byte": b}
    for i in chosen:
        yield {"kind": "delete-line", "line": i}
    for i in chosen:
        yield {"kind": "duplicate-line", "line": i}
    # a stray non-keyword line in front of every line and at the end
    for i in (range(n + 1) if not lean else list(chosen) + [n]):
        yield {"kind": "insert-line", "line": i, "fill": fill}
    for i in chosen:
        text, cls, block, toks = doc[i]
        fixed = cls in FIXED_GRAMMAR
        if fixed:
            # token-ADDING damage that keeps every token well-formed: a stray number at every position,
            # every numeric token doubled, every numeric token split in two at every interior position
            for j in range(len(toks) + 1):
                yield {"kind": "insert-number", "line": i, "pos": j, "num": num}
            for j, (a, b, role, flag) in enumerate(toks):
                tok = text[a:b]
                if is_int(tok) or is_float(tok):
                    yield {"kind": "duplicate-token", "line": i, "tok": j}
                    for c in (range(1, len(tok)) if not lean else ([len(tok) // 2] if len(tok) > 1 else [])):
                        yield {"kind": "split-token", "line": i, "tok": j, "at": c}
        for j, (a, b, role, flag) in enumerate(toks):
            tok = text[a:b]
            if fixed:
                yield {"kind": "delete-token", "line": i, "tok": j}
            if flag != "S":
                continue
            yield {"kind": "garble-token", "line": i, "tok": j, "how": "prefix", "fill": fill}
            if is_int(tok) or is_float(tok):
                yield {"kind": "garble-token", "line": i, "tok": j, "how": "infix", "fill": infix}
                if role in LITERAL_ROLES:
                    for lit in LITERALS:
                        yield {"kind": "replace-token", "line": i, "tok": j, "with": lit}
            if role == "rti":
                yield {"kind": "rename-section", "line": i, "tok": j}
                # the keyword itself damaged: a suffix, the last letter lost, a blank inside
                for how in ("suffix", "shorten", "split"):
                    yield {"kind": "damage-section", "line": i, "tok": j, "how": how}
            if role in COUNT_ROLES_SET and is_int(tok):
                # the same value written with blanks around it (the same file) and with an explicit sign
                yield {"kind": "pad-token", "line": i, "tok": j}
                yield {"kind": "count+1", "line": i, "tok": j}
                if int(tok) > 0:  # a negative count is not "off by one" in any useful sense
                    yield {"kind": "count-1", "line": i, "tok": j}
            # an integer that identifies or refers to something replaced by ANOTHER valid-looking integer
            if role in RETARGET_ROLES and is_int(tok):
                for v in retarget_values(doc, i, j):
                    yield {"kind": "retarget", "line": i, "tok": j, "to": v}
        if fixed or cls.startswith("rti-"):
            yield {"kind": "extra-token", "line": i, "where": "end", "fill": fill}
            yield {"kind": "extra-token", "line": i, "where": "front", "fill": fill}


def _replace(line, a, b, new):
    return line[:a] + new + line[b:]


def apply_fault(doc, f):
    """-> new document (line metadata is carried along)"""
    kind = f["kind"]
    i = f["line"]
    if kind == "truncate":
        if f["byte"] == 0:
            return doc[:i]
        text, cls, block, toks = doc[i]
        cut = text[: f["byte"]]
        toks2 = tuple((a, min(b, len(cut)), r, fl) for (a, b, r, fl) in toks if a < len(cut))
        return doc[:i] + [(cut, cls, block, toks2)]
    if kind == "delete-line":
        return doc[:i] + doc[i + 1 :]
    if kind == "insert-line":
        junk = f["fill"] + " " + f["fill"] + "\n"
        block = doc[i][2] if i < len(doc) else (doc[-1][2] if doc else 0)
        pre = doc[:i]
        if pre and not pre[-1][0].endswith("\n"):
            pre = pre[:-1] + [(pre[-1][0] + "\n",) + pre[-1][1:]]
        return pre + [(junk, "junk", block, _toks(junk, []))] + doc[i:]
    if kind in ("insert-number", "duplicate-token", "split-token"):
        text, cls, block, toks = doc[i]
        metas = [(r, fl) for (_, _, r, fl) in toks]
        if kind == "insert-number":
            j = f["pos"]
            if j < len(toks):
                a = toks[j][0]
                new = text[:a] + f["num"] + " " + text[a:]
            else:
                body = text.rstrip("\r\n")
                new = body + " " + f["num"] + text[len(body) :]
            metas = metas[:j] + [("extra", "F")] + metas[j:]
        elif kind == "duplicate-token":
            j = f["tok"]
            a, b = toks[j][0], toks[j][1]
            new = text[:b] + " " + text[a:b] + text[b:]
            metas = metas[:j] + [(metas[j][0], "F"), (metas[j][0], "F")] + metas[j + 1 :]
        else:
            j = f["tok"]
            a, b = toks[j][0], toks[j][1]
            c = a + f["at"]
            new = text[:c] + " " + text[c:]
            metas = metas[:j] + [(metas[j][0], "F"), (metas[j][0], "F")] + metas[j + 1 :]
        spans = [(m.start(), m.end()) for m in RE_TOK.finditer(new)]
        if len(spans) != len(metas):
            raise ValueError("token bookkeeping")
        toks2 = tuple((x, y, r, fl) for (x, y), (r, fl) in zip(spans, metas))
        return doc[:i] + [(new, cls, block, toks2)] + doc[i + 1 :]
    if kind == "duplicate-line":
        l = doc[i]
        if not l[0].endswith("\n"):
            l = (l[0] + "\n",) + l[1:]
            return doc[:i] + [l, doc[i]] + doc[i + 1 :]
        return doc[: i + 1] + [l] + doc[i + 1 :]
    text, cls, block, toks = doc[i]
    if kind == "extra-token":
        body = text.rstrip("\r\n")
        eol = text[len(body) :]
        if f["where"] == "end":
            new = body + " " + f["fill"] + eol
            toks2 = toks + ((len(body) + 1, len(body) + 1 + len(f["fill"]), "extra", "F"),)
        else:
            d = len(f["fill"]) + 1
            new = f["fill"] + " " + text
            toks2 = ((0, len(f["fill"]), "extra", "F"),) + tuple((a + d, b + d, r, fl) for (a, b, r, fl) in toks)
        return doc[:i] + [(new, cls, block, toks2)] + doc[i + 1 :]
    j = f["tok"]
    a, b, role, flag = toks[j]
    tok = text[a:b]
    if kind == "delete-token":
        # the token and the white space in front of it
        a0 = a
        while a0 > 0 and text[a0 - 1] in " \t":
            a0 -= 1
        if j == 0:
            a0 = a
            b2 = b
            while b2 < len(text) and text[b2] in " \t":
                b2 += 1
            new = text[:a0] + text[b2:]
            d = b2 - a0
        else:
            new = text[:a0] + text[b:]
            d = b - a0
        toks2 = tuple(toks[:j]) + tuple((x - d, y - d, r, fl) for (x, y, r, fl) in toks[j + 1 :])
        return doc[:i] + [(new, cls, block, toks2)] + doc[i + 1 :]
    if kind == "garble-token":
        if f["how"] == "prefix":
            newtok = f["fill"] + tok
        else:
            newtok = tok[:1] + f["fill"] + tok[1:]
    elif kind == "rename-section":
        newtok = tok.replace("@<TRIPOS>", "@<TRIPOS>X", 1) if "@<TRIPOS>" in tok else "X" + tok
    elif kind == "damage-section":
        if f["how"] == "suffix":
            newtok = tok + "_X"
        elif f["how"] == "shorten":
            newtok = tok[:-1]
        else:
            k = len("@<TRIPOS>") + max(1, (len(tok) - len("@<TRIPOS>")) // 2) if tok.startswith("@<TRIPOS>") else max(1, len(tok) // 2)
            newtok = tok[:k] + " " + tok[k:]
    elif kind == "pad-token":
        newtok = "  " + tok + "  "
    elif kind == "replace-token":
        newtok = f["with"]
    elif kind == "retarget":
        newtok = str(f["to"])
    elif kind == "count+1":
        newtok = str(int(tok) + 1)
    elif kind == "count-1":
        newtok = str(int(tok) - 1)
    else:
        raise ValueError(kind)
    d = len(newtok) - len(tok)
    new = _replace(text, a, b, newtok)
    # a garbled token is no longer a structural one for a second fault
    nflag = "F" if kind in ("garble-token", "rename-section", "damage-section", "replace-token", "pad-token") else flag
    toks2 = tuple(toks[:j]) + ((a, b + d, role, nflag),) + tuple((x + d, y + d, r, fl) for (x, y, r, fl) in toks[j + 1 :])
    return doc[:i] + [(new, cls, block, toks2)] + doc[i + 1 :]


def fault_location(doc, f):
    """(line class, block position, token role) of a fault, for the signature"""
    i = f["line"]
    if f["kind"] == "insert-line":
        if i >= len(doc):
            return ("end", "first-block" if not doc or doc[-1][2] == 0 else "later-block", None)
        return ("before-" + doc[i][1], "first-block" if doc[i][2] == 0 else "later-block", None)
    if f["kind"] == "insert-number":
        toks = doc[i][3]
        role = ("before-" + toks[f["pos"]][2]) if f["pos"] < len(toks) else "end"
        return (doc[i][1], "first-block" if doc[i][2] == 0 else "later-block", role)
    if f["kind"] == "truncate" and f["byte"] == 0:
        if i >= len(doc):
            return ("end", "first-block", None)
        cls, block = doc[i][1], doc[i][2]
        return ("boundary-before-" + cls, "first-block" if block == 0 else "later-block", None)
    cls, block = doc[i][1], doc[i][2]
    role = None
    if "tok" in f:
        role = doc[i][3][f["tok"]][2]
    elif f["kind"] == "truncate":
        role = "eol"
        for a, b, r, fl in doc[i][3]:
            if a < f["byte"] <= b:
                role = r if f["byte"] < b else r + "-end"
                break
            if f["byte"] <= a:
                role = "before-" + r
                break
    return (cls, "first-block" if block == 0 else "later-block", role)
