"""
C12 - Structure.join builds exactly the intended molecule; iterated joins as in `molli combine`.

Bounded-exhaustive enumeration (engine enumx, DESIGN "### C12") on the real `Molecule.join` /
`Structure.join` and on the real body of `molli.scripts.combine._ml_assemble`:

  join   all tree skeletons on 1..4 heavy atoms + the 3-ring, attachment point on any atom (and a second one
         for two-AP fragments), three atom orders (AP last / first / right after its atom), as A and as B
         x 6 rigid poses of B x dist {None, 1.0, 2.5} x optimize_rotation {off, on}; the whole product is on a
         lattice of coordinates turned by the seed-chosen global rotation
  qm     the full product charge {-1,0,1}^2 x mult {1,2,3}^2 x charge override {None,0,2,-1} x mult override
         {None,1,3} on two structural cases
  par    attachment vectors exactly parallel / antiparallel (axis aligned with both anchors at the origin, and in
         the global pose): EVERY answer of the RNG menu for numpy.random.rand is enumerated, and every call is
         made at least twice with different answers and different global seeds (hidden state)
  asm    iterated joins through `_ml_assemble`: 2- and 3-attachment cores x substituent tuples x every order of
         core_aps (ascending = what `molli combine` computes by default; others = `-a` labels in another order)

  rejoin the SAME fragment objects joined, edited in place (14 edits: coordinates, atom/bond attributes, charge/mult,
         atom count), optionally joined at another attachment point in between, and joined again: the second product is
         judged against the inputs as they are NOW (a join must not remember an earlier one)

Reference model (this file + c11_num.py, float64 numpy): label-keyed atom/bond tables of the inputs, rigid
invariants (distance matrix, signed volumes) of each fragment *together with the point where its attachment
point must end up*, charge/mult arithmetic, deep snapshots of the inputs.
"""
from __future__ import annotations

import itertools
import math
import sys
import types

import numpy as np

import molli as ml
import attrs
from molli.chem import Atom, Bond, AtomType, AtomStereo, AtomGeom, Element, BondType, BondStereo

from mc.props import c11_num as N
from mc.props.c11_num import TOL, EPS

LEVEL = "model_checking"

# ---- fragments --------------------------------------------------------------------------------------
SKELETONS = {
    "a1": ([(0.0, 0.0, 0.0)], []),
    "p2": ([(0.0, 0.0, 0.0), (1.45, 0.12, -0.21)], [(0, 1)]),
    "p3": ([(0.0, 0.0, 0.0), (1.45, 0.12, -0.21), (2.05, 1.38, 0.33)], [(0, 1), (1, 2)]),
    "p4": ([(0.0, 0.0, 0.0), (1.45, 0.12, -0.21), (2.05, 1.38, 0.33), (3.49, 1.52, 0.91)], [(0, 1), (1, 2), (2, 3)]),
    "s4": ([(0.0, 0.0, 0.0), (1.45, 0.12, -0.21), (-0.61, 1.29, 0.37), (-0.48, -0.77, 1.12)], [(0, 1), (0, 2), (0, 3)]),
    "r3": ([(0.0, 0.0, 0.0), (1.45, 0.12, -0.21), (0.83, 1.21, 0.44)], [(0, 1), (1, 2), (2, 0)]),
}
SKEL_ORDER = ["a1", "p2", "p3", "p4", "s4", "r3"]
# direction of the k-th attachment point of a fragment (pointing away from the skeleton's bulk), length 1.09
# entries 0..3 are used by A / the core, 4..6 by B, 7 by the substituents of an assembly: no two fragments of a
# case share a direction, so equal poses do not make attachment vectors parallel by accident
AP_DIRS = [(-0.62, -0.58, -0.53), (0.18, -0.85, -0.49), (-0.35, 0.28, -0.89), (0.25, -0.35, 0.9), (0.71, 0.65, 0.27), (-0.2, 0.55, 0.81), (0.44, -0.3, -0.85), (-0.77, 0.1, 0.63)]
ELEMS = ["C", "N", "O", "S"]
# Single-bond covalent radii (Pyykko & Atsumi, Chem. Eur. J. 2009, 15, 186), in Angstrom: a literal table of the
# harness, equal to what Element.cov_radius_1 returned on the reference tree (e2f2ed0) for these elements. The
# default length of a new bond (join without dist) is documented as the sum of the two single-bond radii
# (Bond.expected_length); an element without a radius counts as carbon there.
COV1 = {
    "H": 0.32, "Li": 1.33, "B": 0.85, "C": 0.75, "N": 0.71, "O": 0.63, "F": 0.64, "Na": 1.55, "Mg": 1.39, "Al": 1.26,
    "Si": 1.16, "P": 1.11, "S": 1.03, "Cl": 0.99, "Ti": 1.36, "Fe": 1.16, "Cu": 1.12, "Zn": 1.18, "Se": 1.16, "Br": 1.14,
    "Pd": 1.20, "Sn": 1.40, "I": 1.33, "Pt": 1.23,
}
NO_RADIUS = "Unknown"  # the only element without cov_radius_1 on the reference tree: falls back to carbon (0.75)
AP_POS = ["last", "first", "after"]


_FRAG_CACHE: dict = {}


def frag_spec(skel, aps, ap_pos="last", tag="A", eoff=0, apoff=0):
    """atom rows [(label, element|None, coord, is_ap)] and bonds by label (cached; rows are never mutated)"""
    key = (skel, tuple(aps), ap_pos, tag, eoff, apoff)
    if key not in _FRAG_CACHE:
        _FRAG_CACHE[key] = _frag_spec(skel, aps, ap_pos, tag, eoff, apoff)
    return _FRAG_CACHE[key]


def _frag_spec(skel, aps, ap_pos, tag, eoff, apoff):
    coords, bonds = SKELETONS[skel]
    rows = []
    heavy = []
    for i, c in enumerate(coords):
        heavy.append((f"{tag}{i}", ELEMS[(i + eoff) % 4], np.array(c, dtype=float), False))
    aprows = []
    for k, at in enumerate(aps):
        d = N.unit(AP_DIRS[(k + apoff) % 8]) * 1.09
        aprows.append((f"{tag}AP{k}", None, np.array(coords[at], dtype=float) + d, True, at))
    if ap_pos == "last":
        rows = heavy + [r[:4] for r in aprows]
    elif ap_pos == "first":
        rows = [r[:4] for r in aprows] + heavy
    else:
        rows = []
        for i, h in enumerate(heavy):
            rows.append(h)
            for r in aprows:
                if r[4] == i:
                    rows.append(r[:4])
    blist = [(f"{tag}{i}", f"{tag}{j}") for i, j in bonds] + [(f"{tag}{r[4]}", r[0]) for r in aprows]
    return rows, blist


def build(cls, rows, blist, coords, name, charge, mult, decorate=True, ap_first=False):
    """a fresh molli object from the rows; `coords` overrides the row coordinates (posed).
    ap_first: the bond of every attachment point is stored as (AP, neighbour) instead of (neighbour, AP) -
    Bond(a, b) == Bond(b, a), both storage orders are legitimate inputs"""
    m = cls(name=name, charge=charge, mult=mult)
    for k, (lab, el, _c, is_ap) in enumerate(rows):
        if is_ap:
            a = Atom(Element.Unknown, label=lab, atype=AtomType.AttachmentPoint)
        else:
            a = Atom(el, label=lab)
            if decorate:
                # a distinct non-default value in EVERY field of every atom (no two enum fields share a number)
                a.attrib = {"k": k, "tag": lab}
                a.formal_charge = (1, -1, 2)[k % 3]
                a.formal_spin = (1, 2)[k % 2]
                a.isotope = 13 + k
                a.atype = (AtomType.Aromatic, AtomType.sp3, AtomType.sp2, AtomType.sp, AtomType.Hypervalent, AtomType.CoordinationCenter)[k % 6]
                a.stereo = (AtomStereo.R, AtomStereo.S, AtomStereo.Delta, AtomStereo.Lambda, AtomStereo.Tet_CW, AtomStereo.Tet_CCW, AtomStereo.NotStereogenic)[k % 7]
                geoms = [g for g in AtomGeom if int(g) != 0 and int(g) != int(a.stereo) and int(g) != int(a.atype)]
                a.geom = geoms[(3 * k + 2) % len(geoms)]
        c = [float(x) for x in coords[k]]
        if cls is ml.Molecule:
            m.add_atom(a, c, charge=0.0)
        else:
            m.add_atom(a, c)
    for n, (l1, l2) in enumerate(blist):
        kw = {}
        if decorate:
            kw = dict(
                btype=(BondType.Double, BondType.Triple, BondType.Aromatic, BondType.Amide, BondType.Quadruple)[n % 5],
                stereo=(BondStereo.E, BondStereo.Z, BondStereo.Axial_R, BondStereo.Axial_S, BondStereo.NotStereogenic)[n % 5],
                f_order=1.5 + 0.25 * n,
                label=f"b{n}",
            )
        if ap_first and "AP" in l2 and "AP" not in l1:
            l1, l2 = l2, l1
        b = m.connect(l1, l2, **kw)
        if decorate:
            b.attrib = {"n": n, "ends": "-".join(sorted((l1, l2)))}
    return m


def single_ap_frags():
    out = []
    for sk in SKEL_ORDER:
        for at in range(len(SKELETONS[sk][0])):
            out.append((sk, (at,)))
    return out  # 17


def two_ap_frags():
    return [("p2", (0, 1)), ("p3", (0, 2)), ("p3", (1, 1)), ("s4", (1, 2)), ("r3", (0, 1)), ("a1", (0, 0))]


def three_ap_frags():
    return [("s4", (1, 2, 3)), ("p3", (0, 1, 2)), ("a1", (0, 0, 0))]


# ---- snapshots / reference tables ---------------------------------------------------------------------
def _norm(v):
    """a comparable plain value of one attrs field (enums by value, dicts by sorted items)"""
    if isinstance(v, dict):
        return repr(sorted(v.items(), key=repr))
    if isinstance(v, bool) or v is None or isinstance(v, str):
        return v
    if isinstance(v, int):  # IntEnum members included: compared by value
        return int(v)
    if isinstance(v, float):
        return float(v)
    return repr(v)


def _fields(obj, skip):
    # enumerated at run time, so a field added to Atom / Bond later is compared as well
    return tuple((f.name, _norm(getattr(obj, f.name.lstrip("_")))) for f in attrs.fields(type(obj)) if f.name not in skip)


def atom_row(a):
    return _fields(a, ("_parent",))


def row_label(r):
    return dict(r).get("label")


def bond_fields(b):
    return _fields(b, ("a1", "a2", "_parent"))


def bond_row(b):
    l1, l2 = sorted((b.a1.label, b.a2.label))
    return (l1, l2, bond_fields(b))


def snapshot(m):
    d = {
        "name": m.name,
        "charge/mult": (m.charge, m.mult),
        "coords": (np.asarray(m.coords).dtype.str, np.asarray(m.coords).shape, np.asarray(m.coords).tobytes()),
        "atoms": tuple((id(a), atom_row(a), id(a.parent)) for a in m.atoms),
        "bonds": tuple((id(b), id(b.a1), id(b.a2), bond_row(b)) for b in m.bonds),
        "attrib": repr(sorted(m.attrib.items())),
    }
    if hasattr(m, "_atomic_charges"):
        ac = np.asarray(m.atomic_charges)
        d["atomic_charges"] = (ac.dtype.str, ac.shape, ac.tobytes())
    return d


def snap_diff(s0, s1):
    return [k for k in s0 if s0[k] != s1.get(k)]


def _exc(e):
    return type(e).__name__


_MAXR: dict = {}  # largest observed error/tolerance ratios (printed with C12_DEBUG=1)


def _ratio(key, err, tol):
    if tol > 0 and err == err and err != math.inf:
        r = err / tol
        if r > _MAXR.get(key, 0.0):
            _MAXR[key] = r


def _idx(m, a):
    for i, x in enumerate(m.atoms):
        if x is a:
            return i
    raise KeyError


# ---- the judge ------------------------------------------------------------------------------------------
class Part:
    """one input fragment as the reference model sees it"""

    def __init__(self, m, ap_indices):
        self.labels = [a.label for a in m.atoms]
        self.rows = [atom_row(a) for a in m.atoms]
        self.sym = {a.label: a.element.name for a in m.atoms}
        self.coords = np.array(m.coords, dtype=float, copy=True)
        self.ids = {id(a) for a in m.atoms} | {id(b) for b in m.bonds}
        self.bonds = [bond_row(b) for b in m.bonds]
        self.nbr = {}
        for b in m.bonds:
            self.nbr.setdefault(b.a1.label, []).append(b.a2.label)
            self.nbr.setdefault(b.a2.label, []).append(b.a1.label)
        self.ap = [self.labels[i] for i in ap_indices]  # attachment points consumed (in order of use)
        self.charge, self.mult, self.name = m.charge, m.mult, m.name
        self.pos = {l: i for i, l in enumerate(self.labels)}

    def anchor(self, ap_label):
        return self.nbr[ap_label][0]


def judge_product(ctx, emit, res, core: Part, subs, cls, dist, want_charge, want_mult, new_bond_kw=None, positional_dups=False, gtol=TOL):
    """core: the fragment that keeps its frame (A); subs: list of (Part, its consumed AP label, core AP label).
    emit(symptom, what) records a violation. Returns True when everything holds."""
    ok = True
    new_bond_kw = new_bond_kw or {}
    if res is None or res is ... :
        return False
    if type(res) is not cls:
        emit("result-of-wrong-class", f"result is {type(res).__name__}, expected {cls.__name__}")
        ok = False
    # ---- atoms -------------------------------------------------------------------------------------
    used_core_aps = {c_ap for _, _, c_ap in subs}
    exp_atoms = [(core, l) for l in core.labels if l not in used_core_aps]
    for sp, s_ap, _ in subs:
        exp_atoms += [(sp, l) for l in sp.labels if l != s_ap]
    exp_rows = sorted((p.rows[p.pos[l]] for p, l in exp_atoms), key=repr)
    got_rows = sorted((atom_row(a) for a in res.atoms), key=repr)
    if got_rows != exp_rows:
        missing = [row_label(r) for r in exp_rows if r not in got_rows]
        extra = [row_label(r) for r in got_rows if r not in exp_rows]
        diff = sorted({n_ for g_, e_ in zip(got_rows, exp_rows) for (n_, x_), (_, y_) in zip(g_, e_) if x_ != y_}) if len(got_rows) == len(exp_rows) and sorted(map(row_label, got_rows), key=repr) == sorted(map(row_label, exp_rows), key=repr) else []
        if diff:
            # same labels, some other field of an atom differs: name the fields
            by_l = {row_label(r): dict(r) for r in exp_rows}
            fields_off = sorted({n_ for r in got_rows for n_, x_ in r if row_label(r) in by_l and by_l[row_label(r)].get(n_) != x_})
            emit("atom-fields-differ[" + ",".join(fields_off) + "]", f"atoms of the product differ from the fragments' atoms in field(s) {fields_off}; e.g. {missing[:2]}")
            return False
        emit("atoms-differ", f"atom table differs from (A + B - attachment points): {len(res.atoms)} atoms, expected {len(exp_rows)}; missing/changed {missing[:3]}, unexpected {extra[:3]}")
        return False
    all_ids = set(core.ids)
    for sp, _, _ in subs:
        all_ids |= sp.ids
    if any(id(a) in all_ids for a in res.atoms) or any(id(b) in all_ids for b in res.bonds):
        emit("result-shares-atom-or-bond-objects-with-inputs", "the product contains Atom/Bond objects of the inputs (not a new molecule)")
        ok = False
    # label -> index in the result; duplicates (same substituent used twice) resolved by order of use
    occ = {}
    for i, a in enumerate(res.atoms):
        occ.setdefault(a.label, []).append(i)
    claimed = {}
    where = {}  # (part number, label) -> result index ; part 0 = core
    parts = [core] + [sp for sp, _, _ in subs]
    for pn, p in enumerate(parts):
        skip = used_core_aps if pn == 0 else {subs[pn - 1][1]}
        for l in p.labels:
            if l in skip:
                continue
            k = claimed.get(l, 0)
            lst = occ.get(l, [])
            if k >= len(lst):
                emit("atoms-differ", f"label {l} occurs too few times in the product")
                return False
            where[(pn, l)] = lst[k]
            claimed[l] = k + 1
    # ---- bonds -------------------------------------------------------------------------------------
    exp_b = []
    for pn, p in enumerate(parts):
        skip = used_core_aps if pn == 0 else {subs[pn - 1][1]}
        for br in p.bonds:
            if br[0] in skip or br[1] in skip:
                continue
            exp_b.append((tuple(sorted((where[(pn, br[0])], where[(pn, br[1])]))), br[2]))
    newb = []
    for sn, (sp, s_ap, c_ap) in enumerate(subs):
        i1 = where[(0, core.anchor(c_ap))]
        i2 = where[(sn + 1, sp.anchor(s_ap))]
        newb.append((i1, i2))
        ref_bond = Bond(Atom(), Atom(), btype=new_bond_kw.get("btype", BondType.Single), stereo=new_bond_kw.get("bstereo", BondStereo.Unknown), f_order=new_bond_kw.get("bforder", 1.0))
        exp_b.append((tuple(sorted((i1, i2))), bond_fields(ref_bond)))
    ridx = {id(a): i for i, a in enumerate(res.atoms)}
    try:
        got_b = [(tuple(sorted((ridx[id(b.a1)], ridx[id(b.a2)]))), bond_fields(b)) for b in res.bonds]
    except KeyError:
        emit("bond-refers-to-foreign-atom", "a bond of the product refers to an atom that is not in the product")
        return False
    if sorted(got_b, key=repr) != sorted(exp_b, key=repr):
        gs, es = set(got_b), set(exp_b)
        pairs_g = sorted(x[0] for x in got_b)
        pairs_e = sorted(x[0] for x in exp_b)
        sym = "bonds-differ" if pairs_g != pairs_e else "bond-attributes-differ"
        emit(sym, f"bond table differs: {len(got_b)} bonds, expected {len(exp_b)}; missing {sorted(es - gs, key=repr)[:2]}, unexpected {sorted(gs - es, key=repr)[:2]}")
        return False
    # ---- charge / multiplicity ---------------------------------------------------------------------
    if res.charge != want_charge[0]:
        emit(want_charge[1], f"charge is {res.charge!r}, expected {want_charge[0]!r} ({want_charge[2]})")
        ok = False
    if res.mult != want_mult[0]:
        emit(want_mult[1], f"multiplicity is {res.mult!r}, expected {want_mult[0]!r} ({want_mult[2]})")
        ok = False
    # ---- geometry -----------------------------------------------------------------------------------
    X = np.asarray(res.coords)
    if X.shape != (len(res.atoms), 3):
        emit("coords-shape", f"coords shape {X.shape} for {len(res.atoms)} atoms")
        return False
    if not np.all(np.isfinite(X)):
        emit("non-finite-coordinates", "NaN/inf coordinates in the product")
        return False
    X = X.astype(float)
    M = N.mag(X, core.coords, *[sp.coords for sp, _, _ in subs])
    dtol = gtol * M
    W = []
    for sn, (sp, s_ap, c_ap) in enumerate(subs):
        i1, i2 = newb[sn]
        w = X[i2] - X[i1]
        ell = float(np.linalg.norm(w))
        if not (ell > 1e-6):
            emit("new-bond-has-zero-length", f"the new bond has length {ell:.3g}")
            return False
        W.append((w / ell, ell))
        if dist is not None:
            _ratio("length", abs(ell - dist), dtol)
        else:
            e1, e2 = core.sym[core.anchor(c_ap)], sp.sym[sp.anchor(s_ap)]
            r1 = COV1["C"] if e1 == NO_RADIUS else COV1.get(e1)
            r2 = COV1["C"] if e2 == NO_RADIUS else COV1.get(e2)
            if r1 is not None and r2 is not None:
                _ratio("default-length", abs(ell - (r1 + r2)), dtol)
                if abs(ell - (r1 + r2)) > dtol:
                    emit("default-bond-length-not-the-sum-of-single-bond-radii", f"join without dist: new {e1}-{e2} bond is {ell:.9g} long, sum of the single-bond covalent radii {r1 + r2:.9g}")
                    ok = False
        if dist is not None and abs(ell - dist) > dtol:
            emit("new-bond-length-not-as-requested", f"new bond length {ell:.12g}, requested {dist}")
            ok = False
    # A with the images of all its consumed attachment points (superset first; the parts only to classify)
    keep = [l for l in core.labels if l not in used_core_aps]
    before = [core.coords[core.pos[l]] for l in keep]
    after = [X[where[(0, l)]] for l in keep]
    b2 = list(before)
    a2 = list(after)
    for sn, (sp, s_ap, c_ap) in enumerate(subs):
        anchor = core.coords[core.pos[core.anchor(c_ap)]]
        apc = core.coords[core.pos[c_ap]]
        b2.append(apc)
        a2.append(X[newb[sn][0]] + float(np.linalg.norm(apc - anchor)) * W[sn][0])
    L = N.extent(np.array(b2))
    vtol = gtol * M * L * L
    de, ve, _ = N.rigid_errors(b2, a2, N.quads_for(len(b2)))
    _ratio("A-dist", de, dtol)
    _ratio("A-vol", ve, vtol)
    if de > dtol or ve > vtol:
        quads0 = N.quads_for(len(before))
        de0, ve0, _ = N.rigid_errors(before, after, quads0)
        if de0 > dtol:
            emit("fragment-A-distances-changed", f"an interatomic distance inside A changed by {de0:.3g}")
            return False
        if ve0 > vtol:
            emit("fragment-A-mirrored" if N.mirrored(before, after, quads0, vtol) else "fragment-A-handedness-changed", f"a signed volume inside A changed by {ve0:.3g}")
            return False
        emit("new-bond-not-along-A's-attachment-direction", f"A together with the point(s) its attachment point(s) marked is not congruent with the input (distance error {de:.3g}, volume error {ve:.3g})")
        ok = False
    for sn, (sp, s_ap, c_ap) in enumerate(subs):
        keepb = [l for l in sp.labels if l != s_ap]
        bb = [sp.coords[sp.pos[l]] for l in keepb]
        ab = [X[where[(sn + 1, l)]] for l in keepb]
        anchor = sp.coords[sp.pos[sp.anchor(s_ap)]]
        apc = sp.coords[sp.pos[s_ap]]
        bb2 = bb + [apc]
        ab2 = ab + [X[newb[sn][1]] - float(np.linalg.norm(apc - anchor)) * W[sn][0]]
        Lb = N.extent(np.array(bb2))
        vtolb = gtol * M * Lb * Lb
        de, ve, _ = N.rigid_errors(bb2, ab2, N.quads_for(len(bb2)))
        _ratio("B-dist", de, dtol)
        _ratio("B-vol", ve, vtolb)
        if de > dtol or ve > vtolb:
            qb = N.quads_for(len(bb))
            de0, ve0, _ = N.rigid_errors(bb, ab, qb)
            if de0 > dtol:
                emit("fragment-B-distances-changed", f"an interatomic distance inside B changed by {de0:.3g}")
                return False
            if ve0 > vtolb:
                emit("fragment-B-mirrored" if N.mirrored(bb, ab, qb, vtolb) else "fragment-B-handedness-changed", f"a signed volume inside B changed by {ve0:.3g}")
                return False
            emit("B's-attachment-direction-does-not-point-at-A", f"B together with the point its attachment point must reach (A's anchor side of the new bond) is not congruent with the input (distance error {de:.3g}, volume error {ve:.3g})")
            ok = False
    return ok


# =====================================================================================================
# single joins
# =====================================================================================================
def _pose_coords(rows, M, t):
    return [np.asarray(r[2], dtype=float) @ M + t for r in rows]


def make_pair(ctx, case):
    """Builds A and B of a case; returns (A, B, iA, iB, vcls)"""
    cls = ml.Molecule if case.get("cls", "Molecule") == "Molecule" else ml.Structure
    G = N.seed_rotation(ctx.seed) if case.get("global_pose", True) else np.eye(3)
    skA, apsA, useA, posA = case["A"]
    skB, apsB, useB, posB = case["B"]
    rowsA, blA = frag_spec(skA, tuple(apsA), posA, "A", eoff=case.get("eoffA", 0))
    rowsB, blB = frag_spec(skB, tuple(apsB), posB, "B", eoff=case.get("eoffB", 1), apoff=4)
    MA, tA = N.pose_matrix(case.get("poseA", 0))
    MB, tB = N.pose_matrix(case.get("poseB", 0))
    cA = [c @ G for c in _pose_coords(rowsA, MA, tA)]
    cB = [c @ G for c in _pose_coords(rowsB, MB, tB)]
    labA = [r[0] for r in rowsA]
    labB = [r[0] for r in rowsB]
    iA = labA.index(f"AAP{useA}")
    iB = labB.index(f"BAP{useB}")
    rel = case.get("rel")
    if rel is not None:
        # exactly (anti)parallel attachment vectors: B's attachment point is placed at anchor + s*k*vA
        anA = labA.index(f"A{apsA[useA]}")
        anB = labB.index(f"B{apsB[useB]}")
        if case.get("exact_origin"):
            # both anchors at the origin: v1 and v2 are exact multiples of each other
            shiftA, shiftB = cA[anA].copy(), cB[anB].copy()
            cA = [c - shiftA for c in cA]
            cB = [c - shiftB for c in cB]
            if case.get("axis") is not None:
                d = np.array(case["axis"], dtype=float)
                cA[iA] = cA[anA] + d
        vA = cA[iA] - cA[anA]
        tilt = case.get("tilt")
        if tilt is not None:
            # near-degenerate: B's attachment vector is rel * (vA turned by a small angle about an axis orthogonal to vA)
            u1, u2 = N.any_orthogonal(vA)
            ax = [u1, u2, (u1 + u2) / math.sqrt(2.0), (u1 - 2.0 * u2) / math.sqrt(5.0)][int(tilt[1]) % 4]
            vA = N.rot_axis_angle(ax, math.radians(float(tilt[0]))) @ vA
        cB[iB] = cB[anB] + float(rel) * vA
    apo = case.get("ap_first", [False, False])
    A = build(cls, rowsA, blA, cA, "fragA", case.get("qA", 0), case.get("mA", 1), ap_first=bool(apo[0]))
    B = build(cls, rowsB, blB, cB, "fragB", case.get("qB", 0), case.get("mB", 1), ap_first=bool(apo[1]))
    for frag, tag, aps_, use_, key in ((A, "A", apsA, useA, "elemA"), (B, "B", apsB, useB, "elemB")):
        if case.get(key) is not None:
            frag.get_atom(f"{tag}{aps_[use_]}").element = case[key]
    return cls, A, B, iA, iB


def _vclass(A, B, iA, iB):
    pa = Part(A, [iA])
    pb = Part(B, [iB])
    v1 = pa.coords[iA] - pa.coords[pa.pos[pa.anchor(pa.labels[iA])]]
    v2 = pb.coords[iB] - pb.coords[pb.pos[pb.anchor(pb.labels[iB])]]
    c = float(np.dot(N.unit(v1), N.unit(v2)))
    if c > 1 - 1e-9:
        return "parallel"
    if c < -1 + 1e-9:
        return "antiparallel"
    if c > 0.99:
        return "near-parallel"
    if c < -0.99:
        return "near-antiparallel"
    return "general"


def _one_plus_cos_rot(A, B, iA, iB):
    """1 + cos of the angle between v2 and -v1: the conditioning of the rotation join has to build"""
    pa = Part(A, [iA])
    pb = Part(B, [iB])
    v1 = pa.coords[iA] - pa.coords[pa.pos[pa.anchor(pa.labels[iA])]]
    v2 = pb.coords[iB] - pb.coords[pb.pos[pb.anchor(pb.labels[iB])]]
    sdiff = N.unit(v2) - N.unit(v1)
    return float(np.dot(sdiff, sdiff) / 2.0)


def _call_join(cls, A, B, iA, iB, case, answers, reseed, optimize=None):
    kw = {}
    if case.get("dist") is not None:
        kw["dist"] = case["dist"]
    opt = case.get("opt", False) if optimize is None else optimize
    kw["optimize_rotation"] = opt
    if case.get("charge") is not None:
        kw["charge"] = case["charge"]
    if case.get("mult") is not None:
        kw["mult"] = case["mult"]
    if case.get("name") is not None:
        kw["name"] = case["name"]
    if case.get("newbond"):
        kw.update(btype=BondType.Double, bstereo=BondStereo.E, bforder=2.0)
    a1 = A.atoms[iA] if case.get("by_atom") else iA
    a2 = B.atoms[iB] if case.get("by_atom") else iB
    old = np.seterr(all="ignore")
    try:
        with N.RandSeam(answers, reseed=reseed) as seam:
            try:
                res = cls.join(A, B, a1, a2, **kw)
                err = None
            except N.SeamExhausted:
                res, err = None, "rng-retries-exhausted"
            except RecursionError:
                res, err = None, "rng-retries-exhausted"
            except Exception as e:
                res, err = None, f"raised-{_exc(e)}"
            calls = seam.calls
    finally:
        np.seterr(**old)
    return res, err, calls


def _wants(case, qA, qB, mA, mB):
    co, mo = case.get("charge"), case.get("mult")
    if co is None:
        wc = (qA + qB, "charge-not-sum-of-fragment-charges", f"qA+qB = {qA}+{qB}")
    elif co == 0:
        wc = (0, "charge-override-of-zero-ignored", "charge=0 was passed")
    else:
        wc = (co, "charge-override-ignored", f"charge={co} was passed")
    if mo is None:
        wm = (mA + mB - 1, "mult-not-mA+mB-1", f"mA+mB-1 = {mA}+{mB}-1")
    else:
        wm = (mo, "mult-override-ignored", f"mult={mo} was passed")
    return wc, wm


GEOM_SYMPTOMS_PREFIX = ("fragment-", "new-bond", "B's-", "non-finite", "coords-shape", "result-depends", "rng-", "raised-", "baseline-")


def exec_join(ctx, case):
    """One case: the join is executed under every enumerated RNG answer that it can consume (at least two
    executions, with different answers and different global generator seeds)."""
    cls, A, B, iA, iB = make_pair(ctx, case)
    vcls = _vclass(A, B, iA, iB)
    pa, pb = Part(A, [iA]), Part(B, [iB])
    sA, sB = snapshot(A), snapshot(B)
    wc, wm = _wants(case, A.charge, B.charge, A.mult, B.mult)
    opt = bool(case.get("opt", False))
    dist = case.get("dist")
    newkw = dict(btype=BondType.Double, bstereo=BondStereo.E, bforder=2.0) if case.get("newbond") else {}
    v2 = pb.coords[iB] - pb.coords[pb.pos[pb.anchor(pb.labels[iB])]]
    gtol = TOL
    if case.get("tilt") is not None:
        # near-degenerate orientations: 1e-9 widened by the conditioning eps/(1+cos) of the rotation v2 -> -v1, which
        # join documents to build by the Rodrigues form down to 1+cos = tol = 1e-6 (at most 5.7e-8; a skipped or
        # approximate rotation is off by >= 1.7e-4 at the smallest tilt of the menu)
        gtol = max(TOL, 256 * EPS / max(_one_plus_cos_rot(A, B, iA, iB), 1e-6))
        _ratio("gtol", gtol, 1.0)

    def run_all(optimize, count):
        """the join under the first answer, then under every further answer it can consume (at least one more)"""
        found = []  # (symptom, what)

        def emit(sym, what):
            if sym not in [s for s, _ in found]:
                found.append((sym, what))

        def one(answers, reseed):
            res, err, calls = _call_join(cls, A, B, iA, iB, case, answers, reseed, optimize)
            if count:
                ctx.count(transitions=1)
            if err:
                emit(err, f"join failed: {err}")
                return None, calls
            d = snap_diff(sA, snapshot(A)) + snap_diff(sB, snapshot(B))
            if d:
                emit("input-modified:" + "+".join(sorted(set(d))), f"join changed its inputs: {sorted(set(d))}")
            if case.get("name") is not None and res.name != case["name"]:
                emit("name-override-ignored", f"name is {res.name!r}")
            judge_product(ctx, emit, res, pa, [(pb, pb.labels[iB], pa.labels[iA])], cls, dist, wc, wm, newkw, gtol=gtol)
            return res, calls

        r0, calls0 = one(N.answer_sequence(N.RNG_MENU[0]), 1)
        menu = [N.RNG_MENU[1]]
        if calls0:
            menu = list(N.RNG_MENU[1:]) + [a for _, a in N.parallel_answers(v2)]
        X0 = np.asarray(r0.coords, dtype=float) if r0 is not None else None
        for k, a in enumerate(menu, start=2):
            rk, _ = one(N.answer_sequence(a, k), k)
            if rk is None:
                continue
            if X0 is None:
                r0, X0 = rk, np.asarray(rk.coords, dtype=float)
                continue
            Xk = np.asarray(rk.coords, dtype=float)
            if Xk.shape == X0.shape and np.all(np.isfinite(Xk)) and np.all(np.isfinite(X0)):
                dev = float(np.max(np.abs(Xk - X0)))
                if dev > TOL * N.mag(X0):
                    emit(
                        "result-depends-on-hidden-random-state",
                        f"two identical calls give coordinates differing by {dev:.3g} (numpy.random.rand answered differently; consumed {calls0} answer(s) per call)",
                    )
        return found, r0, calls0

    found, r0, calls0 = run_all(None, True)
    if any(case.get("ap_first", [False, False])) and r0 is not None and not found:
        # differential: the same fragments with their attachment bonds stored as (neighbour, AP) give the same molecule
        base_case = dict(case, ap_first=[False, False])
        cls_b, A_b, B_b, iA_b, iB_b = make_pair(ctx, base_case)
        rb, errb, _ = _call_join(cls_b, A_b, B_b, iA_b, iB_b, base_case, N.answer_sequence(N.RNG_MENU[0]), 1)
        ctx.count(transitions=1)
        if errb or rb is None:
            found.append(("baseline-storage-order:" + str(errb), f"the join of the same fragments with (neighbour, AP) bonds failed: {errb}"))
        else:
            X, Xb = np.asarray(r0.coords, dtype=float), np.asarray(rb.coords, dtype=float)
            lab, labb = [a.label for a in r0.atoms], [a.label for a in rb.atoms]
            if lab != labb or X.shape != Xb.shape or float(np.max(np.abs(X - Xb))) > gtol * N.mag(X, Xb):
                found.append(
                    (
                        "result-depends-on-storage-order-of-the-attachment-bond",
                        f"storing the attachment bond(s) as (AP, neighbour) {case.get('ap_first')} changes the product: max coordinate difference {float(np.max(np.abs(X - Xb))) if X.shape == Xb.shape else float('nan'):.3g}",
                    )
                )
    if calls0:
        ctx.add_note("join_cases_consuming_rng")
    ctx.add_note("join_cases_ap_vectors_" + vcls)
    ctx.count(evaluations=1, states=1, traces=1)
    # attribute symptoms to the rotamer scan only when they disappear without it (same menu of answers)
    tags = {}
    if found and opt:
        found2, _, _ = run_all(False, False)
        gone = {s for s, _ in found} - {s for s, _ in found2}
        tags = {s: ",rotamer-scan" for s in gone}
    for sym, what in found:
        geom = sym.startswith(GEOM_SYMPTOMS_PREFIX)
        sig = f"join[ap-vectors={vcls}{tags.get(sym, '')}]:{sym}" if geom else f"join:{sym}"
        ctx.violation(sig, f"{cls.__name__}.join (A={case['A'][0]}, B={case['B'][0]}, ap-vectors {vcls}, dist={dist}, optimize_rotation={opt}): {what}", case, repro=_repro(sym))
    ctx.outcome(("join", vcls, opt, dist, bool(calls0), tuple(sorted(s for s, _ in found)), r0.charge if r0 is not None else None, r0.mult if r0 is not None else None))
    if not found:
        ctx.nontrivial(("join", repr(sorted((k, repr(v)) for k, v in case.items()))))
    return found


def _repro(sym):
    if sym == "charge-override-of-zero-ignored":
        return (
            "import molli as ml\n"
            "from molli.chem import Atom, AtomType, Element\n"
            "def frag(q):\n"
            "    m = ml.Molecule(charge=q)\n"
            "    m.add_atom(Atom('C', label='c'), [0, 0, 0], charge=0.0)\n"
            "    m.add_atom(Atom(Element.Unknown, label='ap', atype=AtomType.AttachmentPoint), [1, 0.3, 0.2], charge=0.0)\n"
            "    m.connect(0, 1); return m\n"
            "A, B = frag(1), frag(1); B.translate([3, 1, 0])\n"
            "print(ml.Molecule.join(A, B, 1, 1, charge=0).charge)   # 2, expected 0\n"
        )
    if sym == "result-depends-on-hidden-random-state":
        return (
            "import numpy as np, molli as ml\n"
            "from molli.chem import Atom, AtomType, Element\n"
            "def frag(ap):\n"
            "    m = ml.Molecule()\n"
            "    m.add_atom(Atom('C', label='c0'), [0, 0, 0], charge=0.0)\n"
            "    m.add_atom(Atom('N', label='c1'), [-1.2, 0.7, 0.1], charge=0.0)\n"
            "    m.add_atom(Atom(Element.Unknown, label='ap', atype=AtomType.AttachmentPoint), ap, charge=0.0)\n"
            "    m.connect(0, 1); m.connect(0, 2); return m\n"
            "A, B = frag([1.0, 0, 0]), frag([0.8, 0, 0])   # attachment vectors exactly parallel\n"
            "r1 = ml.Molecule.join(A, B, 2, 2, dist=1.5); r2 = ml.Molecule.join(A, B, 2, 2, dist=1.5)\n"
            "print(np.abs(r1.coords - r2.coords).max())   # > 0: the orientation of B about the new bond is random\n"
        )
    return None


# ---- enumeration ------------------------------------------------------------------------------------
DISTS = (None, 1.0, 2.5)
Q_MENU = (0, 1, -1)
M_MENU = (1, 2, 3)
QO_MENU = (None, 0, 2, -1)
MO_MENU = (None, 1, 3)


def join_frag_list(thorough):
    """(skeleton, aps, which AP is used, atom order)"""
    out = []
    for n, (sk, aps) in enumerate(single_ap_frags()):
        out.append((sk, list(aps), 0, AP_POS[n % 3]))
    for n, (sk, aps) in enumerate(two_ap_frags()):
        for use in (0, 1):
            out.append((sk, list(aps), use, AP_POS[(n + use) % 3]))
    if thorough:
        for n, (sk, aps) in enumerate(single_ap_frags()):
            for pos in AP_POS:
                if pos != AP_POS[n % 3]:
                    out.append((sk, list(aps), 0, pos))
        for sk, aps in three_ap_frags():
            for use in (0, 1, 2):
                out.append((sk, list(aps), use, "after"))
    return out


def part_join(ctx, spec):
    ia_lo, ia_hi = spec
    frs = join_frag_list(ctx.thorough)
    for ia in range(ia_lo, ia_hi):
        fa = frs[ia]
        for ib, fb in enumerate(frs):
            for pb_ in range(len(N.POSES)):
                combos = [(d, o) for d in DISTS for o in (False, True)]
                if not ctx.thorough:
                    # quick tier: two of the six (dist, optimize_rotation) combinations per (A, B, pose), rotating so
                    # that every (A, B) pair sees all six over its poses; the thorough tier runs the full product
                    j = (ia + ib + pb_) % 6
                    combos = [combos[j], combos[(j + 3) % 6]]
                for dist, opt in combos:
                    k = ia * 7 + ib * 3 + pb_
                    case = {
                        "family": "join",
                        "A": list(fa),
                        "B": list(fb),
                        "poseA": ia % len(N.POSES),
                        "poseB": pb_,
                        "dist": dist,
                        "opt": opt,
                        # the charge / multiplicity alphabets rotate through the structural product
                        "qA": Q_MENU[k % 3],
                        "qB": Q_MENU[(k // 3) % 3],
                        "mA": M_MENU[(k // 2) % 3],
                        "mB": M_MENU[(k // 5) % 3],
                        "charge": QO_MENU[(k // 4) % 4] if pb_ % 2 else None,
                        "mult": MO_MENU[(k // 7) % 3] if pb_ % 3 == 1 else None,
                        "eoffA": ia % 4,
                        "eoffB": (ib + 1) % 4,
                        "by_atom": bool((ia + ib) % 2),
                        "newbond": (ia + ib + pb_) % 5 == 0,
                        "cls": "Structure" if (ia + 2 * ib + pb_) % 7 == 0 else "Molecule",
                        "ap_first": [bool((ia + pb_) % 3 == 1), bool((ib + pb_) % 3 == 2)],
                    }
                    exec_join(ctx, case)
                    if ia == 2 and ib == 9 and pb_ == 3 and dist == 1.0:
                        ctx.sample(case)


def part_qm(ctx, spec):
    (fa, fb) = spec
    for qA, qB, mA, mB, co, mo in itertools.product(Q_MENU, Q_MENU, M_MENU, M_MENU, QO_MENU, MO_MENU):
        case = {"family": "join", "A": list(fa), "B": list(fb), "poseA": 1, "poseB": 3, "dist": 1.5, "opt": False, "qA": qA, "qB": qB, "mA": mA, "mB": mB, "charge": co, "mult": mo}
        exec_join(ctx, case)
        if (qA, qB, mA, mB, co, mo) == (1, 1, 2, 2, 0, None):
            ctx.sample(case)


def part_par(ctx, spec):
    ia_lo, ia_hi = spec
    frs = [(sk, list(aps), 0, AP_POS[n % 3]) for n, (sk, aps) in enumerate(single_ap_frags())]
    frs += [("s4", [1, 2], 1, "after"), ("r3", [0, 1], 0, "first")]
    # quick tier: B runs over one fragment per skeleton (+ a two-AP one), A over all; thorough: all x all
    bsel = range(len(frs)) if ctx.thorough else [0, 2, 4, 8, 10, 15, 17]
    for ia in range(ia_lo, ia_hi):
        for ib in bsel:
            fb = frs[ib]
            for rel in (0.8, -0.8, 1.0, -2.5) if ctx.thorough else (0.8, -0.8):
                variants = [
                    dict(global_pose=True, poseA=(ia + ib) % 6, poseB=(2 * ia + ib + 1) % 6),
                    dict(global_pose=False, poseA=0, poseB=0, exact_origin=True),
                    dict(global_pose=False, poseA=0, poseB=0, exact_origin=True, axis=[[1.1, 0.0, 0.0], [0.0, -1.0, 0.0], [0.0, 0.0, 1.25], [0.7, 0.7, 0.0], [0.6, 0.6, 0.6]][(ia + ib) % 5]),
                ]
                for var in variants:
                    for opt in (False, True):
                        case = {"family": "join", "A": list(frs[ia]), "B": list(fb), "rel": rel, "dist": 1.5, "opt": opt, "eoffA": ia % 4, "eoffB": (ib + 2) % 4}
                        case.update(var)
                        exec_join(ctx, case)
                        if ia == 1 and ib == 4 and rel == 0.8 and "axis" in var and not opt:
                            ctx.sample(case)


TILTS_DEG = (0.01, 0.3, 1.0, 2.0, 5.0)


def near_cases(thorough):
    """attachment vectors a small angle off exactly antiparallel (rel < 0) and off exactly parallel (rel > 0)"""
    frs = [(sk, list(aps), 0, AP_POS[n % 3]) for n, (sk, aps) in enumerate(single_ap_frags())]
    frs += [("s4", [1, 2], 1, "after"), ("r3", [0, 1], 0, "first")]
    asel = range(len(frs)) if thorough else [1, 3, 6, 9, 12, 16, 17]
    bsel = range(len(frs)) if thorough else [0, 2, 4, 8, 10, 15, 18]
    combos = [(d, o) for d in (None, 1.5) for o in (False, True)]
    out = []
    for ia in asel:
        for ib in bsel:
            for ri, rel in enumerate((-0.8, 0.8, -1.7, 1.25) if thorough else (-0.8, 0.8)):
                for ti, deg in enumerate(TILTS_DEG):
                    for axi in range(4 if thorough else 3):
                        k = ia + ib + ri + ti + axi
                        use = combos if thorough else [combos[k % 4], combos[(k + 2) % 4 if k % 2 else (k + 3) % 4]]
                        for dist, opt in use:
                            out.append(
                                {
                                    "family": "join",
                                    "A": list(frs[ia]),
                                    "B": list(frs[ib]),
                                    "rel": rel,
                                    "tilt": [deg, axi],
                                    "dist": dist,
                                    "opt": opt,
                                    "poseA": (ia + ib) % 6,
                                    "poseB": (2 * ia + ib + 1) % 6,
                                    "eoffA": ia % 4,
                                    "eoffB": (ib + 2) % 4,
                                    "by_atom": bool(k % 2),
                                }
                            )
    return out


def part_near(ctx, spec):
    lo, hi = spec
    for i, c in enumerate(near_cases(ctx.thorough)[lo:hi]):
        exec_join(ctx, c)
        if lo == 0 and i == 2:
            ctx.sample(c)


DEFLEN_ELEMENTS = ["H", "Li", "B", "C", "N", "O", "F", "Na", "Mg", "Al", "Si", "P", "S", "Cl", "Ti", "Fe", "Cu", "Zn", "Se", "Br", "Pd", "Sn", "I", "Pt", NO_RADIUS]


def deflen_cases(thorough):
    """join WITHOUT dist for every pair of anchor elements of the list (and an element without a radius)"""
    out = []
    frA = [("a1", [0], 0, "last"), ("p3", [1], 0, "after"), ("s4", [0], 0, "first")]
    frB = [("a1", [0], 0, "first"), ("p2", [1], 0, "last"), ("r3", [2], 0, "after")]
    for i, ea in enumerate(DEFLEN_ELEMENTS):
        for j, eb in enumerate(DEFLEN_ELEMENTS):
            k = i + j
            for rep_ in range(3 if thorough else 1):
                out.append(
                    {
                        "family": "join",
                        "A": list(frA[(k + rep_) % 3]),
                        "B": list(frB[(k + 2 * rep_) % 3]),
                        "elemA": ea,
                        "elemB": eb,
                        "dist": None,
                        "opt": bool((k + rep_) % 2),
                        "poseA": k % 6,
                        "poseB": (k + 1 + rep_) % 6,
                        "cls": "Structure" if k % 7 == 0 else "Molecule",
                    }
                )
    return out


def part_deflen(ctx, spec):
    lo, hi = spec
    for i, c in enumerate(deflen_cases(ctx.thorough)[lo:hi]):
        exec_join(ctx, c)
        if lo == 0 and i == 10:
            ctx.sample(c)


def aporder_cases(thorough):
    """storage order of the attachment bond: (neighbour, AP) / (AP, neighbour), for A and for B"""
    frs = [(sk, list(aps), 0, AP_POS[n % 3]) for n, (sk, aps) in enumerate(single_ap_frags())]
    frs += [("s4", [1, 2], 1, "after"), ("r3", [0, 1], 0, "first"), ("p3", [0, 2], 0, "last")]
    asel = range(len(frs)) if thorough else [0, 2, 5, 8, 12, 15, 17, 19]
    bsel = range(len(frs)) if thorough else [1, 3, 6, 9, 13, 16, 18, 19]
    out = []
    for ia in asel:
        for ib in bsel:
            for oa, ob in ((True, False), (False, True), (True, True)):
                for ci, cls in enumerate(("Molecule", "Structure")):
                    for opt in (False, True):
                        k = ia + ib + ci + int(opt) + int(oa) + 2 * int(ob)
                        if not thorough and (k + ci) % 2:
                            continue
                        out.append(
                            {
                                "family": "join",
                                "A": list(frs[ia]),
                                "B": list(frs[ib]),
                                "ap_first": [oa, ob],
                                "cls": cls,
                                "opt": opt,
                                "dist": DISTS[k % 3],
                                "poseA": ia % 6,
                                "poseB": (ia + ib + 2) % 6,
                                "eoffA": ia % 4,
                                "eoffB": (ib + 1) % 4,
                                "by_atom": bool(k % 2),
                            }
                        )
    return out


def part_aporder(ctx, spec):
    lo, hi = spec
    for i, c in enumerate(aporder_cases(ctx.thorough)[lo:hi]):
        exec_join(ctx, c)
        if lo == 0 and i == 1:
            ctx.sample(c)


# =====================================================================================================
# iterated joins through scripts/combine.py
# =====================================================================================================
def _combine_module():
    """molli.scripts.combine imports the python bindings of the external program OpenBabel at module level;
    they are absent here, so a placeholder module is installed for that import only (never called: obopt=None)."""
    try:
        import molli.external.openbabel  # noqa: F401
    except ImportError:
        stub = types.ModuleType("molli.external.openbabel")
        stub.obabel_optimize = None
        sys.modules["molli.external.openbabel"] = stub
        import molli.external as ext

        ext.openbabel = stub
    from molli.scripts import combine

    return combine


SUBS = [("a1", [0], "after"), ("p2", [1], "last"), ("s4", [0], "first"), ("p3", [1], "after")]


def asm_cores(thorough):
    cores = [(sk, list(aps), pos) for (sk, aps), pos in zip(two_ap_frags(), ["last", "first", "after", "after", "last", "first"])]
    cores += [(sk, list(aps), pos) for (sk, aps), pos in zip(three_ap_frags(), ["after", "last", "first"])]
    if thorough:
        cores += [(sk, list(aps), pos) for (sk, aps) in two_ap_frags() + three_ap_frags() for pos in AP_POS]
        seen = []
        for c in cores:
            if c not in seen:
                seen.append(c)
        cores = seen
    return cores


def exec_asm(ctx, case):
    combine = _combine_module()
    G = N.seed_rotation(ctx.seed)
    sk, aps, pos = case["core"]
    rows, bl = frag_spec(sk, tuple(aps), pos, "K", eoff=case.get("eoff", 0))
    Mc, tc = N.pose_matrix(case.get("pose", 0))
    core = build(ml.Molecule, rows, bl, [c @ G for c in _pose_coords(rows, Mc, tc)], "core", case.get("qK", 0), case.get("mK", 1), ap_first=bool(case.get("ap_first_core")))
    labs = [r[0] for r in rows]
    ap_idx_by_k = [labs.index(f"KAP{k}") for k in range(len(aps))]
    order = [int(x) for x in case["order"]]  # core_aps[j] = index of attachment point number order[j]
    core_aps = tuple(ap_idx_by_k[k] for k in order)
    ascending = list(core_aps) == sorted(core_aps)
    pool = {}
    subs_objs = []
    for j, sn in enumerate(case["subs"]):
        if case.get("share_objects", True) and sn in pool:
            subs_objs.append(pool[sn])
            continue
        ssk, saps, spos = SUBS[sn]
        srows, sbl = frag_spec(ssk, tuple(saps), spos, f"S{sn}x" if case.get("share_objects", True) else f"S{sn}u{j}", eoff=sn + 1, apoff=7)
        # never the core's pose: the attachment vectors of an assembly case are in general position
        Ms, ts = N.pose_matrix((case.get("pose", 0) + 1 + (sn + j) % (len(N.POSES) - 1)) % len(N.POSES))
        s = build(ml.Molecule, srows, sbl, [c @ G for c in _pose_coords(srows, Ms, ts)], f"sub{sn}", case.get("qS", [0, 0, 0])[j], case.get("mS", [1, 1, 1])[j], ap_first=bool(case.get("ap_first_subs")))
        pool[sn] = s
        subs_objs.append(s)
    pk = Part(core, list(core_aps))
    sparts = [Part(s, [_idx(s, s.attachment_points[0])]) for s in subs_objs]
    snaps = [snapshot(core)] + [snapshot(s) for s in subs_objs]
    pre = f"assemble[core_aps={'ascending' if ascending else 'not-ascending'}]"
    found = []

    def emit(sym, what):
        if sym not in [s for s, _ in found]:
            found.append((sym, what))

    def one(answers, reseed):
        old = np.seterr(all="ignore")
        try:
            with N.RandSeam(answers, reseed=reseed) as seam:
                try:
                    f, args, kw = combine._ml_assemble(core, core_aps, [tuple(subs_objs)], hadd=False, obopt=None, separator="_")
                    out = f(*args, **kw)
                    err = None
                except N.SeamExhausted:
                    out, err = None, "rng-retries-exhausted"
                except Exception as e:
                    out, err = None, f"raised-{_exc(e)}"
                calls = seam.calls
        finally:
            np.seterr(**old)
        ctx.count(transitions=len(subs_objs))
        if err:
            emit(err, f"_ml_assemble failed: {err}")
            return None, calls
        want_name = "_".join(["core"] + [s.name for s in subs_objs])
        if not isinstance(out, dict) or list(out) != [want_name]:
            emit("result-keys-differ", f"result keys {list(out) if isinstance(out, dict) else type(out)}, expected [{want_name!r}]")
            return None, calls
        res = out[want_name]
        if res.name != want_name:
            emit("name-differs", f"name {res.name!r}, expected {want_name!r}")
        d = []
        for s0, obj in zip(snaps, [core] + subs_objs):
            d += snap_diff(s0, snapshot(obj))
        if d:
            emit("input-modified:" + "+".join(sorted(set(d))), f"_ml_assemble changed its inputs: {sorted(set(d))}")
        q = core.charge + sum(s.charge for s in subs_objs)
        m = core.mult + sum(s.mult for s in subs_objs) - len(subs_objs)
        judge_product(
            ctx,
            emit,
            res,
            pk,
            [(sp, sp.ap[0], pk.labels[core_aps[j]]) for j, sp in enumerate(sparts)],
            ml.Molecule,
            None,
            (q, "charge-not-sum-of-fragment-charges", "sum of the fragments' charges"),
            (m, "mult-not-sum-minus-number-of-joins", "sum of multiplicities - number of joins"),
        )
        return res, calls

    r0, calls0 = one(N.answer_sequence(N.RNG_MENU[0]), 1)
    menu = [N.RNG_MENU[1]] if not calls0 else list(N.RNG_MENU[1:])
    if r0 is not None:
        X0 = np.asarray(r0.coords, dtype=float)
        for k, a in enumerate(menu, start=2):
            rk, _ = one(N.answer_sequence(a, k), k)
            if rk is None:
                continue
            Xk = np.asarray(rk.coords, dtype=float)
            if Xk.shape == X0.shape and np.all(np.isfinite(Xk)) and np.all(np.isfinite(X0)):
                dev = float(np.max(np.abs(Xk - X0)))
                if dev > TOL * N.mag(X0):
                    emit("result-depends-on-hidden-random-state", f"two identical runs give coordinates differing by {dev:.3g}")
    ctx.count(evaluations=1, states=1, traces=1)
    for sym, what in found:
        ctx.violation(f"{pre}:{sym}", f"_ml_assemble(core={sk}{aps}/{pos}, core_aps={core_aps}, substituents={case['subs']}): {what}", case)
    ctx.outcome(("asm", ascending, len(subs_objs), tuple(sorted(s for s, _ in found)), r0.n_atoms if r0 is not None else None))
    if not found:
        ctx.nontrivial(("asm", repr(sorted((k, repr(v)) for k, v in case.items()))))


def asm_cases(thorough):
    cases = []
    for ci, core in enumerate(asm_cores(thorough)):
        nap = len(core[1])
        sub_tuples = list(itertools.product(range(len(SUBS) if thorough else 3), repeat=nap))
        for order in itertools.permutations(range(nap)):
            for st in sub_tuples:
                k = ci + sum(st) + sum(order)
                case = {
                    "family": "asm",
                    "core": list(core),
                    "order": list(order),
                    "subs": list(st),
                    "pose": k % len(N.POSES),
                    "eoff": ci % 4,
                    "qK": Q_MENU[k % 3],
                    "mK": M_MENU[(k // 2) % 3],
                    "qS": [Q_MENU[(k + j) % 3] for j in range(nap)],
                    "mS": [M_MENU[(k + 2 * j) % 3] for j in range(nap)],
                    "share_objects": True,
                    "ap_first_core": k % 3 == 1,
                    "ap_first_subs": k % 4 == 2,
                }
                cases.append(case)
                if len(set(st)) < len(st) and (thorough or k % 2 == 0):
                    cases.append(dict(case, share_objects=False))
    return cases


def part_asm(ctx, spec):
    lo, hi = spec
    for i, c in enumerate(asm_cases(ctx.thorough)[lo:hi]):
        exec_asm(ctx, c)
        if lo == 0 and i in (0, 5):
            ctx.sample(c)


# =====================================================================================================
# rejoin : the SAME fragment objects are joined, edited in place, and joined again
#   join(X, Y) -> [join at another attachment point of a two-AP fragment] -> one in-place edit of X or
#   of Y -> join(X, Y) at the same attachment points.  The second product must satisfy the whole oracle
#   against the inputs AS THEY ARE NOW (a join may not remember anything about an earlier one).
# =====================================================================================================
REJOIN_EDITS = (
    "move-atom[other]",
    "move-atom[anchor]",
    "move-atom[attachment-point]",
    "coords=[non-rigid]",
    "rotate_dihedral",
    "scale",
    "translate",
    "transform",
    "element",
    "bond-type",
    "charge-mult",
    "label",
    "attrib",
    "add_atom",
)
EDIT_CLASS = {
    "move-atom[other]": "coordinates",
    "move-atom[anchor]": "coordinates",
    "move-atom[attachment-point]": "coordinates",
    "coords=[non-rigid]": "coordinates",
    "rotate_dihedral": "coordinates",
    "scale": "coordinates",
    "translate": "coordinates",
    "transform": "coordinates",
    "element": "atom-or-bond-attributes",
    "bond-type": "atom-or-bond-attributes",
    "label": "atom-or-bond-attributes",
    "attrib": "atom-or-bond-attributes",
    "charge-mult": "charge-mult",
    "add_atom": "atom-count",
}


def _adjacency(m):
    idx = {id(a): i for i, a in enumerate(m.atoms)}
    adj = [[] for _ in m.atoms]
    for b in m.bonds:
        i, j = idx[id(b.a1)], idx[id(b.a2)]
        adj[i].append(j)
        adj[j].append(i)
    return adj


def _acyclic(adj, i, j):
    seen, stack = {i}, [i]
    while stack:
        x = stack.pop()
        for y in adj[x]:
            if x == i and y == j:
                continue
            if y == j:
                return False
            if y not in seen:
                seen.add(y)
                stack.append(y)
    return True


def _dihedral_quad(m):
    adj = _adjacency(m)
    for b in range(len(adj)):
        for c in adj[b]:
            if len(adj[b]) > 1 and len(adj[c]) > 1 and _acyclic(adj, b, c):
                a = [x for x in adj[b] if x != c][0]
                d = [x for x in adj[c] if x != b][0]
                return (a, b, c, d)
    return None


def apply_edit(T, edit, i_ap, k=0):
    """one in-place edit of fragment T through its public API; False when the edit is not defined for T"""
    adj = _adjacency(T)
    anchor = adj[i_ap][0]
    aps = {i for i, a in enumerate(T.atoms) if a.atype == AtomType.AttachmentPoint}
    others = [i for i in range(T.n_atoms) if i not in aps and i != anchor]
    d = np.array([0.31, -0.22, 0.27]) * (1 + 0.5 * (k % 2))
    if edit == "move-atom[other]":
        if not others:
            return False
        T.coords[others[k % len(others)]] += d
    elif edit == "move-atom[anchor]":
        T.coords[anchor] += d
    elif edit == "move-atom[attachment-point]":
        T.coords[i_ap] += d
    elif edit == "coords=[non-rigid]":
        c = np.array(T.coords, dtype=float)
        T.coords = c * np.array([1.0, 1.35, 0.8]) + np.array([0.2, 0.0, -0.1])
    elif edit == "rotate_dihedral":
        q = _dihedral_quad(T)
        if q is None:
            return False
        T.rotate_dihedral(q, float(T.dihedral(*q)) + 1.1)
    elif edit == "scale":
        T.scale(1.3)
    elif edit == "translate":
        T.translate(np.array([2.0, -1.0, 0.5]))
    elif edit == "transform":
        T.transform(N.rot_axis_angle([0.3, -0.5, 0.8], 1.9))
    elif edit == "element":
        T.atoms[anchor if k % 2 else (others[0] if others else anchor)].element = "P"
    elif edit == "bond-type":
        bs = [b for b in T.bonds if b.a1.atype != AtomType.AttachmentPoint and b.a2.atype != AtomType.AttachmentPoint]
        if not bs:
            return False
        bs[k % len(bs)].btype = BondType.Triple
        bs[k % len(bs)].f_order = 3.0
    elif edit == "charge-mult":
        T.charge = T.charge + 2
        T.mult = T.mult + 1
    elif edit == "label":
        i = others[0] if others else anchor
        T.atoms[i].label = T.atoms[i].label + "x"
    elif edit == "attrib":
        i = others[0] if others else anchor
        T.atoms[i].attrib = {"edited": k}
        T.atoms[i].formal_charge = -1
    elif edit == "add_atom":
        a = Atom("H", label=T.atoms[anchor].label + "H")
        c = [float(x) for x in (np.asarray(T.coords[anchor], dtype=float) + np.array([0.4, 0.7, -0.6]))]
        if isinstance(T, ml.Molecule):
            T.add_atom(a, c, charge=0.0)
        else:
            T.add_atom(a, c)
        T.connect(anchor, a)
    else:
        raise KeyError(edit)
    return True


def exec_rejoin(ctx, case):
    cls, A, B, iA, iB = make_pair(ctx, case)
    swap = bool(case.get("swap"))
    X, Y, iX, iY = (B, A, iB, iA) if swap else (A, B, iA, iB)
    edit = case["edit"]
    on_first = (case["edit_on"] == "B") == swap  # is the edited object the first argument of join?
    T, iT = (A, iA) if case["edit_on"] == "A" else (B, iB)
    role = "first" if on_first else "second"
    pre = f"rejoin[in-place-{EDIT_CLASS[edit]}-edit-of-{role}-fragment-between-two-joins]"
    what = f"{cls.__name__}.join({'B, A' if swap else 'A, B'}) twice with the same objects (A={case['A'][0]}, B={case['B'][0]}), {edit} of {case['edit_on']} in between"
    found = []

    def emit(sym, text):
        if sym not in [s_ for s_, _ in found]:
            found.append((sym, text))

    def joined(stage, i1, i2):
        """one join judged against the inputs as they are right now; returns the product (or None)"""
        p1, p2 = Part(X, [i1]), Part(Y, [i2])
        s1, s2 = snapshot(X), snapshot(Y)
        wc, wm = _wants(case, X.charge, Y.charge, X.mult, Y.mult)
        res, err, _ = _call_join(cls, X, Y, i1, i2, case, N.answer_sequence(N.RNG_MENU[stage % 6]), stage)
        ctx.count(transitions=1)
        if err:
            emit(f"{stage_name[stage]}:{err}", f"{stage_name[stage]} failed: {err}")
            return None
        dd = snap_diff(s1, snapshot(X)) + snap_diff(s2, snapshot(Y))
        if dd:
            emit(f"{stage_name[stage]}:input-modified:" + "+".join(sorted(set(dd))), f"{stage_name[stage]} changed its inputs: {sorted(set(dd))}")
        n0 = len(found)
        judge_product(ctx, lambda sym, text: emit(f"{stage_name[stage]}:{sym}", text), res, p1, [(p2, p2.labels[i2], p1.labels[i1])], cls, case.get("dist"), wc, wm, {})
        return res if len(found) == n0 else None

    stage_name = {0: "first-join", 1: "interleaved-join", 2: "second-join"}
    ctx.count(evaluations=1, states=1, traces=1)
    ok = joined(0, iX, iY) is not None
    if ok and case.get("interleave"):
        # a join at the OTHER attachment point of the two-AP fragment, with the same partner
        which = case["interleave"]
        F = A if which == "A" else B
        used = iA if which == "A" else iB
        other = [i for i, a in enumerate(F.atoms) if a.atype == AtomType.AttachmentPoint and i != used]
        if other:
            j1, j2 = (iX, iY)
            if (F is X):
                j1 = other[0]
            else:
                j2 = other[0]
            ok = joined(1, j1, j2) is not None
    if ok:
        try:
            applied = apply_edit(T, edit, iT, case.get("k", 0))
            ctx.count(transitions=1)
        except Exception as e:
            ctx.add_note("rejoin_edit_raised_" + _exc(e))
            applied = False
        if not applied:
            ctx.add_note("rejoin_cases_edit_not_defined")
            return
        joined(2, iX, iY)
    for sym, text in found:
        stage, _, rest = sym.partition(":")
        sig = f"{pre}:{rest}" if stage == "second-join" else f"rejoin[{stage}]:{rest}"
        ctx.violation(sig, f"{what}: {text}", case)
    ctx.outcome(("rejoin", edit, role, swap, bool(case.get("interleave")), tuple(sorted(s_ for s_, _ in found))))
    if not found:
        ctx.nontrivial(("rejoin", repr(sorted((k_, repr(v_)) for k_, v_ in case.items()))))


REJOIN_FRAGS = [("p3", [0], 0, "last"), ("p4", [1], 0, "after"), ("s4", [0], 0, "first"), ("r3", [2], 0, "after"), ("s4", [1, 2], 0, "after"), ("p3", [0, 2], 1, "first")]


def rejoin_cases(thorough):
    out = []
    combos = [(d, o) for d in DISTS for o in (False, True)]
    frs = list(REJOIN_FRAGS)
    if thorough:
        frs += [("p2", [1], 0, "first"), ("a1", [0], 0, "last"), ("p4", [3], 0, "first"), ("r3", [0, 1], 1, "last")]
    for ia, fa in enumerate(frs):
        for ib, fb in enumerate(frs):
            for ei, edit in enumerate(REJOIN_EDITS):
                for oi, on in enumerate(("A", "B")):
                    for swap in (False, True):
                        k = ia + 2 * ib + ei + oi + int(swap)
                        dist, opt = combos[k % 6]
                        case = {
                            "family": "rejoin",
                            "A": list(fa),
                            "B": list(fb),
                            "poseA": ia % len(N.POSES),
                            "poseB": (ia + ib + 1) % len(N.POSES),
                            "edit": edit,
                            "edit_on": on,
                            "swap": swap,
                            "dist": dist,
                            "opt": opt,
                            "k": k,
                            "qA": Q_MENU[k % 3],
                            "qB": Q_MENU[(k // 3) % 3],
                            "mA": M_MENU[(k // 2) % 3],
                            "mB": M_MENU[(k // 5) % 3],
                            "eoffA": ia % 4,
                            "eoffB": (ib + 1) % 4,
                            "by_atom": bool(k % 2),
                            "cls": "Structure" if k % 5 == 0 and edit != "add_atom" else "Molecule",
                        }
                        out.append(case)
                        for which, f in (("A", fa), ("B", fb)):
                            if len(f[1]) == 2 and (thorough or (ei + oi + int(swap)) % 2 == 0):
                                out.append(dict(case, interleave=which))
    return out


def part_rejoin(ctx, spec):
    lo, hi = spec
    for i, c in enumerate(rejoin_cases(ctx.thorough)[lo:hi]):
        exec_rejoin(ctx, c)
        if lo == 0 and i in (3, 40):
            ctx.sample(c)


# =====================================================================================================
# main : the entry point above the loop - molli.scripts.combine.molli_main driven with an argument vector
#   cores / substituents are written to .mlib files, `molli combine` runs in-process (nprocs=1), the output
#   library is read back.  Labels of the attachment points vs. their atom indices in every order x every
#   order of `-a` on the command line x mode x route (by label / one shared label / by atom type).
# =====================================================================================================
MAIN_MODES = ("permutns", "same", "combns", "combns_repl")
MARKERS = ("S", "P", "Cl")


class _Alarm(Exception):
    pass


def _run_main(combine, argv, seconds=60):
    import contextlib
    import io
    import signal

    def _h(sig, frm):
        raise _Alarm()

    buf = io.StringIO()
    old = signal.signal(signal.SIGALRM, _h)
    signal.alarm(seconds)
    try:
        with contextlib.redirect_stdout(buf), contextlib.redirect_stderr(buf):
            combine.molli_main(list(argv))
    finally:
        signal.alarm(0)
        signal.signal(signal.SIGALRM, old)
    return buf.getvalue()


def exec_main(ctx, case):
    import os
    import shutil
    from collections import Counter
    from mc.core import HarnessError

    combine = _combine_module()
    G = N.seed_rotation(ctx.seed)
    route = case["route"]
    mode = case["mode"]
    cmd = [int(x) for x in case["cmd_order"]]  # label numbers in the order they are given with -a
    nap = len(cmd)
    work = os.path.join(str(ctx.scratch), f"main-{os.getpid()}")
    shutil.rmtree(work, ignore_errors=True)
    os.makedirs(work)
    ctx.count(evaluations=1, states=1, traces=1)
    # ---- inputs --------------------------------------------------------------------------------------------
    cores = []
    for cn, (sk, aps, pos, sigma) in enumerate(case["cores"]):
        rows, bl = frag_spec(sk, tuple(aps), pos, f"K{cn}q", eoff=cn)
        Mc, tc = N.pose_matrix((cn + case.get("pose", 0)) % len(N.POSES))
        K = build(ml.Molecule, rows, bl, [c @ G for c in _pose_coords(rows, Mc, tc)], f"core{cn}", 0, 1)
        # attachment point number k of the fragment carries label X<sigma[k]>  (or one shared label)
        for a in K.atoms:
            if a.atype == AtomType.AttachmentPoint:
                k = int(a.label.split("AP")[1])
                a.label = "XX" if route == "shared-label" else f"X{int(sigma[k])}"
        cores.append(K)
    subs = []
    for sn in range(int(case["nsubs"])):
        srows, sbl = frag_spec("p2", (0,), AP_POS[sn % 3], f"S{sn}x", eoff=sn, apoff=7)
        Ms, ts = N.pose_matrix((sn + 3) % len(N.POSES))
        S = build(ml.Molecule, srows, sbl, [c @ G for c in _pose_coords(srows, Ms, ts)], f"sub{sn}", 0, 1)
        S.get_atom(f"S{sn}x0").element = MARKERS[sn]
        subs.append(S)
    try:
        for fn, objs in (("cores.mlib", cores), ("subs.mlib", subs)):
            lib = ml.MoleculeLibrary(os.path.join(work, fn), readonly=False, overwrite=True)
            with lib.writing(timeout=10):
                for o in objs:
                    lib[o.name] = o
        lib = ml.MoleculeLibrary(os.path.join(work, "subs.mlib"), readonly=True)
        with lib.reading(timeout=10):
            sub_order = list(lib.keys())  # the order in which molli will hand the substituents to itertools
        lib = ml.MoleculeLibrary(os.path.join(work, "cores.mlib"), readonly=True)
        with lib.reading(timeout=10):
            core_back = {k: lib[k] for k in lib.keys()}
    except Exception as e:
        raise HarnessError(f"C12 main: could not prepare the input libraries: {_exc(e)}: {e}")
    subs_by_name = {s_.name: s_ for s_ in subs}
    # ---- reference model: which atom of the core must carry the k-th substituent --------------------------
    def targets(K):
        """anchor labels in the order the substituents of a combination are to be attached"""
        apl = [(i, a.label) for i, a in enumerate(K.atoms) if a.atype == AtomType.AttachmentPoint]
        nb = {}
        for b in K.bonds:
            nb.setdefault(b.a1.label, []).append(b.a2)
            nb.setdefault(b.a2.label, []).append(b.a1)
        if route == "by-label":
            order = []
            for num in cmd:
                order += [i for i, lab in apl if lab == f"X{num}"]
        else:  # one shared label, or no -a at all: the attachment points in the order of the atom list
            order = [i for i, _ in apl]
        anch = []
        for i in order:
            ap = K.atoms[i]
            other = [b.a2 if b.a1 is ap else b.a1 for b in K.bonds if b.a1 is ap or b.a2 is ap]
            anch.append(other[0].label)
        return anch, order

    if mode == "permutns":
        combos = list(itertools.permutations(sub_order, nap))
    elif mode == "same":
        combos = [tuple([n_] * nap) for n_ in sub_order]
    elif mode == "combns":
        combos = list(itertools.combinations(sub_order, nap))
    else:
        combos = list(itertools.combinations_with_replacement(sub_order, nap))
    asc = all(targets(K)[1] == sorted(targets(K)[1]) for K in cores)
    pre = f"molli_main[route={route},attachment-indices-in-requested-order={'ascending' if asc else 'not-ascending'}]"
    what = f"molli combine -m {mode} {' '.join('-a X%d' % n_ for n_ in cmd) if route == 'by-label' else ('-a XX' if route == 'shared-label' else '(no -a)')} on cores {[(c[0], c[1], c[2], c[3]) for c in case['cores']]}"
    argv = [os.path.join(work, "cores.mlib"), "-s", os.path.join(work, "subs.mlib"), "-o", os.path.join(work, "out.mlib"), "-m", mode, "--overwrite", "-n", "1"]
    if route == "by-label":
        for num in cmd:
            argv += ["-a", f"X{num}"]
    elif route == "shared-label":
        argv += ["-a", "XX"]
    found = []
    try:
        _run_main(combine, argv)
        ctx.count(transitions=len(combos) * len(cores) * nap)
        out = ml.MoleculeLibrary(os.path.join(work, "out.mlib"), readonly=True)
        with out.reading(timeout=10):
            prods = {k: out[k] for k in out.keys()}
    except _Alarm:
        ctx.violation(f"{pre}:did-not-finish", f"{what}: molli_main did not return within 60 s", case)
        shutil.rmtree(work, ignore_errors=True)
        return
    except (Exception, SystemExit) as e:
        ctx.violation(f"{pre}:raised-{_exc(e)}", f"{what}: molli_main raised {_exc(e)}: {e}", case)
        ctx.outcome(("main", route, mode, asc, "raised"))
        shutil.rmtree(work, ignore_errors=True)
        return
    want = {}
    if not combos or not nap:
        pass
    for K in cores:
        for cb in combos:
            want["_".join([K.name] + list(cb))] = (K, cb)
    if set(prods) != set(want):
        found.append(("product-names-differ", f"library holds {sorted(prods)[:4]}..., expected {sorted(want)[:4]}... ({len(prods)} vs {len(want)})"))
    for name in sorted(set(prods) & set(want)):
        K, cb = want[name]
        P = prods[name]
        anch, _ = targets(K)
        exp_labels = Counter(a.label for a in K.atoms if a.atype != AtomType.AttachmentPoint)
        for sname in cb:
            exp_labels.update(a.label for a in subs_by_name[sname].atoms if a.atype != AtomType.AttachmentPoint)
        got_labels = Counter(a.label for a in P.atoms)
        if P.name != name:
            found.append(("product-name-differs-from-its-key", f"{name}: name {P.name!r}"))
        if got_labels != exp_labels or any(a.atype == AtomType.AttachmentPoint for a in P.atoms):
            found.append(("atoms-differ", f"{name}: atoms {dict(got_labels)} expected {dict(exp_labels)}"))
            continue
        core_labels = {a.label for a in K.atoms}
        nbrs = {}
        for b in P.bonds:
            for x, y in ((b.a1, b.a2), (b.a2, b.a1)):
                if x.label in core_labels and y.label not in core_labels:
                    nbrs.setdefault(x.label, Counter())[(y.label, y.element.symbol)] += 1
        exp = {}
        for k, sname in enumerate(cb):
            sn = int(sname[3:])
            exp.setdefault(anch[k], Counter())[(f"S{sn}x0", MARKERS[sn])] += 1
        if nbrs != exp:
            found.append(
                (
                    "substituent-on-the-wrong-attachment-point",
                    f"{name}: core atom -> (substituent atom, marker element) is {{{', '.join(f'{k}: {sorted(v)}' for k, v in sorted(nbrs.items()))}}}, expected {{{', '.join(f'{k}: {sorted(v)}' for k, v in sorted(exp.items()))}}}",
                )
            )
        nb_exp = sum(1 for b in K.bonds if b.a1.atype != AtomType.AttachmentPoint and b.a2.atype != AtomType.AttachmentPoint) + sum(
            1 for sname in cb for b in subs_by_name[sname].bonds if b.a1.atype != AtomType.AttachmentPoint and b.a2.atype != AtomType.AttachmentPoint
        ) + nap
        if P.n_bonds != nb_exp:
            found.append(("bonds-differ", f"{name}: {P.n_bonds} bonds, expected {nb_exp}"))
    seen = set()
    for sym, text in found:
        if sym in seen:
            continue
        seen.add(sym)
        ctx.violation(f"{pre}:{sym}", f"{what}: {text}", case)
    ctx.outcome(("main", route, mode, asc, nap, len(cores), tuple(sorted(seen)), len(prods)))
    if not found:
        ctx.nontrivial(("main", repr(sorted((k_, repr(v_)) for k_, v_ in case.items()))))
    shutil.rmtree(work, ignore_errors=True)


def main_cases(thorough):
    out = []
    two = [("p3", [0, 2], "first"), ("p3", [0, 2], "last"), ("s4", [1, 2], "after"), ("a1", [0, 0], "first"), ("r3", [0, 1], "last")]
    three = [("s4", [1, 2, 3], "after"), ("p3", [0, 1, 2], "first"), ("a1", [0, 0, 0], "last")]
    n = 0
    for cores_, nap in ((two, 2), (three, 3)):
        perms = list(itertools.permutations(range(nap)))
        for ci, core in enumerate(cores_):
            if not thorough and nap == 3 and ci == 2:
                continue
            for sigma in perms:  # which label sits on which attachment point: index order vs label numbers
                for cmd in perms:  # order of -a on the command line
                    modes = MAIN_MODES if (thorough or nap == 2) else [MAIN_MODES[(n + j) % 4] for j in (0, 1)]
                    for mode in modes:
                        n += 1
                        case = {"family": "main", "route": "by-label", "mode": mode, "cmd_order": list(cmd), "nsubs": 3 if nap == 3 or n % 2 else 2, "pose": n % 6, "cores": [list(core) + [list(sigma)]]}
                        out.append(case)
                        if n % 3 == 0 or thorough:
                            # a second core in the same library: other atom order, other label placement
                            other = cores_[(ci + 1) % len(cores_)]
                            out.append(dict(case, cores=[list(core) + [list(sigma)], list(other) + [list(perms[(perms.index(sigma) + 1) % len(perms)])]]))
            for route in ("shared-label", "by-type"):
                for mode in MAIN_MODES:
                    out.append({"family": "main", "route": route, "mode": mode, "cmd_order": list(range(nap)), "nsubs": 3, "pose": ci, "cores": [list(core) + [list(perms[ci % len(perms)])]]})
    return out


def part_main(ctx, spec):
    lo, hi = spec
    for i, c in enumerate(main_cases(ctx.thorough)[lo:hi]):
        exec_main(ctx, c)
        if lo == 0 and i == 2:
            ctx.sample(c)


# =====================================================================================================
EXEC = {"join": exec_join, "asm": exec_asm, "rejoin": exec_rejoin, "main": exec_main}
PARTS = {"join": part_join, "qm": part_qm, "par": part_par, "asm": part_asm, "rejoin": part_rejoin, "near": part_near, "main": part_main, "deflen": part_deflen, "aporder": part_aporder}


def _run_part(ctx, part):
    import os
    import time

    t0 = time.time()
    kind, spec = part
    PARTS[kind](ctx, spec)
    if os.environ.get("C12_DEBUG"):
        print("C12_DEBUG", kind, spec, f"{time.time()-t0:.1f}s", {k: float(f"{v:.3g}") for k, v in sorted(_MAXR.items())}, flush=True)


def _chunks(n, k):
    step = max(1, (n + k - 1) // k)
    return [(lo, min(n, lo + step)) for lo in range(0, n, step)]


def run(ctx):
    thorough = ctx.thorough
    opt_text = (
        "the full product dist {None,1.0,2.5} x optimize_rotation {off,on}"
        if thorough
        else "two of the six (dist {None,1.0,2.5}, optimize_rotation {off,on}) combinations per (A, B, pose), rotating so that every (A, B) pair meets all six over its poses (quick tier; the thorough tier runs the full product)"
    )
    par_text = "all 19 x 19 fragment pairs x 4 length ratios" if thorough else "19 fragments as A x 7 (one per skeleton + a two-attachment one) as B x 2 length ratios (quick tier)"
    ctx.rule = (
        "exhaustive over a finite input lattice, nothing sampled: every tree skeleton on 1..4 heavy atoms and the 3-ring with an attachment "
        "point on any atom (plus two-/three-attachment fragments), 3 atom orders, as A and as B x 6 rigid poses of B x " + opt_text + ", coordinates "
        "turned by the seed-chosen global rotation; the full charge/mult/override product (972) on two structural cases; exactly parallel and "
        "antiparallel attachment vectors (" + par_text + " x {global pose, both anchors at the origin, axis aligned} x optimize_rotation) with EVERY "
        "answer of a 12-entry numpy.random.rand menu (+ answers parallel to v2 when they lie in [0,1)^3); every case is executed at least twice "
        "with different answers and different global generator seeds; iterated joins through scripts/combine._ml_assemble for every order of "
        "core_aps; the storage order of the attachment bond - (neighbour, AP) or (AP, neighbour) - for A, for B and for both, x Molecule/Structure x "
        "optimize_rotation, judged by the geometric oracle and differentially against the (neighbour, AP) product (also rotated through the general "
        "join family and the assembly cores/substituents); join without dist for every ordered pair of anchor elements out of 24 elements with a single-bond radius + one without (625 pairs); the entry point molli_main driven in-process with an argument vector on .mlib files (cores with 2 and 3 labelled attachment "
        "points: every placement of the labels on the attachment points x every order of -a on the command line x modes "
        "{permutns, same, combns, combns_repl} x routes {by label, one shared label, by atom type}, one or two cores per library), products read "
        "back from the output library and identified by marker elements; near-degenerate relative orientations: B's attachment vector turned by {0.01, 0.3, 1, 2, 5} degrees off exactly antiparallel "
        "and off exactly parallel to A's, about 3 (thorough: 4) axes orthogonal to it, x both optimize_rotation settings x dist {None, 1.5} "
        "(quick: 7 x 7 fragment pairs, two of the four option pairs per case in rotation; thorough: 19 x 19, all four); "
        "histories on the SAME objects: join -> [join at the other attachment point of a two-attachment fragment] -> one in-place "
        "edit of the first or of the second fragment out of 14 (move one atom: other / anchor / attachment point, coords= non-rigid, "
        "rotate_dihedral, scale, translate, transform, element, bond type, charge+mult, label, attrib+formal charge, add_atom) -> join again at "
        "the same attachment points, for 6 x 6 fragment pairs (10 x 10 thorough), both argument orders join(A,B) / join(B,A), every join "
        "judged by the full oracle against the inputs as they are at that moment. The result is 'holds for every lattice point'. A case is non-trivial when all its executions satisfy every oracle "
        "(every case moves B by a rigid motion other than the identity)"
    )
    ctx.assumptions += [
        "tolerance 1e-9 relative to the largest coordinate involved (Molecule/Structure coordinates are float64 - measured)",
        "atoms are identified by their (unique) labels, so no atom order is demanded of the product; when one substituent object is used twice its copies are told apart by order of use",
        "'points along A's former attachment direction' and B's orientation are judged without assuming how A is moved: A (resp. B) together with the point where its attachment point has to end up - at the original anchor-AP distance along the new bond - must be congruent (distances and signed volumes) with the input fragment including its attachment point",
        "near-degenerate orientations (tilt family) are judged with 1e-9 widened to 256 eps / max(1+cos(v2,-v1), 1e-6) <= 5.7e-8, the conditioning of the rotation join documents to build with tol=1e-6; everything else stays at 1e-9",
        "molli_main layer: nprocs=1, no --hadd, no --obopt; products come back through the library codec (single precision), so only names, atom/bond tables and which core atom carries which substituent (marker element S / P / Cl) are judged there; the expected combinations are itertools over the substituents in the order the library lists them",
        "join without dist: the new bond's length is the sum of the two anchors' single-bond covalent radii (documented by Bond.expected_length), taken from a literal Pyykko table in this module (24 elements, equal to the reference tree's values); an element without a radius counts as carbon; anchors outside the table are not judged for length",
        "every attrs field of every atom and bond (enumerated with attrs.fields at run time, parent excluded) is compared between product and fragments; the fragments carry a distinct non-default value in every field",
        "a multiplicity override of 0 is not a multiplicity and is not enumerated; the charge override 0 is",
        "partial (atomic) charges of the inputs are not part of the property; shared attrib dictionaries belong to C06",
        "`molli combine` passes core_aps in ascending index order unless `-a` labels are given in another order; both orders are enumerated and reported under different signatures",
        "molli.scripts.combine needs the OpenBabel python bindings at import time; a placeholder module is installed for that import only (obopt=None, hadd=False: hydrogen completion is C16)",
    ]
    frs = join_frag_list(thorough)
    ctx.bound.update(
        {
            "fragments_as_A_and_B": len(frs),
            "poses": len(N.POSES),
            "dist": [str(d) for d in DISTS],
            "rng_menu": len(N.RNG_MENU),
            "assemble_cases": len(asm_cases(thorough)),
            "charge_mult_product": len(Q_MENU) ** 2 * len(M_MENU) ** 2 * len(QO_MENU) * len(MO_MENU),
        }
    )
    parts = []
    for lo, hi in _chunks(len(frs), len(frs)):
        parts.append(("join", (lo, hi)))
    qm_pairs = [(("p2", [1], 0, "last"), ("s4", [0], 0, "first")), (("r3", [0, 1], 1, "after"), ("a1", [0], 0, "last"))]
    for pr in qm_pairs:
        parts.append(("qm", pr))
    for lo, hi in _chunks(19, 19):
        parts.append(("par", (lo, hi)))
    na = len(asm_cases(thorough))
    for lo, hi in _chunks(na, 16):
        parts.append(("asm", (lo, hi)))
    no = len(aporder_cases(thorough))
    for lo, hi in _chunks(no, 8):
        parts.append(("aporder", (lo, hi)))
    ctx.bound["attachment_bond_storage_order_cases"] = no
    nd = len(deflen_cases(thorough))
    for lo, hi in _chunks(nd, 4):
        parts.append(("deflen", (lo, hi)))
    ctx.bound["default_length_element_pairs"] = len(DEFLEN_ELEMENTS) ** 2
    nm = len(main_cases(thorough))
    for lo, hi in _chunks(nm, 16):
        parts.append(("main", (lo, hi)))
    ctx.bound["molli_main_cases"] = nm
    nn = len(near_cases(thorough))
    for lo, hi in _chunks(nn, 16):
        parts.append(("near", (lo, hi)))
    ctx.bound["near_degenerate_cases"] = nn
    ctx.bound["tilts_deg"] = list(TILTS_DEG)
    nr = len(rejoin_cases(thorough))
    for lo, hi in _chunks(nr, 16):
        parts.append(("rejoin", (lo, hi)))
    ctx.bound["rejoin_cases"] = nr
    ctx.pmap(_run_part, parts)
    ctx.note("parts", len(parts))


def replay(ctx, case):
    EXEC[case["family"]](ctx, case)
