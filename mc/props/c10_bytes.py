"""
C10 helper: PATH-LEVEL BYTE DAMAGE.  The text faults of c10_text act on decoded strings handed to
loads_all_*; a loader that opens a FILE decides itself how bytes become text.  Here a base text is
written to a file with ONE byte replaced or inserted - 0xFF / 0x80 / 0xC5 (not decodable as UTF-8),
NUL, SUB (0x1A), CR - at every position inside the structural tokens of representative lines (record
type indicators, counts, atom id / x / y / z / type / charge, bond id / end points / type, xyz count /
symbol / x / y / z), and the file is read through every path-taking entry point:
ml.load, ml.load_all, <Molecule|Structure>.load_<fmt>, .load_all_<fmt>, ConformerEnsemble.load_<fmt>,
ml.load(otype="ensemble").

Oracle (the property): the call raises, or what it returns is content of the undamaged file read through
the SAME entry point (every returned molecule / conformer is, in order, one of the undamaged file).  The
damaged bytes are also shown to the strict reference reader (decoded as latin-1, universal newlines as
text mode does it): if it finds a well-formed file with other content the case is checked for
termination only.  Quick tier: first and last line of every record kind in the first and last block;
thorough: every line.
"""
from __future__ import annotations

import os
from pathlib import Path

import numpy as np

import molli as ml

from mc.props import c10 as C
from mc.props import c10_text as T

BYTES = (0xFF, 0x80, 0xC5, 0x00, 0x1A, 0x0D)
BYTECLASS = {0xFF: "undecodable", 0x80: "undecodable", 0xC5: "undecodable", 0x00: "NUL", 0x1A: "SUB", 0x0D: "CR"}
ROLES = {"rti", "n-atoms", "n-bonds", "n-subst", "id", "x", "y", "z", "type", "charge", "a1", "a2", "count", "symbol"}

QUICK_BASES = ["file:dummy.mol2", "gen_tiny.mol2", "gen_confs3.mol2", "file:dummy.xyz", "gen_tiny.xyz", "gen_confs3.xyz"]
THOROUGH_BASES = QUICK_BASES + ["gen_mixed.mol2", "gen_mixed.xyz", "gen_record_multi.mol2", "file:benzene.mol2", "file:pentane_confs.xyz"]


def entries(fmt):
    """(name, entry class, thunk factory) of every path-taking entry point"""
    L = []
    L.append(("ml.load(str)", "ml.load", lambda p: ml.load(str(p))))
    L.append(("ml.load(Path, Structure)", "ml.load", lambda p: ml.load(Path(p), otype=ml.Structure)))
    L.append(("ml.load_all(Path)", "ml.load_all", lambda p: ml.load_all(Path(p))))
    L.append(("ml.load(str, ensemble)", "ml.load-ensemble", lambda p: ml.load(str(p), otype="ensemble")))
    for cls in (ml.Molecule, ml.Structure):
        one = getattr(cls, f"load_{fmt}")
        al = getattr(cls, f"load_all_{fmt}")
        L.append((f"{cls.__name__}.load_{fmt}(Path)", "Class.load", lambda p, f=one: f(Path(p))))
        L.append((f"{cls.__name__}.load_all_{fmt}(str)", "Class.load_all", lambda p, f=al: f(str(p))))
    ens = getattr(ml.ConformerEnsemble, f"load_{fmt}")
    L.append((f"ConformerEnsemble.load_{fmt}(Path)", "Ensemble.load", lambda p, f=ens: f(Path(p))))
    return L


def content(v):
    """-> list of comparable items (molecule snapshots / conformer snapshots) or None (foreign value)"""
    if isinstance(v, ml.ConformerEnsemble):
        idx = {id(a): i for i, a in enumerate(v.atoms)}
        atoms = tuple((C._ev(a.element), a.label, C._ev(a.atype), C._ev(a.geom), a.formal_charge) for a in v.atoms)
        bonds = tuple((idx.get(id(b.a1), -1), idx.get(id(b.a2), -1), C._ev(b.btype)) for b in v.bonds)
        out = []
        co = np.asarray(v._coords, dtype=np.float64)
        ch = np.asarray(v._atomic_charges, dtype=np.float64)
        for k in range(co.shape[0]):
            out.append(("conf", v.name, atoms, bonds, tuple(repr(float(x) + 0.0) for x in co[k].ravel()), tuple(repr(float(x) + 0.0) for x in ch[k].ravel())))
        return out
    if isinstance(v, ml.Promolecule):
        return [C.msnap(v)]
    if isinstance(v, (list, tuple)) and all(isinstance(m, ml.Promolecule) for m in v):
        return [C.msnap(m) for m in v]
    return None


def chosen_lines(doc, thorough):
    """indices of the lines whose tokens are damaged"""
    if thorough:
        return [i for i, l in enumerate(doc) if any(t[2] in ROLES for t in l[3])]
    nb = max(l[2] for l in doc)
    pick = []
    for b in sorted({0, nb}):
        by = {}
        for i, l in enumerate(doc):
            if l[2] == b and any(t[2] in ROLES for t in l[3]):
                by.setdefault(l[1], []).append(i)
        for cls, idx in by.items():
            pick += sorted({idx[0], idx[-1]})
    return sorted(set(pick))


def byte_faults(doc, thorough):
    for i in chosen_lines(doc, thorough):
        text, cls, block, toks = doc[i]
        for j, (a, b, role, flag) in enumerate(toks):
            if role not in ROLES:
                continue
            for byte in BYTES:
                for pos in range(a, b):
                    yield {"line": i, "tok": j, "op": "replace", "pos": pos, "byte": byte}
                for pos in range(a, b + 1):
                    yield {"line": i, "tok": j, "op": "insert", "pos": pos, "byte": byte}


def damaged_bytes(doc, f):
    pre = "".join(l[0] for l in doc[: f["line"]]).encode("ascii")
    line = doc[f["line"]][0].encode("ascii")
    post = "".join(l[0] for l in doc[f["line"] + 1 :]).encode("ascii")
    p = f["pos"]
    if f["op"] == "replace":
        line = line[:p] + bytes([f["byte"]]) + line[p + 1 :]
    else:
        line = line[:p] + bytes([f["byte"]]) + line[p:]
    return pre + line + post


def as_text(data):
    """what the strict reference reader is shown: every byte a character, universal newlines"""
    return data.decode("latin-1").replace("\r\n", "\n").replace("\r", "\n")


classify_first_record = T.classify_first_record


class ByteBase:
    def __init__(self, ctx, name):
        self.base = C.Base(name)
        if not self.base.text.isascii():
            raise C.HarnessError(f"{name} is not an ASCII text")
        self.dir = Path(ctx.scratch) / f"bytes-{os.getpid()}"
        self.dir.mkdir(parents=True, exist_ok=True)
        self.path = self.dir / f"damaged.{self.base.fmt}"
        self.path.write_bytes(self.base.text.encode("ascii"))
        self.entries = []
        self.ref = {}
        for name_, ecls, fn in entries(self.base.fmt):
            r = C.guarded_read(self.base.fmt, None, len(self.base.doc), call=lambda fn=fn: fn(self.path))
            if r[0] != "ok":
                continue  # this entry point does not read the undamaged file (e.g. an ensemble of different molecules)
            c = content(r[1])
            if c is None:
                continue
            self.entries.append((name_, ecls, fn))
            self.ref[name_] = c
        # single-structure loaders may return any complete molecule of the file
        self.any_all = {}
        for name_, ecls, fn in self.entries:
            if ecls in ("Class.load_all", "ml.load_all"):
                self.any_all.setdefault("Structure" if "Structure" in name_ else "Molecule", self.ref[name_])


def judge_bytes(ctx, bb, f, only_entry=None):
    base = bb.base
    data = damaged_bytes(base.doc, f)
    bb.path.write_bytes(data)
    cat = T.classify(base.fmt, as_text(data), base.ref)
    loc_cls = base.doc[f["line"]][1]
    role = base.doc[f["line"]][3][f["tok"]][2]
    h = C.hashlib.sha1(data).hexdigest()[:20]
    ctx.state_keys.add("b" + h)
    if cat == "damaged":
        ctx.nontrivial("b" + h)
    ctx.add_note("byte_texts_" + cat)
    for name_, ecls, fn in bb.entries:
        if only_entry is not None and name_ != only_entry:
            continue
        out = C.guarded_read(base.fmt, None, len(base.doc) + 2, call=lambda fn=fn: fn(bb.path))
        ctx.count(evaluations=1, transitions=1, traces=1)
        case = {"layer": "bytes", "base": base.name, "fault": f, "entry": name_}

        def viol(symptom, what):
            sig = f"{base.fmt}|path-byte-{f['op']}|{BYTECLASS[f['byte']]}|{loc_cls}|{ecls}:{symptom}"
            ctx.violation(sig, f"{base.name} written to a file with byte 0x{f['byte']:02X} ({f['op']}) at column {f['pos']} of line {f['line']} ({loc_cls}/{role}), read by {name_}: {what}", case, repro_bytes(base, data, name_))

        if out[0] == "hang":
            ctx.outcome(("hang", out[1]))
            viol(f"reader-did-not-terminate({out[1]})", "the call did not finish")
            continue
        if out[0] == "exc":
            ctx.outcome(("bytes-exc", out[1]))
            continue
        got = content(out[1])
        ctx.outcome(("bytes-ok", cat, ecls))
        if ecls in ("ml.load", "Class.load") and cat != "different" and classify_first_record(base.fmt, as_text(data), base.ref) == "different":
            # a single-structure loader reads the first record only (that is what the class-level codec
            # does); a first record that is a well-formed record with other content is not damage to it
            ctx.add_note("byte_texts_first_record_wellformed_different_(single_loaders)")
            continue
        if cat == "different":
            ctx.add_note("byte_texts_excluded_wellformed_different")
            continue
        if got is None:
            viol("result-not-molecules", f"returned {type(out[1]).__name__}")
            continue
        allowed = bb.ref[name_]
        if ecls in ("ml.load", "Class.load"):
            allowed = bb.any_all.get("Structure" if "Structure" in name_ else "Molecule", allowed) + allowed
            ok = all(g in allowed for g in got)
        else:
            ok = T.is_sublist(got, allowed)
        if not ok:
            viol("altered-content-returned", f"returned {len(got)} molecule(s)/conformer(s) that are not content of the undamaged file (a byte the text layer cannot decode or must not ignore was swallowed)")


def repro_bytes(base, data, entry):
    if len(data) > 4000:
        return None
    call = {
        "ml.load(str)": "ml.load(p)",
        "ml.load(Path, Structure)": "ml.load(pathlib.Path(p), otype=ml.Structure)",
        "ml.load_all(Path)": "ml.load_all(pathlib.Path(p))",
        "ml.load(str, ensemble)": "ml.load(p, otype='ensemble')",
    }.get(entry)
    if call is None:
        cls, meth = entry.split("(")[0].split(".")
        call = f"ml.{cls}.{meth}(p)"
    return f"import pathlib, molli as ml\np = '/tmp/c10_damaged.{base.fmt}'\nopen(p, 'wb').write({data!r})\nr = {call}\nprint(r, getattr(r, 'coords', None) if not isinstance(r, list) else [m.coords for m in r])\n"


def run_bytes(ctx, part):
    """part = (base name, chunk, number of chunks)"""
    C.install_guards()
    name, ci, nc = part
    bb = ByteBase(ctx, name)
    n = 0
    for f in byte_faults(bb.base.doc, ctx.thorough):
        if n % nc == ci:
            if C._hangs >= C.MAX_HANGS_PER_PARTITION:
                ctx.cap_hit(f"{name}: byte partition abandoned after {C._hangs} watchdog time-outs")
                break
            judge_bytes(ctx, bb, f)
        n += 1
    if ci == 0:
        ctx.add_note("byte_faults_enumerated", n)
        ctx.add_note("byte_entry_points_" + bb.base.fmt, len(bb.entries))


def replay_bytes(ctx, case):
    C.install_guards()
    bb = ByteBase(ctx, case["base"])
    judge_bytes(ctx, bb, case["fault"], only_entry=case["entry"])
