"""
C09 - every public ml.load / loads / load_all / loads_all / dump / dumps entry point agrees with the
class-level codec.

Engine: enumx (DESIGN 3.4) - the full configuration matrix is enumerated, every cell is executed on
the real entry point and compared with what the corresponding class method (Molecule.load_mol2,
ConformerEnsemble.loads_xyz, obj.dump_xyz, ...) produces on the same input.  The comparison uses the
harness's own structural snapshot (no __eq__ of the library is trusted).

Cell = (function, format, how the format is given, source/target kind, otype / object class, name,
parser / writer [, file mode]) x input family.

What is demanded per cell (nothing more than the property text / the docstrings of reader.py and
writer.py):
  * a documented error condition applies (unsupported format -> ValueError, unknown parser/writer ->
    ValueError, load_all(otype=ensemble) -> ValueError, cdxml from a string -> NotImplementedError,
    openbabel parser while openbabel is not installed -> ImportError): the call raises one of the
    applicable exceptions;
  * the source kind is outside the documented signature (a stream or file content given to load, a
    path given to loads, ...): the call raises, or returns what the class method returns for the same
    argument - never something else;
  * otherwise: same outcome as the class method (structural snapshot, or the same exception type);
    a list wherever the function promises one; the name override is the name of every returned
    object; text lands in the target given, a stream handed in stays open and writable.
"""
from __future__ import annotations

import hashlib
import importlib.util
import io
import os
import shutil
from pathlib import Path

import numpy as np

import molli as ml

LEVEL = "model_checking"

FILES = Path(ml.files.ROOT)

READERS = ("load", "loads", "load_all", "loads_all")
FMTS = ("xyz", "mol2", "cdxml", "sdf", "nonsense")  # sdf: openbabel-only; nonsense: nobody's
FMT_SUPPORTED_READ = {"xyz", "mol2", "cdxml"}
FMT_SUPPORTED_WRITE = {"xyz", "mol2"}
# formats the openbabel tables of reader.py / writer.py list (own copy of the relevant facts)
FMT_OBABEL = {"xyz", "mol2", "cdxml", "sdf"}
KINDS = ("pathstr", "Path", "stream", "str")
OTYPES = ("molecule", "ensemble", "Structure", "Molecule", "ConformerEnsemble")
PARSERS = ("molli", "openbabel", "no_such_parser")
OBJKINDS = ("Molecule", "Structure", "ConformerEnsemble")
TARGETS = ("pathstr", "Path", "stream", "stringio")
MODES = ("a", "w")

NAMES_GIVEN = ("renamed_by_caller", "X9", "given_name")
# what callers really pass as a name: the override is handed to the codec as it is
NAME_ALPHABET = (
    ("empty", ""),
    ("plain", "renamed"),
    ("hyphen", "L-proline"),
    ("comma", "2,6-lutidine"),
    ("dot", "dendrobine.opt"),
    ("parentheses", "(R)-BINOL"),
    ("blank", "pentane conformers"),
    ("unicode", "na\u00efve-\u00c5ngstr\u00f6m-\u03b2"),
    ("long", "a_name_of_two_hundred_characters_" + "x" * 167),
    ("digits", "12345"),
)
HAVE_OPENBABEL = importlib.util.find_spec("openbabel") is not None


def otype_arg(o):
    return {"molecule": "molecule", "ensemble": "ensemble", "Structure": ml.Structure, "Molecule": ml.Molecule, "ConformerEnsemble": ml.ConformerEnsemble}[o]


def otype_cls(o):
    return {"molecule": ml.Molecule, "ensemble": ml.ConformerEnsemble, "Structure": ml.Structure, "Molecule": ml.Molecule, "ConformerEnsemble": ml.ConformerEnsemble}[o]


def oclass(o):
    return "ensemble" if o in ("ensemble", "ConformerEnsemble") else "molecule"


def fmtclass(f):
    return f if f in ("xyz", "mol2", "cdxml") else "unsupported"


def kindclass(k):
    return {"pathstr": "path", "Path": "path", "stream": "stream", "stringio": "stream", "str": "str"}[k]


# ---- structural snapshot (the harness's own notion of "the same object") -----------------------
def _enumval(v):
    if v is None:
        return None
    if hasattr(v, "value") and hasattr(v, "name"):
        return (type(v).__name__, v.name)
    return repr(v)


def _attrib(d):
    try:
        return tuple(sorted((repr(k), repr(v)) for k, v in dict(d).items()))
    except Exception:
        return repr(d)


def _arr(a):
    if a is None:
        return None
    a = np.asarray(a)
    if a.dtype == object:
        return ("obj", a.shape, repr(a.tolist()))
    a = np.ascontiguousarray(a, dtype=np.float64)
    # NaN payloads are normalised so that "uninitialised" compares equal to itself
    a = np.where(np.isnan(a), np.float64("nan"), a) + 0.0
    return (a.shape, hashlib.sha1(a.tobytes()).hexdigest())


def snap(o, with_name=True):
    """hashable structural snapshot of whatever an entry point returned."""
    if isinstance(o, list):
        return ("list", tuple(snap(x, with_name) for x in o))
    if isinstance(o, tuple):
        return ("tuple", tuple(snap(x, with_name) for x in o))
    if isinstance(o, str):
        return ("str", o)
    if o is None:
        return ("None",)
    if not isinstance(o, ml.Promolecule):
        return ("foreign", type(o).__name__, repr(o)[:80])
    atoms = []
    idx = {}
    for i, a in enumerate(o.atoms):
        idx[id(a)] = i
        atoms.append(
            (
                _enumval(a.element),
                a.isotope,
                a.label,
                _enumval(a.atype),
                _enumval(a.stereo),
                _enumval(a.geom),
                a.formal_charge,
                a.formal_spin,
                _attrib(a.attrib),
            )
        )
    bonds = []
    for b in getattr(o, "bonds", None) or []:
        bonds.append(
            (
                idx.get(id(b.a1), "foreign"),
                idx.get(id(b.a2), "foreign"),
                b.label,
                _enumval(b.btype),
                _enumval(b.stereo),
                repr(b.f_order),
                _attrib(b.attrib),
            )
        )
    out = [
        type(o).__name__,
        o.name if with_name else None,
        getattr(o, "charge", None),
        getattr(o, "mult", None),
        _attrib(getattr(o, "attrib", {}) or {}),
        tuple(atoms),
        tuple(bonds),
        _arr(getattr(o, "_coords", None)),
        _arr(getattr(o, "_atomic_charges", None)),
    ]
    if isinstance(o, ml.ConformerEnsemble):
        out.append(("nconf", o.n_conformers, _arr(getattr(o, "_weights", None))))
    return tuple(out)


def names_of(o):
    if isinstance(o, (list, tuple)):
        return [getattr(x, "name", None) for x in o]
    return [getattr(o, "name", None)]


def outcome_of(thunk):
    """('ok', value) or ('exc', type-name, exception)"""
    try:
        v = thunk()
    except Exception as e:  # noqa: BLE001 - every exception class is an outcome
        return ("exc", type(e).__name__, e)
    return ("ok", v)


def digest(x):
    return hashlib.sha1(repr(x).encode()).hexdigest()[:16]


SUFFIX_VARIANTS = ("agree", "swap", "foreign", "none")
SWAP = {"xyz": ".mol2", "mol2": ".xyz", "cdxml": ".mol2", "sdf": ".xyz", "nonsense": ".mol2"}


def suffix_for(fmt, variant):
    """file name suffix of a path whose content / requested format is `fmt`:
    agree: .<fmt>; swap: another SUPPORTED suffix; foreign: a suffix nobody supports; none: no suffix"""
    return {"agree": "." + fmt, "swap": SWAP[fmt], "foreign": ".inp", "none": ""}[variant]


def kindsig(cell):
    k = kindclass(cell["kind"])
    sv = cell.get("suffix", "agree")
    if cell.get("variant"):
        k += "[trailing-garbage]" if cell["variant"].startswith("trailing") else "[later-record-damaged]"
    if sv == "agree":
        return k
    return k + ("(no-suffix)" if sv == "none" else "(suffix-says-otherwise)")


# ---- input families ------------------------------------------------------------------------------
BUNDLED_CDXML = ("substituents.cdxml", "charges_mult.cdxml", "BOX_bridging_fragments.cdxml", "BOX_cores.cdxml", "parser_demo.cdxml", "parser_demo2.cdxml", "BOX_4position_fragments.cdxml")


def quick_families():
    return [
        ("dendrobine", "dendrobine.mol2", "dendrobine.xyz", "substituents.cdxml"),
        ("pentane_confs", "pentane_confs.mol2", "pentane_confs.xyz", "charges_mult.cdxml"),
        ("generated_mixed", None, None, "BOX_bridging_fragments.cdxml"),
        ("generated_confs", None, None, "substituents.cdxml"),
        ("nonascii_utf8", None, None, "BOX_bridging_fragments.cdxml"),
    ]


def thorough_families():
    fams = list(quick_families())
    seen = {"dendrobine.mol2", "pentane_confs.mol2"}
    k = 0
    for p in sorted(FILES.glob("*.mol2")):
        if p.name in seen:
            continue
        xyz = p.with_suffix(".xyz")
        fams.append((p.stem, p.name, xyz.name if xyz.exists() else None, BUNDLED_CDXML[k % len(BUNDLED_CDXML)]))
        k += 1
    return fams


class Family:
    """Scratch copies of one input in every format, under names with the right (and wrong) suffixes."""

    def __init__(self, ctx, spec):
        self.spec = tuple(spec)
        name, mol2, xyz, cdxml = spec
        self.name = name
        self.dir = Path(ctx.scratch) / f"fam-{name}-{os.getpid()}"
        if self.dir.exists():
            shutil.rmtree(self.dir)
        self.dir.mkdir(parents=True)
        self.generated = []
        if name == "generated_mixed":
            # molli-written multi-molecule texts, a different molecule in every block
            mols = [ml.Molecule.load_mol2(FILES / f) for f in ("dummy.mol2", "benzene.mol2", "dmf.mol2")]
            mol2_text = "".join(m.dumps_mol2() for m in mols)
            xyz_text = "".join(m.dumps_xyz() for m in mols)
            self.generated = ["mol2", "xyz"]
        elif name == "nonascii_utf8":
            # molli-written texts with 2-, 3- and 4-byte UTF-8 characters in every free-text position the
            # formats have: molecule name (= xyz comment line), atom labels, mol2 comment lines; stored
            # as UTF-8 files.  All bundled files are ASCII.
            self.sigtag = "[non-ascii-content]"
            mols = [ml.Molecule.load_mol2(FILES / f) for f in ("dmf.mol2", "benzene.mol2")]
            mols[0].name = "\u03b2-pin\u00e8ne_\u2192\u03943_\U0001d6fc"
            mols[1].name = "benz\u00e8ne \u20ac"
            for m in mols:
                for a, lab in zip(m.atoms, ("C\u03b1", "H\u20ac", "N\U0001d6fc")):
                    a.label = lab
            note = "# na\u00efve \u2192 comment line with \U0001d6fc\n"
            mol2_text = "".join(note + m.dumps_mol2() for m in mols)
            xyz_text = "".join(m.dumps_xyz() for m in mols)
            self.generated = ["mol2", "xyz", "cdxml"]
        elif name == "generated_confs":
            # molli-written conformer files (same constitution in every block)
            ens = ml.ConformerEnsemble.load_mol2(FILES / "pentane_confs.mol2")
            mol2_text = ens.dumps_mol2()
            xyz_text = ens.dumps_xyz()
            self.generated = ["mol2", "xyz"]
        else:
            mol2_text = (FILES / mol2).read_text()
            if xyz is not None:
                xyz_text = (FILES / xyz).read_text()
            else:
                # no bundled xyz twin: a generated one (first block of the mol2 file, written by molli)
                try:
                    xyz_text = "".join(m.dumps_xyz() for m in ml.Molecule.load_all_mol2(FILES / mol2))
                except Exception:
                    xyz_text = ""
                self.generated = ["xyz"]
        self.text = {"mol2": mol2_text, "xyz": xyz_text, "cdxml": (FILES / cdxml).read_text()}
        if name == "nonascii_utf8":
            # a label of the drawing with non-ASCII characters (the file declares encoding="UTF-8")
            self.text["cdxml"] = self.text["cdxml"].replace(">MeTol</s>", ">Me-\u03b2\u20ac\U0001d6fc</s>")
        # the unsupported formats are given a real, parseable payload (mol2), so that an
        # implementation that wrongly accepts them has something to return
        self.text["sdf"] = mol2_text
        self.text["nonsense"] = mol2_text
        self.path = {}
        for f in FMTS:
            p = self.dir / f"{name}.{f}"
            p.write_text(self.text[f], encoding="utf-8")
            self.path[f] = p
            # the same content under names whose suffix says something else / nothing
            for sv in ("swap", "foreign", "none"):
                q = self.dir / (f"{name}-holds-{f}" + suffix_for(f, sv))
                q.write_text(self.text[f], encoding="utf-8")
                self.path[(f, sv)] = q
        # a second, different content per format (other molecule count and names): the history cells
        # overwrite a path with it
        if name == "pentane_confs" or cdxml == "BOX_bridging_fragments.cdxml":
            alt = ("dendrobine.mol2", "dendrobine.xyz", "charges_mult.cdxml")
        else:
            alt = ("pentane_confs.mol2", "pentane_confs.xyz", "BOX_bridging_fragments.cdxml")
        self.alt_spec = alt
        self.alt = {"mol2": (FILES / alt[0]).read_text(), "xyz": (FILES / alt[1]).read_text(), "cdxml": (FILES / alt[2]).read_text()}

    def source(self, kind, fmt, suffix="agree"):
        """-> (argument, closer)"""
        pth = self.path[fmt] if suffix == "agree" else self.path[(fmt, suffix)]
        if kind == "pathstr":
            return str(pth), None
        if kind == "Path":
            return Path(pth), None
        if kind == "stream":
            s = open(pth, "rt")
            return s, s
        if kind == "str":
            return self.text[fmt], None
        raise ValueError(kind)

    def cleanup(self):
        shutil.rmtree(self.dir, ignore_errors=True)


# ---- reader cells ------------------------------------------------------------------------------
def reader_cells(order):
    """the full product; `order` rotates the alphabets (seed)."""

    def rot(t):
        r = order % len(t)
        return t[r:] + t[:r]

    for func in rot(READERS):
        for fmt in rot(FMTS):
            for kind in rot(KINDS):
                for fmtmode in ("explicit", "suffix"):
                    if fmtmode == "suffix" and (kind not in ("pathstr", "Path") or func in ("loads", "loads_all")):
                        continue  # only load/load_all document a format deduced from the file suffix
                    # an explicit format on a path: the suffix of the path agrees, names another supported
                    # format, names nothing anybody supports, or is absent (the explicit format decides)
                    svs = SUFFIX_VARIANTS if (fmtmode == "explicit" and kind in ("pathstr", "Path")) else ("agree",)
                    for sv in svs:
                        for otype in rot(OTYPES):
                            for nm in ("none", "given"):
                                for parser in rot(PARSERS):
                                    yield {"op": "read", "func": func, "fmt": fmt, "fmtmode": fmtmode, "kind": kind, "suffix": sv, "otype": otype, "name": nm, "parser": parser}
    # the name override alphabet, on every supported cell of the documented source kind
    for func in rot(READERS):
        for fmt in ("xyz", "mol2", "cdxml"):
            if fmt == "cdxml" and func in ("loads", "loads_all"):
                continue
            for kind in ("pathstr", "Path") if func in ("load", "load_all") else ("str",):
                for otype in rot(OTYPES):
                    for k in range(len(NAME_ALPHABET)):
                        yield {"op": "read", "func": func, "fmt": fmt, "fmtmode": "explicit", "kind": kind, "suffix": "agree", "otype": otype, "name": "given", "parser": "molli", "alpha": k}
    # cdxml retrieval by key (name not given: which of the two wins is not specified)
    for func in ("load",):
        for kind in ("pathstr", "Path"):
            for otype in rot(OTYPES):
                for sv in SUFFIX_VARIANTS:
                    yield {"op": "read", "func": func, "fmt": "cdxml", "fmtmode": "explicit", "kind": kind, "suffix": sv, "otype": otype, "name": "none", "parser": "molli", "key": "first"}


def read_sig(cell, symptom):
    if symptom.startswith("raised-"):
        # an exception type nobody documents: identified by (function, source kind, type) - the format,
        # otype and parser of the cell it was first seen in are incidental
        return f"{cell['func']}|{kindsig(cell)}:{symptom}"
    p = "" if cell["parser"] == "molli" else f"|parser={'openbabel' if cell['parser']=='openbabel' else 'unknown'}"
    if "alpha" in cell:
        p += f"|name={NAME_ALPHABET[cell['alpha']][0]}"
    return f"{cell['func']}|{fmtclass(cell['fmt'])}|{kindsig(cell)}|{oclass(cell['otype'])}{p}:{symptom}"


def applicable_errors(cell):
    """documented error conditions of a reader cell -> list of (exception class, why)"""
    func, fmt, parser, otype = cell["func"], cell["fmt"], cell["parser"], cell["otype"]
    errs = []
    if parser == "no_such_parser":
        errs.append((ValueError, "unknown parser"))
    elif parser == "molli":
        if fmt not in FMT_SUPPORTED_READ:
            errs.append((ValueError, "format not supported by the molli parser"))
        elif fmt == "cdxml" and func in ("loads", "loads_all"):
            errs.append((NotImplementedError, "cdxml can only be parsed from a file"))
    elif parser == "openbabel":
        if fmt not in FMT_OBABEL:
            errs.append((ValueError, "format not supported by openbabel"))
        elif not HAVE_OPENBABEL:
            errs.append((ImportError, "openbabel is not installed"))
    if func == "load_all" and oclass(otype) == "ensemble":
        errs.append((ValueError, "load_all cannot produce ensembles"))
    return errs


def in_domain(cell):
    if cell["func"] in ("load", "load_all"):
        return cell["kind"] in ("pathstr", "Path")
    return cell["kind"] == "str"


def call_reader(fam, cell, given):
    func = getattr(ml, cell["func"])
    fmt = cell["fmt"]
    src, closer = fam.source(cell["kind"], fmt, cell.get("suffix", "agree"))
    kw = {"parser": cell["parser"], "otype": otype_arg(cell["otype"])}
    if cell["name"] == "given":
        kw["name"] = given
    if cell.get("key"):
        kw["key"] = first_key(fam)
    try:
        if cell["fmtmode"] == "suffix":
            return outcome_of(lambda: func(src, **kw))
        return outcome_of(lambda: func(src, fmt, **kw))
    finally:
        if closer is not None:
            try:
                closer.close()
            except Exception:
                pass


def first_key(fam):
    keys = list(ml.CDXMLFile(fam.path["cdxml"]).keys())
    return keys[0] if keys else "no-such-key"


def class_reader(fam, cell, given):
    """what the class-level codec does with the same argument -> outcome or None (no such method)"""
    cls = otype_cls(cell["otype"])
    fmt = cell["fmt"]
    name = given if cell["name"] == "given" else None
    if fmt == "cdxml":
        if cell["kind"] not in ("pathstr", "Path"):
            return None
        src, _ = fam.source(cell["kind"], fmt, cell.get("suffix", "agree"))

        def thunk():
            cdxf = ml.CDXMLFile(src)
            if cell.get("key"):
                return cls(cdxf[first_key(fam)])
            if cell["func"] == "load":
                return cls(cdxf._parse_fragment(cdxf.xfrags[0], name=name))
            return [cls(cdxf._parse_fragment(fg, name=name)) for fg in cdxf.xfrags]

        if cell["func"] not in ("load", "load_all"):
            return None
        return outcome_of(thunk)
    meth = getattr(cls, f"{cell['func']}_{fmt}", None)
    if meth is None:
        return None
    src, closer = fam.source(cell["kind"], fmt, cell.get("suffix", "agree"))
    try:
        return outcome_of(lambda: meth(src, name=name))
    finally:
        if closer is not None:
            try:
                closer.close()
            except Exception:
                pass


def describe(oc):
    if oc[0] == "exc":
        return f"raised {oc[1]}: {str(oc[2])[:100]}"
    v = oc[1]
    if isinstance(v, list):
        return f"returned a list of {len(v)} ({', '.join(sorted({type(x).__name__ for x in v}))})"
    return f"returned {type(v).__name__} {getattr(v, 'name', '')!r}"


def run_reader_cell(ctx, fam, cell, given):
    if "alpha" in cell:
        given = NAME_ALPHABET[cell["alpha"]][1]
    got = call_reader(fam, cell, given)
    ctx.count(evaluations=1, transitions=1, traces=1)
    case = {"family": list(fam.spec), "cell": cell, "given": given}
    errs = applicable_errors(cell)
    key = (fam.name, tuple(sorted((k, str(v)) for k, v in cell.items())))
    want_list = cell["func"] in ("load_all", "loads_all")

    def viol(symptom, what):
        sg = read_sig(cell, symptom)
        if getattr(fam, "sigtag", ""):
            head, _, tail = sg.partition(":")
            sg = head + fam.sigtag + ":" + tail
        ctx.violation(sg, f"ml.{cell['func']}({cell['kind']} [suffix {cell.get('suffix', 'agree')}], fmt={cell['fmt']!r}/{cell['fmtmode']}, otype={cell['otype']}, name={cell['name']}, parser={cell['parser']}): {what}", case, repro_reader(fam, cell, given))

    if got[0] == "exc":
        ctx.outcome(("exc", got[1]))
    else:
        ctx.outcome(("ok", digest(snap(got[1]))))

    # 0. loads_all(otype=ensemble): no class-level counterpart exists and load_all documents the
    #    same request as a ValueError - any refusal is fine, whatever else the cell asks for
    if cell["func"] == "loads_all" and oclass(cell["otype"]) == "ensemble" and got[0] == "exc":
        return

    # 1. a documented error condition applies
    if errs:
        if got[0] == "ok":
            viol(f"returned-instead-of-{errs[0][0].__name__}", f"{describe(got)}; documented: {errs[0][0].__name__} ({errs[0][1]})")
        elif not in_domain(cell):
            pass  # an argument of an undocumented kind may be rejected before anything else is looked at
        elif not any(isinstance(got[2], e) for e, _ in errs):
            viol(f"raised-{got[1]}", f"{describe(got)}; documented: {errs[0][0].__name__} ({errs[0][1]})")
        return

    exp = class_reader(fam, cell, given)
    if exp is not None:
        ctx.count(transitions=1)

    # 2. argument kind outside the documented signature: raise, or behave like the class method
    if not in_domain(cell):
        if got[0] == "ok":
            if exp is None or exp[0] != "ok" or snap(exp[1]) != snap(got[1]):
                viol("undocumented-source-kind-returned-something-else", f"{describe(got)}; the class method {describe(exp) if exp else 'does not exist'}")
        return

    # 3. supported cell
    if want_list and got[0] == "ok" and not isinstance(got[1], list):
        viol("returned-single-object-not-list", f"{describe(got)}; a list is promised")
        return
    if exp is None:
        # no class-level counterpart (ConformerEnsemble has no loads_all_*): a list or an exception
        return
    if exp[0] == "exc":
        if got[0] == "ok":
            viol(f"returned-but-class-method-raised", f"{describe(got)}; the class method {describe(exp)}")
        elif got[1] != exp[1]:
            viol(f"raised-{got[1]}", f"{describe(got)}; the class method {describe(exp)}")
        return
    if got[0] == "exc":
        viol(f"raised-{got[1]}", f"{describe(got)}; the class method {describe(exp)}")
        return
    ctx.nontrivial(key)
    bad_name = False
    if cell["name"] == "given" and given:  # (an empty name is no override: the codec's own rule applies)
        nm = names_of(got[1])
        if any(n != given for n in nm):
            bad_name = True
            viol("name-override-ignored", f"name={given!r} was passed, the result is named {sorted(set(map(str, nm)))}")
    if snap(got[1], with_name=not bad_name) != snap(exp[1], with_name=not bad_name):
        g, e = got[1], exp[1]
        if type(g) is not type(e):
            sym = "result-type-differs-from-class-method"
        elif isinstance(g, list) and len(g) != len(e):
            sym = "result-length-differs-from-class-method"
        elif isinstance(g, list) and [type(x) for x in g] != [type(x) for x in e]:
            sym = "result-type-differs-from-class-method"
        elif snap(g, with_name=False) == snap(e, with_name=False):
            sym = "name-differs-from-class-method"
        else:
            sym = "result-differs-from-class-method"
        viol(sym, f"{describe(got)}; the class method {describe(exp)}")


def repro_reader(fam, cell, given):
    name, mol2, xyz, cdxml = fam.spec
    fmt = cell["fmt"]
    if name.startswith("generated"):
        return None
    fn = {"mol2": mol2, "xyz": xyz, "cdxml": cdxml}.get(fmt, mol2)
    if fn is None:
        return None
    src = {"pathstr": f"str(p)", "Path": "p", "stream": "open(p)", "str": "p.read_text()"}[cell["kind"]]
    ot = {"molecule": "'molecule'", "ensemble": "'ensemble'"}.get(cell["otype"], "ml." + cell["otype"])
    nm = f", name={given!r}" if cell["name"] == "given" else ""
    fa = f", {fmt!r}" if cell["fmtmode"] == "explicit" else ""
    return f"import molli as ml\np = ml.files.ROOT / {fn!r}\nr = ml.{cell['func']}({src}{fa}, parser={cell['parser']!r}, otype={ot}{nm})\nprint(type(r), getattr(r, 'name', None))\n"


# ---- writer cells ------------------------------------------------------------------------------
def writer_cells(order):
    def rot(t):
        r = order % len(t)
        return t[r:] + t[:r]

    for fmt in rot(FMTS):
        for obj in rot(OBJKINDS):
            for nm in ("none", "given"):
                for writer in rot(PARSERS):
                    yield {"op": "write", "func": "dumps", "fmt": fmt, "fmtmode": "explicit", "kind": "str", "otype": obj, "name": nm, "parser": writer}
                    for target in rot(TARGETS):
                        for mode in MODES:
                            for fmtmode in ("explicit", "suffix"):
                                if fmtmode == "suffix" and target not in ("pathstr", "Path"):
                                    continue
                                svs = SUFFIX_VARIANTS if (fmtmode == "explicit" and target in ("pathstr", "Path")) else ("agree",)
                                for sv in svs:
                                    yield {"op": "write", "func": "dump", "fmt": fmt, "fmtmode": fmtmode, "kind": target, "suffix": sv, "otype": obj, "name": nm, "parser": writer, "mode": mode}


def write_errors(cell):
    fmt, writer = cell["fmt"], cell["parser"]
    errs = []
    if writer == "no_such_parser":
        errs.append((ValueError, "unknown writer"))
    elif writer == "molli":
        if fmt not in FMT_SUPPORTED_WRITE:
            errs.append((ValueError, "format not supported by the molli writer"))
    elif writer == "openbabel":
        if fmt not in FMT_OBABEL:
            errs.append((ValueError, "format not supported by openbabel"))
        elif not HAVE_OPENBABEL:
            errs.append((ImportError, "openbabel is not installed"))
    return errs


def make_object(fam, objkind, nm, given):
    cls = {"Molecule": ml.Molecule, "Structure": ml.Structure, "ConformerEnsemble": ml.ConformerEnsemble}[objkind]
    try:
        o = cls.load_mol2(fam.path["mol2"])
    except Exception:
        return None
    if nm == "given":
        o.name = given
    return o


PREFIX = "# written before the dump\n"
SENTINEL = "# written after the dump\n"


def run_writer_cell(ctx, fam, cell, given, objcache):
    ok = (cell["otype"], cell["name"])
    if ok not in objcache:
        objcache[ok] = make_object(fam, cell["otype"], cell["name"], given)
    obj = objcache[ok]
    if obj is None:
        ctx.add_note("writer_cells_skipped_object_not_loadable")
        return
    fmt, func, kind = cell["fmt"], cell["func"], cell["kind"]
    case = {"family": list(fam.spec), "cell": cell, "given": given}
    key = (fam.name, tuple(sorted((k, str(v)) for k, v in cell.items())))
    errs = write_errors(cell)

    def viol(symptom, what):
        p = "" if cell["parser"] == "molli" else f"|writer={'openbabel' if cell['parser']=='openbabel' else 'unknown'}"
        if symptom.startswith("raised-"):
            sig = f"{func}|{kindsig(cell)}:{symptom}"
        else:
            sig = f"{func}|{fmtclass(fmt) if fmt in FMT_SUPPORTED_WRITE else 'unsupported'}|{kindsig(cell)}|{oclass(cell['otype'])}{p}:{symptom}"
        ctx.violation(sig, f"ml.{func}({cell['otype']} -> {kind} [suffix {cell.get('suffix', 'agree')}], fmt={fmt!r}/{cell['fmtmode']}, writer={cell['parser']}, mode={cell.get('mode')}): {what}", case, repro_writer(fam, cell))

    ctx.count(evaluations=1, transitions=1, traces=1)

    if func == "dumps":
        got = outcome_of(lambda: ml.dumps(obj, fmt, writer=cell["parser"]))
        ctx.outcome(("exc", got[1]) if got[0] == "exc" else ("ok", digest(got[1])))
        if errs:
            if got[0] == "ok":
                viol(f"returned-instead-of-{errs[0][0].__name__}", f"returned {type(got[1]).__name__}; documented: {errs[0][0].__name__} ({errs[0][1]})")
            elif not any(isinstance(got[2], e) for e, _ in errs):
                viol(f"raised-{got[1]}", f"{describe(got)}; documented: {errs[0][0].__name__}")
            return
        exp = outcome_of(getattr(obj, f"dumps_{fmt}"))
        ctx.count(transitions=1)
        if exp[0] == "exc":
            if got[0] == "ok":
                viol("returned-but-class-method-raised", f"returned text; obj.dumps_{fmt}() {describe(exp)}")
            elif got[1] != exp[1]:
                viol(f"raised-{got[1]}", f"{describe(got)}; obj.dumps_{fmt}() {describe(exp)}")
            return
        if got[0] == "exc":
            viol(f"raised-{got[1]}", f"{describe(got)}; obj.dumps_{fmt}() returned {len(exp[1])} characters")
            return
        ctx.nontrivial(key)
        if not isinstance(got[1], str):
            viol("result-not-a-string", f"returned {type(got[1]).__name__}")
        elif got[1] != exp[1]:
            viol("text-differs-from-class-method", f"returned {len(got[1])} characters, obj.dumps_{fmt}() returned {len(exp[1])}")
        return

    # ---- dump ----
    tdir = fam.dir / "out"
    tdir.mkdir(exist_ok=True)
    tpath = tdir / ("target" + suffix_for(fmt, cell.get("suffix", "agree")))
    tpath.write_text(PREFIX)
    stream = None
    if kind == "pathstr":
        target = str(tpath)
    elif kind == "Path":
        target = tpath
    elif kind == "stream":
        stream = target = open(tpath, "a")
    else:
        stream = target = io.StringIO()
        stream.write(PREFIX)
    kw = {"writer": cell["parser"], "mode": cell["mode"]}
    try:
        if cell["fmtmode"] == "suffix":
            got = outcome_of(lambda: ml.dump(obj, target, **kw))
        else:
            got = outcome_of(lambda: ml.dump(obj, target, fmt, **kw))
        ctx.outcome(("exc", got[1]) if got[0] == "exc" else ("ok", kind))

        # stream ownership: whatever happened, a stream handed in is still open and writable
        def stream_state():
            if stream is None:
                return None
            if stream.closed:
                return "closed"
            try:
                stream.write(SENTINEL)
                stream.flush()
            except Exception as e:  # noqa: BLE001
                return f"unwritable ({type(e).__name__})"
            return "open"

        if errs:
            if got[0] == "ok":
                viol(f"returned-instead-of-{errs[0][0].__name__}", f"returned; documented: {errs[0][0].__name__} ({errs[0][1]})")
            elif not any(isinstance(got[2], e) for e, _ in errs):
                viol(f"raised-{got[1]}", f"{describe(got)}; documented: {errs[0][0].__name__} ({errs[0][1]})")
            else:
                st = stream_state()
                if st not in (None, "open"):
                    viol("stream-not-usable-after-error", f"the caller's stream is {st} after the documented {errs[0][0].__name__}")
            return

        buf = io.StringIO()
        exp = outcome_of(lambda: getattr(obj, f"dump_{fmt}")(buf))
        ctx.count(transitions=1)
        if exp[0] == "exc":
            if got[0] == "ok":
                viol("returned-but-class-method-raised", f"returned; obj.dump_{fmt}(stream) {describe(exp)}")
            elif got[1] != exp[1]:
                viol(f"raised-{got[1]}", f"{describe(got)}; obj.dump_{fmt}(stream) {describe(exp)}")
            return
        if got[0] == "exc":
            viol(f"raised-{got[1]}", f"{describe(got)}; obj.dump_{fmt}(stream) wrote {len(buf.getvalue())} characters")
            return
        ctx.nontrivial(key)
        if got[1] is not None:
            viol("unexpected-return-value", f"dump returned {type(got[1]).__name__}")
        text = buf.getvalue()
        st = stream_state()
        if st not in (None, "open"):
            viol("stream-closed-by-dump", f"the caller's stream is {st} after dump")
            return
        if kind == "stringio":
            content = stream.getvalue()
            want = PREFIX + text + SENTINEL
        elif kind == "stream":
            stream.close()
            content = tpath.read_text()
            want = PREFIX + text + SENTINEL
        else:
            content = tpath.read_text()
            want = (PREFIX if cell["mode"] == "a" else "") + text
        if content != want:
            if kind in ("pathstr", "Path") and content == (PREFIX if cell["mode"] == "w" else "") + text:
                sym = "file-mode-not-honoured"
            elif text not in content:
                sym = "text-differs-from-class-method"
            else:
                sym = "text-not-where-expected"
            viol(sym, f"target holds {len(content)} characters, expected {len(want)} (prefix/{cell['mode']} + obj.dump_{fmt} text)")
    finally:
        if stream is not None and not stream.closed:
            stream.close()


def repro_writer(fam, cell):
    name, mol2, xyz, cdxml = fam.spec
    if mol2 is None:
        return None
    tgt = {"pathstr": "'/tmp/out.%s'" % cell["fmt"], "Path": "pathlib.Path('/tmp/out.%s')" % cell["fmt"], "stream": "open('/tmp/out.txt', 'a')", "stringio": "io.StringIO()", "str": ""}[cell["kind"]]
    fa = f", {cell['fmt']!r}" if cell["fmtmode"] == "explicit" else ""
    if cell["func"] == "dumps":
        return f"import molli as ml\no = ml.{cell['otype']}.load_mol2(ml.files.ROOT / {mol2!r})\nprint(ml.dumps(o{fa}, writer={cell['parser']!r}))\n"
    return f"import io, pathlib, molli as ml\no = ml.{cell['otype']}.load_mol2(ml.files.ROOT / {mol2!r})\nml.dump(o, {tgt}{fa}, writer={cell['parser']!r}, mode={cell['mode']!r})\n"


# ---- driver ------------------------------------------------------------------------------------
def run_family(ctx, part):
    """part = (family spec, selector); selector = "<reader function>:<format>", "write", "history", "names", "extent" (partition only)."""
    spec, sel = part
    given = NAMES_GIVEN[ctx.seed % len(NAMES_GIVEN)]
    if sel == "extent":
        from mc.props import c09_extra

        c09_extra.run_extent(ctx, spec[0], given)
        return
    fam = Family(ctx, spec)
    try:
        ncell = 0
        if sel == "keys":
            from mc.props import c09_extra

            c09_extra.run_key_cells(ctx, fam, given)
        elif sel == "streams":
            from mc.props import c09_extra

            for cell in c09_extra.stream_cells(ctx.seed):
                c09_extra.run_stream_cell(ctx, fam, cell, given)
            c09_extra.run_encoding_cells(ctx, fam, given)
            c09_extra.run_spelling_cells(ctx, fam, given)
        elif sel == "options":
            from mc.props import c09_extra

            for cell in c09_extra.option_cells(ctx.seed):
                c09_extra.run_option_cell(ctx, fam, cell, given)
        elif sel == "names":
            from mc.props import c09_extra

            for cell in c09_extra.name_cells(ctx.seed):
                c09_extra.run_name_cell(ctx, fam, cell, given)
                ncell += 1
        elif sel == "history":
            from mc.props import c09_hist

            for cell in c09_hist.history_cells(ctx.seed):
                c09_hist.run_history_cell(ctx, fam, cell, given)
                ncell += 1
        elif sel == "write":
            objcache = {}
            for cell in writer_cells(ctx.seed):
                run_writer_cell(ctx, fam, cell, given, objcache)
                ncell += 1
            ctx.add_note("families", 1)
        else:
            sfunc, _, sfmt = sel.partition(":")
            for cell in reader_cells(ctx.seed):
                if cell["func"] != sfunc or (sfmt and cell["fmt"] != sfmt):
                    continue
                run_reader_cell(ctx, fam, cell, given)
                ncell += 1
        ctx.count(states=ncell)
    finally:
        fam.cleanup()


def run(ctx):
    ctx.rule = (
        "full product {load,loads,load_all,loads_all} x {xyz,mol2,cdxml,sdf(openbabel-only),nonsense} x {explicit fmt, fmt from suffix} "
        "x {path str, Path, open stream, file content} x {'molecule','ensemble',Structure,Molecule,ConformerEnsemble} x {name None, given} "
        "x {parser molli, openbabel, unknown} and {dump,dumps} x formats x {path str, Path, open file stream, StringIO | returned string} "
        "x {mode a, w} x {Molecule, Structure, ConformerEnsemble object} x {named, renamed} x {writer molli, openbabel, unknown}, per input family; "
        "path cells with an explicit format additionally x {suffix agrees, suffix names another supported format, unsupported suffix, no suffix}; "
        "plus NAME cells (c09_extra: multi-dot names, upper/mixed case suffix, dots in directory names, dot files, trailing dot, no suffix; fmt given and not given) "
        "and EXTENT cells (c09_extra: multi-record texts with a damaged 2nd / 3rd / last record or trailing garbage through every reader, otype and name); "
        "a family of molli-written UTF-8 files with 2-, 3- and 4-byte characters in every free-text position (molecule name / xyz comment, atom labels, mol2 comment lines, a cdxml label) through the whole matrix, "
        "ENCODING cells (c09_extra: load / load_all by path against loads / loads_all of the same text and against the class method on a stream opened as utf-8), "
        "SPELLING cells (c09_extra: writer= / parser= names in Capitalised / UPPER / Title case on dump -> stream, dump -> path, dumps, load, loads, load_all, loads_all must give the outcome of the all-lower-case call; fmt and otype strings in other spellings give the lower-case result or are refused), "
        "KEY cells (c09_extra: ml.load(cdxml, key=K) for every label, every integer position incl. 0, -1 and one past the end, and '' - on the drawing and on a copy with the fragments stored in reverse order), "
        "STREAM-KIND cells (c09_extra: dump into StringIO, file objects opened w / a / r+, NamedTemporaryFile, codecs.open, a write()-only object, a tee, an os.PathLike, a bytes path; load from the corresponding sources), "
        "the name override drawn from an alphabet (empty, plain, hyphen, comma, dot, parentheses, blank, unicode, 200 characters, digits), "
        "OPTION cells (c09_extra: every keyword option a class-level dump_*/dumps_* method of the format knows, each non-default value, all together, and one unknown keyword, through dumps, dump -> StringIO / file stream / path); "
        "plus HISTORY cells (c09_hist): every entry point called twice with a change in between (same path overwritten with other content, "
        "twin paths, result edited by the caller, str then Path, same relative path after chdir; two dumps into one target in every mode pair); "
        "every cell executed on the real entry point; a cell is non-trivial when it is a supported cell in which both the entry point and the "
        "class method produced a value and the two were compared by the harness's structural snapshot (readers) / character by character (writers)"
    )
    ctx.assumptions += [
        "source kinds outside a function's documented signature (stream or file content given to load/load_all, path or stream given to loads/loads_all) may raise any exception; they must not return anything other than what the class method returns for the same argument",
        "loads_all(otype=ensemble) has no class-level counterpart (ConformerEnsemble has no loads_all_*): an exception of any type or a list is accepted, a bare ensemble is not (a list is promised)",
        "when several documented error conditions apply to one cell any of the documented exceptions is accepted",
        "openbabel is %s in this environment: cells that need it are only required to raise ImportError" % ("installed - those cells are skipped" if HAVE_OPENBABEL else "not installed"),
        "cdxml has no class method on Molecule: the class-level codec is CDXMLFile (first fragment for load, every fragment for load_all, cdxf[key] for key=); key= together with name= is not enumerated (which wins is unspecified)",
        "after a dump that raises a documented error the target file's content is not examined (the property does not speak about it); a caller's stream must still be open",
        "an explicit fmt decides, the suffix of a path is only consulted when fmt is None (reader.py 'Default format is deduced from the file suffix', writer.py 'it can also be automatically guessed from the extension')",
        "with fmt=None the format is pathlib's suffix of the path (after the LAST dot of the file name; a leading dot or a trailing dot gives no suffix); a suffix that is a supported format in other letter case may be refused with ValueError or read as that format",
        "extent cells demand what the class method does with the same damaged multi-record argument: the same structures or the same exception class (single-structure loaders read the first record only)",
        "history cells demand nothing new: the second call must equal the class method applied at that moment; handing out the identical object twice is not by itself a violation, only a visible difference is",
        "a stream is whatever the class-level codec can write to (it only calls .write): expected is what obj.dump_<fmt>(target) does with the same kind of target; os.PathLike / bytes paths are not documented target kinds (str | Path | IO): they may be refused the way the class method refuses them or be written to as a path",
        "cdxml key: the class-level codec is CDXMLFile(path)[key] for every key that is not None (labels and integer positions alike)",
        "keyword options: ml.dump / ml.dumps hand **kwargs to the codec - expected is the class method called with the same options (same text, or the same exception class, e.g. TypeError for an option it does not take); the readers take no **kwargs; the `key` argument of the writers is not part of the matrix",
    ]
    fams = thorough_families() if ctx.thorough else quick_families()
    ctx.bound["families"] = [f[0] for f in fams]
    ctx.bound["reader_cells_per_family"] = sum(1 for _ in reader_cells(0))
    ctx.bound["writer_cells_per_family"] = sum(1 for _ in writer_cells(0))
    ctx.note("openbabel_installed", HAVE_OPENBABEL)
    # samples: a handful of real cells
    rc = list(reader_cells(ctx.seed))
    wc = list(writer_cells(ctx.seed))
    for c in (rc[0], rc[len(rc) // 3], rc[2 * len(rc) // 3], rc[-1], wc[0], wc[len(wc) // 2], wc[-1]):
        ctx.sample({"family": fams[0][0], "cell": c})
    from mc.props import c09_hist

    ctx.bound["history_cells_per_family"] = sum(1 for _ in c09_hist.history_cells(0))
    hc = list(c09_hist.history_cells(ctx.seed))
    ctx.samples[-1:] = []  # keep room for a history cell among the samples
    ctx.sample({"family": fams[0][0], "cell": hc[len(hc) // 2]})
    from mc.props import c09_extra

    ctx.bound["name_shape_cells_per_family"] = sum(1 for _ in c09_extra.name_cells(0))
    ctx.bound["extent_cells_per_source"] = sum(1 for _ in c09_extra.extent_cells(0))
    ctx.bound["extent_sources"] = list(c09_extra.EXTENT_SOURCES)
    # (partition only: reader cells are split by function and format so that a large input does not
    #  pin one worker)
    rsel = tuple(f"{fn}:{fm}" for fn in READERS for fm in FMTS)
    parts = []
    for f in fams:
        big = f[1] is not None and (FILES / f[1]).stat().st_size > 150_000
        if big:
            # name shapes and call histories are about dispatch, not content: they are run on every other
            # family and skipped for the one 320 kB input (0.75 s per read)
            ctx.bound.setdefault("families_without_name_and_history_cells", []).append(f[0])
        parts += [(f, sel) for sel in rsel + (("write",) if big else ("write", "history", "names", "options", "keys", "streams"))]
    parts += [((src, None, None, None), "extent") for src in c09_extra.EXTENT_SOURCES]
    ctx.pmap(run_family, parts)


def replay(ctx, case):
    spec = tuple(case["family"])
    if case["cell"].get("variant"):
        from mc.props import c09_extra

        fam = c09_extra.ExtentFamily(ctx, spec[0], case["cell"]["variant"])
        try:
            run_reader_cell(ctx, fam, case["cell"], case["given"])
        finally:
            fam.cleanup()
        return
    fam = Family(ctx, spec)
    try:
        cell = case["cell"]
        if cell["op"] == "read":
            run_reader_cell(ctx, fam, cell, case["given"])
        elif cell["op"] == "spelling":
            from mc.props import c09_extra

            # the cell is part of one sweep: the sweep is repeated and reports the cell again if it still fails
            c09_extra.run_spelling_cells(ctx, fam, case["given"])
        elif cell["op"] == "encoding":
            from mc.props import c09_extra

            c09_extra._one_encoding(ctx, fam, cell, {"load": "loads", "load_all": "loads_all"}[cell["func"]], getattr(fam, "sigtag", ""))
        elif cell["op"] == "key":
            from mc.props import c09_extra

            c09_extra.replay_key(ctx, fam, cell)
        elif cell["op"] == "stream-kind":
            from mc.props import c09_extra

            c09_extra.run_stream_cell(ctx, fam, cell, case["given"])
        elif cell["op"] == "options":
            from mc.props import c09_extra

            obj = make_object(fam, cell["otype"], "none", case["given"])
            if obj is not None:
                c09_extra._one_option(ctx, fam, {k: v for k, v in cell.items() if k != "options"}, case["given"], obj, cell["options"])
        elif cell["op"] == "name":
            from mc.props import c09_extra

            c09_extra.run_name_cell(ctx, fam, cell, case["given"])
        elif cell["op"].startswith("hist-"):
            from mc.props import c09_hist

            c09_hist.run_history_cell(ctx, fam, cell, case["given"])
        else:
            run_writer_cell(ctx, fam, cell, case["given"], {})
    finally:
        fam.cleanup()
