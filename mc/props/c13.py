"""
C13 - CDXML parsing reproduces the drawing: constitution, charges, handedness; determinism; labels.

Bounded-exhaustive input enumeration (engine enumx): every bold-face label of every bundled CDXML
file x a finite menu of semantics-preserving (or handedness-inverting) rewrites of the file produced
with xml.etree.ElementTree, each parsed by the real `molli.ftypes.cdxml.CDXMLFile`:

  identity | stereo marks mirrored (wedge<->hash, bold<->hash) | page translated | page children
  permuted | ids renumbered consistently   (thorough: more parameters, pairs of rewrites, the marks of
  one fragment mirrored at a time)

each file parsed by two fresh CDXMLFile objects with different lookup orders, every label looked up
again after all the others, and once more in a second interpreter (other hash seed, fresh RNG).

Oracle = `c13_walk.Drawing`, an independent ElementTree reading of the *same* file (no molli):
constitution as drawn, which fragment a label is drawn for, and - from the page coordinates and the
stereo marks alone - the orientation / wedge direction / handedness the model has to show.
"""
from __future__ import annotations

import hashlib
import itertools
import json
import os
import shutil
import subprocess
import warnings
import sys
import xml.etree.ElementTree as ET
from pathlib import Path

import numpy as np

from mc.core import HarnessError
from mc.props.c13_walk import Drawing, MIRROR, STEREO_DISPLAYS
from mc.props import c13_sub

LEVEL = "model_checking"

WEDGES = {  # display -> (narrow end is the drawn Begin?, +1 towards the viewer / -1 away)
    "WedgeBegin": (True, +1),
    "WedgedHashBegin": (True, -1),
    "WedgeEnd": (False, +1),
    "WedgedHashEnd": (False, -1),
}
T_NONPLANAR = 0.10  # normalised triple product; an ideal tetrahedral centre has 0.77
T_COLLINEAR = 0.10  # normalised 2-D cross product below which three drawn points count as collinear

TRANSLATIONS = [
    (37.5, -12.25),
    (-300.0, 150.0),
    (1000.0, 1000.0),
    (0.1, 0.2),
    (-7.3, 11.9),
    (5000.0, 0.0),
    (0.0, -4000.0),
    (123.456, 654.321),
    (-0.05, -0.05),
]
XY_ATTRS = ("p",)
BOX_ATTRS = ("BoundingBox",)
XYZ_ATTRS = ("Head3D", "Tail3D", "Center3D", "MajorAxisEnd3D", "MinorAxisEnd3D")
REF_ATTRS = (
    "B",
    "E",
    "Attachments",
    "BondOrdering",
    "BondCircularOrdering",
    "CrossingBonds",
    "SupersededBy",
    "object",
    "ReactionStepReactants",
    "ReactionStepProducts",
    "ReactionStepArrows",
    "ReactionStepObjectsAboveArrow",
    "ReactionStepObjectsBelowArrow",
    "ConnectionOrder",
    "BasisObjects",
)


# =================================================================================================
# rewriting a drawing
# =================================================================================================
def _fmt(x):
    return repr(round(float(x), 6))


def top_fragments(root):
    out = []
    for page in root.findall("./page"):
        for holder in [page] + page.findall("./group"):
            for c in holder:
                if c.tag == "fragment" and any(x.tag == "b" for x in c):
                    out.append(c)
    return out


MARK_SETS = {
    "A": [("Charge", "-1"), ("Radical", "Doublet"), ("Isotope", "14")],
    "B": [("Charge", "1"), ("Radical", "Singlet"), ("Isotope", "3")],
}


def atom_classes(fr):
    """ordinary atom nodes of a top-level fragment by where they are drawn: in the fragment itself,
    inside a contracted group, the atom of a contracted group that carries the group's connection"""
    plain = lambda n: n.tag == "n" and n.get("NodeType") is None
    out = {"top-level": [n for n in fr if plain(n)], "inside-group": [], "group-attachment-atom": []}
    for holder in fr:
        if holder.tag != "n":
            continue
        for inner in holder.findall("./fragment"):
            eps = {n.get("id") for n in inner if n.tag == "n" and n.get("NodeType") == "ExternalConnectionPoint"}
            att = set()
            for b in inner:
                if b.tag == "b":
                    if b.get("B") in eps:
                        att.add(b.get("E"))
                    if b.get("E") in eps:
                        att.add(b.get("B"))
            for n in inner:
                if plain(n):
                    out["group-attachment-atom" if n.get("id") in att else "inside-group"].append(n)
    return out


def annotate(root, cls, which):
    """draws a formal charge, a radical and an isotope on atoms of one class in every fragment"""
    for fr in top_fragments(root):
        cand = atom_classes(fr)[cls]
        if not cand:
            continue
        for j, (attr, val) in enumerate(MARK_SETS[which]):
            n = cand[j % len(cand)]
            n.set(attr, val)


def _centre(e):
    bb = e.get("BoundingBox")
    if bb:
        l, t, r, b = map(float, bb.split())
        return ((l + r) / 2, (t + b) / 2)
    p = e.get("p")
    return tuple(map(float, p.split()[:2])) if p else None


def labelled_pairs(root):
    """[(label element, fragment element)] where the drawing settles the pair (the fragment nearest to
    the label in city-block and in Euclidean distance is the same one and lies above it)"""
    from mc.props.c13_walk import is_label

    page = root.find("./page")
    labels = [t for holder in [page] + page.findall("./group") for t in holder if t.tag == "t" and is_label(t)]
    frs = [(fr, _centre(fr)) for fr in top_fragments(root) if _centre(fr)]
    out = []
    for t in labels:
        lc = _centre(t)
        if lc is None or not frs:
            continue
        f1 = min(frs, key=lambda x: abs(x[1][0] - lc[0]) + abs(x[1][1] - lc[1]))
        f2 = min(frs, key=lambda x: (x[1][0] - lc[0]) ** 2 + (x[1][1] - lc[1]) ** 2)
        if f1[0] is f2[0] and f1[1][1] < lc[1]:
            out.append((t, f1[0]))
    return out


def movable_targets(root):
    """indices j of settled pairs whose fragment stands (nearly) straight above its label"""
    ps = labelled_pairs(root)
    out = []
    for j, (t, fr) in enumerate(ps):
        lc, fc = _centre(t), _centre(fr)
        d = lc[1] - fc[1]
        if d > 5 and abs(fc[0] - lc[0]) <= 0.35 * d and len(ps) > 1:
            out.append(j)
    return out


def _shift(e, dx, dy):
    for x in e.iter():
        if "p" in x.attrib:
            v = x.get("p").split()
            if len(v) == 2:
                x.set("p", f"{_fmt(float(v[0]) + dx)} {_fmt(float(v[1]) + dy)}")
        if "BoundingBox" in x.attrib:
            v = list(map(float, x.get("BoundingBox").split()))
            if len(v) == 4:
                x.set("BoundingBox", " ".join(_fmt(q) for q in (v[0] + dx, v[1] + dy, v[2] + dx, v[3] + dy)))


def move_pair(root, j, side):
    """another labelled fragment (with its label) is moved diagonally above label j: farther from the
    label than its own fragment in city-block distance, nearer in Euclidean distance"""
    ps = labelled_pairs(root)
    tj, fj = ps[j]
    lc, fc = _centre(tj), _centre(fj)
    d = lc[1] - fc[1]
    ti, fi = next((t, f) for n, (t, f) in enumerate(ps[j + 1 :] + ps[:j]) if f is not fj and t is not tj)
    box = lambda e: tuple(map(float, e.get("BoundingBox").split())) if e.get("BoundingBox") else None
    bi, bj = box(fi), box(fj)
    choice = None
    for a, b in ((0.62, 0.62), (0.75, 0.45), (0.85, 0.3), (0.45, 0.75), (0.7, 0.55), (0.8, 0.4)):
        if not (a + b > 1.05 and (a * a + b * b) ** 0.5 < 0.95):
            continue
        tx, ty = lc[0] + side * a * d, lc[1] - b * d
        if choice is None:
            choice = (tx, ty)
        if bi and bj:
            w, h = (bi[2] - bi[0]) / 2, (bi[3] - bi[1]) / 2
            overlap = not (tx + w < bj[0] or tx - w > bj[2] or ty + h < bj[1] or ty - h > bj[3])
            if not overlap:
                choice = (tx, ty)
                break
    ci = _centre(fi)
    dx, dy = choice[0] - ci[0], choice[1] - ci[1]
    _shift(fi, dx, dy)
    _shift(ti, dx, dy)


def _swap_children(parent, a, b):
    ch = list(parent)
    i, j = ch.index(a), ch.index(b)
    ch[i], ch[j] = ch[j], ch[i]
    parent[:] = ch


def reorder_nodes(root, mode, arg=None):
    """changes the order in which the nodes (<n>) of a fragment are listed - ids, bonds and everything
    drawn stay as they are.  reverse: every fragment lists its nodes backwards; begin-after-end /
    begin-before-end: for every stereo bond in turn the two nodes are swapped where needed so that the
    Begin atom comes after / before the End atom; swap-stereo-bond j: just the two nodes of the j-th
    stereo-marked bond change places."""
    frags = list(root.iter("fragment"))
    if mode == "reverse":
        for fr in frags:
            ch = list(fr)
            slots = [i for i, c in enumerate(ch) if c.tag == "n"]
            ns = [ch[i] for i in slots][::-1]
            for i, n in zip(slots, ns):
                ch[i] = n
            fr[:] = ch
        return
    marked = []
    for fr in frags:
        byid = {n.get("id"): n for n in fr if n.tag == "n"}
        for bd in fr:
            if bd.tag == "b" and bd.get("Display") in STEREO_DISPLAYS and bd.get("B") in byid and bd.get("E") in byid:
                marked.append((fr, byid[bd.get("B")], byid[bd.get("E")]))
    if mode == "swap-stereo-bond":
        if arg < len(marked):
            fr, nb, ne = marked[arg]
            _swap_children(fr, nb, ne)
        return
    for fr, nb, ne in marked:
        ch = list(fr)
        b_first = ch.index(nb) < ch.index(ne)
        if (mode == "begin-after-end" and b_first) or (mode == "begin-before-end" and not b_first):
            _swap_children(fr, nb, ne)


def n_marked_bonds(path):
    root = ET.parse(path).getroot()
    n = 0
    for fr in root.iter("fragment"):
        ids = {x.get("id") for x in fr if x.tag == "n"}
        n += sum(1 for bd in fr if bd.tag == "b" and bd.get("Display") in STEREO_DISPLAYS and bd.get("B") in ids and bd.get("E") in ids)
    return n


def add_content(root, what, where):
    """adds an object that carries no label and no chemistry of the labelled fragments: a lone-atom
    (bond-less) fragment, an unlabelled bonded fragment far away, a text that is not bold, an empty group."""
    ids = [int(e.get("id")) for e in root.iter() if (e.get("id") or "").isdigit()]
    nid = [max(ids, default=0) + 1000]

    def new_id():
        nid[0] += 1
        return str(nid[0])

    page = root.find("./page")
    cs = []
    for fr in top_fragments(root):
        bb = fr.get("BoundingBox")
        if bb:
            l, t, r, b = map(float, bb.split())
            cs.append(((l + r) / 2, (t + b) / 2))
    xs = [c[0] for c in cs] or [100.0]
    ys = [c[1] for c in cs] or [100.0]
    if what == "lone-atom":
        x, y = min(xs) - 40.0, min(ys) - 40.0
        if where == "middle":
            x, y = (min(xs) + max(xs)) / 2 + 3.3, (min(ys) + max(ys)) / 2 + 2.2
        obj = ET.Element("fragment", {"id": new_id(), "BoundingBox": f"{_fmt(x - 4)} {_fmt(y - 4)} {_fmt(x + 4)} {_fmt(y + 4)}", "Z": "9000"})
        n = ET.SubElement(obj, "n", {"id": new_id(), "p": f"{_fmt(x)} {_fmt(y)}", "Z": "9001", "Element": "11", "NumHydrogens": "0", "AS": "N"})
        t = ET.SubElement(n, "t", {"p": f"{_fmt(x - 3)} {_fmt(y + 3)}", "BoundingBox": f"{_fmt(x - 3)} {_fmt(y - 4)} {_fmt(x + 4)} {_fmt(y + 3)}"})
        ET.SubElement(t, "s", {"font": "3", "size": "10", "face": "96"}).text = "Na"
    elif what == "far-fragment":
        x, y = max(xs) + 3000.0, max(ys) + 3000.0
        obj = ET.Element("fragment", {"id": new_id(), "BoundingBox": f"{_fmt(x)} {_fmt(y)} {_fmt(x + 10.8)} {_fmt(y + 1)}", "Z": "9000"})
        a, b = new_id(), new_id()
        ET.SubElement(obj, "n", {"id": a, "p": f"{_fmt(x)} {_fmt(y)}", "Z": "9001", "AS": "N"})
        ET.SubElement(obj, "n", {"id": b, "p": f"{_fmt(x + 10.8)} {_fmt(y)}", "Z": "9002", "AS": "N"})
        ET.SubElement(obj, "b", {"id": new_id(), "Z": "9003", "B": a, "E": b, "BS": "N"})
    elif what == "plain-text":
        x, y = min(xs) - 30.0, min(ys) - 30.0
        obj = ET.Element("t", {"id": new_id(), "p": f"{_fmt(x)} {_fmt(y)}", "BoundingBox": f"{_fmt(x)} {_fmt(y - 8)} {_fmt(x + 30)} {_fmt(y)}", "Z": "9000"})
        ET.SubElement(obj, "s", {"font": "3", "size": "10", "face": "0"}).text = "a remark"
    elif what == "empty-group":
        x, y = min(xs) - 20.0, min(ys) - 20.0
        obj = ET.Element("group", {"id": new_id(), "BoundingBox": f"{_fmt(x)} {_fmt(y)} {_fmt(x + 5)} {_fmt(y + 5)}", "Z": "9000"})
    else:  # pragma: no cover
        raise HarnessError(f"unknown content {what}")
    ch = list(page)
    if what == "lone-atom" and where == "between-labels-and-fragments":
        # one lone atom between every label and the fragment drawn above it: nearer to the label than
        # its fragment, so only its being bond-less keeps it from being chosen
        from mc.props.c13_walk import centre_of, is_label

        labels = [t for holder in [page] + page.findall("./group") for t in holder if t.tag == "t" and is_label(t)]
        frs = [(centre_of(fr), fr) for fr in top_fragments(root) if centre_of(fr)]
        for t in labels:
            lc = centre_of(t)
            above = [(abs(c[0] - lc[0]) + abs(c[1] - lc[1]), c) for c, _ in frs if c[1] < lc[1]]
            if not lc or not above:
                continue
            fc = min(above)[1]
            x, y = lc[0] + 0.35 * (fc[0] - lc[0]), lc[1] + 0.35 * (fc[1] - lc[1])
            o = ET.Element("fragment", {"id": new_id(), "BoundingBox": f"{_fmt(x - 2)} {_fmt(y - 2)} {_fmt(x + 2)} {_fmt(y + 2)}", "Z": "9000"})
            ET.SubElement(o, "n", {"id": new_id(), "p": f"{_fmt(x)} {_fmt(y)}", "Z": "9001", "Element": "3", "NumHydrogens": "0", "AS": "N"})
            page.insert(0, o)
        return
    if where == "first":
        page.insert(0, obj)
    elif where == "last":
        page.append(obj)
    elif where == "middle":
        page.insert(len(ch) // 2, obj)
    elif where in ("new-group-first", "new-group-last"):
        g = ET.Element("group", {"id": new_id(), "BoundingBox": obj.get("BoundingBox"), "Z": "8999"})
        g.append(obj)
        if where.endswith("first"):
            page.insert(0, g)
        else:
            page.append(g)
    elif where == "existing-group":
        gs = page.findall("./group")
        if gs:
            gs[0].insert(0, obj)
        else:
            g = ET.Element("group", {"id": new_id(), "BoundingBox": obj.get("BoundingBox"), "Z": "8999"})
            g.append(obj)
            page.insert(len(ch) // 2, g)
    else:  # pragma: no cover
        raise HarnessError(f"unknown place {where}")


def build_variant(src, steps, dst):
    """Writes the rewritten drawing; returns {new id: original id}."""
    tree = ET.parse(src)
    root = tree.getroot()
    back = None
    for st in steps:
        kind = st[0]
        if kind == "mirror":
            for b in root.iter("b"):
                d = b.get("Display")
                if d in MIRROR:
                    b.set("Display", MIRROR[d])
        elif kind == "mirror1":
            fr = top_fragments(root)[st[1]]
            for b in fr.iter("b"):
                d = b.get("Display")
                if d in MIRROR:
                    b.set("Display", MIRROR[d])
        elif kind == "translate":
            dx, dy = st[1], st[2]
            for e in root.iter():
                for k in XY_ATTRS:
                    if k in e.attrib:
                        v = e.get(k).split()
                        if len(v) == 2:
                            e.set(k, f"{_fmt(float(v[0]) + dx)} {_fmt(float(v[1]) + dy)}")
                for k in BOX_ATTRS:
                    if k in e.attrib:
                        v = list(map(float, e.get(k).split()))
                        if len(v) == 4:
                            e.set(k, " ".join(_fmt(x) for x in (v[0] + dx, v[1] + dy, v[2] + dx, v[3] + dy)))
                for k in XYZ_ATTRS:
                    if k in e.attrib:
                        v = list(map(float, e.get(k).split()))
                        if len(v) == 3:
                            e.set(k, " ".join(_fmt(x) for x in (v[0] + dx, v[1] + dy, v[2])))
        elif kind == "permute":
            for page in root.findall("./page"):
                ch = list(page)
                if st[1] == "reverse":
                    new = ch[::-1]
                    for g in page.findall("./group"):
                        g[:] = list(g)[::-1]
                elif st[1] == "rotate":
                    k = st[2] % max(1, len(ch))
                    new = ch[k:] + ch[:k]
                elif st[1] == "labels-first":
                    new = [c for c in ch if c.tag == "t"] + [c for c in ch if c.tag != "t"]
                elif st[1] == "labels-last":
                    new = [c for c in ch if c.tag != "t"] + [c for c in ch if c.tag == "t"]
                else:  # pragma: no cover
                    raise HarnessError(f"unknown permutation {st}")
                page[:] = new
        elif kind == "renumber":
            ids = [e.get("id") for e in root.iter() if e.get("id") is not None]
            if st[1] == "offset":
                m = {i: str(int(i) + int(st[2])) for i in ids}
            elif st[1] == "compact":
                m = {i: str(n + 1) for n, i in enumerate(ids)}
            elif st[1] == "reversed":
                m = {i: str(len(ids) - n) for n, i in enumerate(ids)}
            else:  # pragma: no cover
                raise HarnessError(f"unknown renumbering {st}")
            if len(set(m.values())) != len(ids):
                raise HarnessError("renumbering is not injective")
            for e in root.iter():
                if e.get("id") is not None:
                    e.set("id", m[e.get("id")])
                for k in REF_ATTRS:
                    if k in e.attrib:
                        e.set(k, " ".join(m.get(t, t) for t in e.get(k).split()))
            inv = {v: k for k, v in m.items()}
            back = inv if back is None else {k: back.get(v, v) for k, v in inv.items()}
        elif kind == "atomnumber":
            # drawn atom numbers added to / removed from connection points and ordinary atoms
            n_new = 0
            for n in root.iter("n"):
                nt = n.get("NodeType")
                if nt in ("MultiAttachment", "Fragment", "Nickname", "GenericNickname", "Unspecified"):
                    continue
                is_ap = nt == "ExternalConnectionPoint"
                if st[1] == "remove-all":
                    n.attrib.pop("AtomNumber", None)
                elif st[1] == "remove-ap":
                    if is_ap:
                        n.attrib.pop("AtomNumber", None)
                elif n.get("AtomNumber") is None and (st[1] == "add-all" or (st[1] == "add-ap" and is_ap) or (st[1] == "add-atoms" and not is_ap)):
                    n_new += 1
                    n.set("AtomNumber", f"L{n_new}")
        elif kind == "reorder-nodes":
            reorder_nodes(root, st[1], st[2] if len(st) > 2 else None)
        elif kind == "annotate":
            annotate(root, st[1], st[2])
        elif kind == "move-pair":
            move_pair(root, st[1], st[2])
        elif kind == "add":
            add_content(root, st[1], st[2])
        elif kind == "identity":
            pass
        else:  # pragma: no cover
            raise HarnessError(f"unknown step {st}")
    tree.write(dst, encoding="UTF-8", xml_declaration=True)
    return back or {}


def vclass(steps):
    names = []
    for st in steps:
        if st[0] == "renumber":
            names.append(f"renumber-{st[1]}")
        elif st[0] == "permute":
            names.append("permute")
        elif st[0] == "atomnumber":
            names.append(f"atomnumber-{st[1]}")
        elif st[0] == "add":
            names.append(f"add-{st[1]}")
        elif st[0] == "reorder-nodes":
            names.append("reorder-nodes")
        elif st[0] == "annotate":
            names.append(f"annotate-{st[1]}")
        elif st[0] == "move-pair":
            names.append("move-pair")
        else:
            names.append(st[0])
    return "+".join(names) if names else "identity"


def is_mirrored(steps):
    return sum(1 for s in steps if s[0] == "mirror") % 2 == 1


# =================================================================================================
# independent expectations from a drawn fragment
# =================================================================================================
def order_keys(fr):
    """document order: outermost nodes first, then the contents of the contracted groups."""
    return sorted(fr.atoms, key=lambda k: (len(k) > 1, k))


def ddesc(a):
    if a.kind == "atom":
        return (a.z, a.isotope, a.charge, a.spin, False)
    return (0, a.isotope, a.charge, a.spin, True)


def mdesc(t):
    return (t[0], t[1], t[2], t[3], t[4] == 101)


def split_hapto(fr, idx, obs_bonds):
    hb = set()
    for mk, att in fr.hapto:
        for t in att:
            hb.add(frozenset((idx[mk], idx[t])))
    plain = [b for b in obs_bonds if frozenset((b[0], b[1])) not in hb]
    return plain, hb


def verify_mapping(fr, obs, keys):
    """True when molli atom i <-> drawn atom keys[i] reproduces atoms and non-hapto bonds exactly."""
    if len(keys) != len(obs["atoms"]):
        return False
    for k, t in zip(keys, obs["atoms"]):
        if ddesc(fr.atoms[k]) != mdesc(t):
            return False
    idx = {k: i for i, k in enumerate(keys)}
    plain, _ = split_hapto(fr, idx, obs["bonds"])
    exp = sorted((tuple(sorted((idx[b.a], idx[b.b]))), None if b.display == "Dash" else b.order) for b in fr.bonds)
    got_pairs = sorted(tuple(sorted((b[0], b[1]))) for b in plain)
    if [e[0] for e in exp] != got_pairs:
        return False
    got = {}
    for b in plain:
        got.setdefault(tuple(sorted((b[0], b[1]))), []).append(b[3])
    for pair, o in exp:
        if o is not None and o not in got[pair]:
            return False
    return True


def iso_mapping(fr, obs):
    """independent graph isomorphism (networkx) drawn -> parsed; None when there is none."""
    import networkx as nx
    from networkx.algorithms import isomorphism as iso

    g1 = nx.Graph()
    for k, a in fr.atoms.items():
        g1.add_node(k, d=ddesc(a))
    for b in fr.bonds:
        if fr.hapto and b.display == "Dash":
            continue
        g1.add_edge(b.a, b.b, o=None if b.display == "Dash" else b.order)
    g2 = nx.Graph()
    for i, t in enumerate(obs["atoms"]):
        g2.add_node(i, d=mdesc(t))
    for b in obs["bonds"]:
        if fr.hapto and b[2] == 98:
            continue  # neither the expanded multi-attachment bonds nor dashed bonds are demanded
        g2.add_edge(b[0], b[1], o=b[3])
    if g1.number_of_nodes() != g2.number_of_nodes() or g1.number_of_edges() != g2.number_of_edges():
        return None

    def em(e1, e2):
        return e1["o"] is None or e1["o"] == e2["o"]

    gm = iso.GraphMatcher(g1, g2, node_match=lambda a, b: a["d"] == b["d"], edge_match=em)
    if gm.is_isomorphic():
        return dict(gm.mapping)
    return None


def _ms(xs):
    d = {}
    for x in xs:
        d[x] = d.get(x, 0) + 1
    return d


def fclass(fr):
    if fr.hapto:
        return "hapto"
    if fr.nested:
        return "contracted-group"
    return "plain"


def constitution(fr, obs):
    """-> (mapping key->index or None, [(symptom, what)])"""
    keys = order_keys(fr)
    if verify_mapping(fr, obs, keys):
        mapping = {k: i for i, k in enumerate(keys)}
        reordered = False
    else:
        mapping = iso_mapping(fr, obs)
        reordered = mapping is not None
    bad = []
    if mapping is None:
        d_atoms = [ddesc(a) for a in fr.atoms.values()]
        m_atoms = [mdesc(t) for t in obs["atoms"]]
        nh = sum(len(att) for _, att in fr.hapto)
        if len(d_atoms) != len(m_atoms):
            bad.append((f"atom-count[{fclass(fr)}]", f"{len(m_atoms)} atoms parsed, {len(d_atoms)} nodes drawn"))
        elif _ms(x[0] for x in d_atoms) != _ms(x[0] for x in m_atoms):
            bad.append(("element", "multiset of elements differs from the drawn nodes"))
        elif _ms(x[4] for x in d_atoms) != _ms(x[4] for x in m_atoms):
            bad.append(("attachment-points", f"{sum(x[4] for x in m_atoms)} attachment points parsed, {sum(x[4] for x in d_atoms)} drawn"))
        elif _ms(x[1] for x in d_atoms) != _ms(x[1] for x in m_atoms):
            bad.append(("isotope", f"isotopes {sorted(_ms(x[1] for x in m_atoms).items(), key=repr)} parsed, {sorted(_ms(x[1] for x in d_atoms).items(), key=repr)} drawn"))
        elif _ms(x[2] for x in d_atoms) != _ms(x[2] for x in m_atoms):
            dm, mm = _ms(x[2] for x in d_atoms), _ms(x[2] for x in m_atoms)
            wrong = sorted(c for c in dm if dm[c] != mm.get(c, 0) and c != 0)
            cls = "negative" if any(c < 0 for c in wrong) else "positive"
            bad.append((f"formal-charge[drawn-{cls}]", f"formal charges {sorted(mm.items())} parsed, {sorted(dm.items())} drawn"))
        elif _ms(x[3] for x in d_atoms) != _ms(x[3] for x in m_atoms):
            dm, mm = _ms(x[3] for x in d_atoms), _ms(x[3] for x in m_atoms)
            wrong = sorted(c for c in dm if dm[c] != mm.get(c, 0) and c != 0)
            cls = {1: "Doublet", 2: "Singlet"}.get(wrong[0] if wrong else 0, "none")
            bad.append((f"radical[drawn-{cls}]", f"radical counts {sorted(mm.items())} parsed, {sorted(dm.items())} drawn"))
        elif len(obs["bonds"]) - nh != len(fr.bonds) and not (fr.hapto and len(obs["bonds"]) >= len(fr.bonds)):
            bad.append((f"bond-count[{fclass(fr)}]", f"{len(obs['bonds'])} bonds parsed, {len(fr.bonds)} drawn (+{nh} hapto)"))
        else:
            do = _ms(b.order for b in fr.bonds if b.display != "Dash")
            mo = _ms(b[3] for b in obs["bonds"])
            wrong = sorted(o for o in do if mo.get(o, 0) < do[o])
            if wrong:
                bad.append((f"bond-order[drawn-{wrong[0]:g}]", f"bond orders {sorted(mo.items())} parsed, {sorted(do.items())} drawn"))
            else:
                bad.append(("connectivity", "same atoms and bond orders but a different graph than drawn"))
    else:
        where = lambda sel: "inside-contracted-group" if any(sel(a) and len(k) > 1 for k, a in fr.atoms.items()) else "outermost-atoms"
        if obs["charge"] != fr.total_charge():
            bad.append((f"total-charge[drawn-charges-{where(lambda a: a.charge)}]", f"molecule charge {obs['charge']!r}, drawn formal charges sum to {fr.total_charge()}"))
        if obs["mult"] != fr.multiplicity():
            bad.append((f"multiplicity[drawn-radicals-{where(lambda a: a.spin)}]", f"multiplicity {obs['mult']!r}, drawn radicals give {fr.multiplicity()}"))
    return mapping, reordered, bad


def expected_label(a):
    """drawn atom number if the node carries one; else what the parser documents for the node kind:
    connection point -> 'AP' + ExternalConnectionNum ('AP0' when it has none), ordinary atom -> None."""
    if a.label is not None:
        return a.label, "drawn-atom-number"
    if a.kind == "ap":
        return ("AP" + a.apnum if a.apnum else "AP0"), "default"
    return None, "default"


def atom_labels(fr, obs, mapping, reordered):
    out = []
    if reordered:
        # matched by isomorphism: symmetric atoms may be interchanged, only the multiset is meaningful
        d = _ms(expected_label(a)[0] for a in fr.atoms.values())
        m = _ms(t[5] for t in obs["atoms"])
        if d != m:
            out.append(("atom-label[multiset]", "the multiset of atom labels differs from the drawn atom numbers / documented defaults"))
        return out
    seen = set()
    for key, i in mapping.items():
        a = fr.atoms[key]
        exp, src = expected_label(a)
        got = obs["atoms"][i][5]
        if got != exp:
            kind = "connection-point" if a.kind == "ap" else "atom"
            sym = f"atom-label[{kind};{src}]"
            if sym not in seen:
                seen.add(sym)
                out.append((sym, f"{kind} drawn with AtomNumber={a.label!r} ExternalConnectionNum={a.apnum!r} is labelled {got!r}, expected {exp!r}"))
    return out


def cross2(o, a, b):
    ax, ay, bx, by = a[0] - o[0], a[1] - o[1], b[0] - o[0], b[1] - o[1]
    n = (ax * ax + ay * ay) ** 0.5 * (bx * bx + by * by) ** 0.5
    if n == 0:
        return 0.0
    return (ax * by - ay * bx) / n


def nvol(c, p):
    v = p - c
    n = np.prod(np.linalg.norm(v, axis=1))
    if not np.isfinite(n) or n == 0:
        return float("nan")
    return float(np.linalg.det(v) / n)


class FragGraph:
    """drawn graph helpers for the stereo anchors (all from the walk)."""

    def __init__(self, fr):
        self.fr = fr
        self.ring = fr.ring_bonds()
        self.inc = {k: [] for k in fr.atoms}  # atom -> indices of incident stereo-marked bonds
        self.adj = {k: [] for k in fr.atoms}  # atom -> [(other, bond index, xy of other as drawn)]
        for i, b in enumerate(fr.bonds):
            self.adj[b.a].append((b.b, i, b.bxy))
            self.adj[b.b].append((b.a, i, b.axy))
            if b.display in STEREO_DISPLAYS:
                self.inc[b.a].append(i)
                self.inc[b.b].append(i)
        self.hadj = {k: [] for k in fr.atoms}
        for m, att in fr.hapto:
            for t in att:
                self.hadj[m].append(t)
                self.hadj[t].append(m)

    def far_side(self, i, frm, to):
        """atoms reachable from `to` without using bond i."""
        seen = {to}
        stack = [to]
        while stack:
            x = stack.pop()
            for y, j, _ in self.adj[x]:
                if j == i or y in seen:
                    continue
                seen.add(y)
                stack.append(y)
            for y in self.hadj[x]:
                if y not in seen:
                    seen.add(y)
                    stack.append(y)
        return seen

    def chain_wedges(self):
        """[(bond index, narrow-end atom, wide-end atom, xy narrow, xy wide, sign, display)]"""
        out = []
        for i, b in enumerate(self.fr.bonds):
            if b.display in WEDGES and i not in self.ring:
                begin_narrow, s = WEDGES[b.display]
                if begin_narrow:
                    out.append((i, b.a, b.b, b.axy, b.bxy, s, b.display))
                else:
                    out.append((i, b.b, b.a, b.bxy, b.axy, s, b.display))
        return out


# =================================================================================================
# one file (one variant): parse, compare with the walk
# =================================================================================================
recs_draw: dict = {}  # id(recs dict) -> the independent walk of that file
recs_dups: dict = {}  # id(recs dict) -> labels the drawing carries more than once


def mirror_class(fr, g):
    """the kinds of stereo marks of a fragment for which mirroring the marks must give the exact
    z -> -z image of the model; None where the parser's own conventions rule that out: a wedge mark on
    a ring bond (the documented ring-fusion displacement also moves y by sign * 0.5), marks inside a
    contracted group (the group is re-oriented by a clash search when joined), multi-attachments."""
    if fr.hapto:
        return None
    kinds = set()
    for i, b in enumerate(fr.bonds):
        if b.display in WEDGES:
            if i in g.ring or len(b.key) > 2:
                return None
            kinds.add("chain-wedge")
        elif b.display in ("Bold", "Hash"):
            if len(b.key) > 2:
                return None
            kinds.add("bold-hash")
    for inner in fr.elt.findall("./n/fragment"):
        if any(bd.get("Display") in STEREO_DISPLAYS for bd in inner.iter("b")):
            return None
    return "+".join(sorted(kinds)) if kinds else None


class Rec:
    __slots__ = ("obs", "picked", "ok", "vols", "const_ok", "digest", "mark", "mirror_exact", "token")

    def __init__(self):
        self.obs = None
        self.picked = None
        self.ok = False
        self.vols = {}
        self.const_ok = False
        self.mirror_exact = None
        self.token = None
        self.digest = None
        self.mark = {}


def rot(lst, k):
    lst = list(lst)
    if not lst:
        return lst
    k %= len(lst)
    return lst[k:] + lst[:k]


EDITS = ("add_implicit_hydrogens", "translate", "coords-assigned", "del_atom", "rename", "atom-fields-assigned", "bond-retyped")


def mutate(m, edit):
    """in-place edits a caller may make on the molecule it was given"""
    if edit == "add_implicit_hydrogens":
        m.add_implicit_hydrogens()
    elif edit == "translate":
        m.translate([1.5, -2.25, 0.75])
    elif edit == "coords-assigned":
        m.coords[:] = m.coords * 2.0 + 1.0
    elif edit == "del_atom":
        m.del_atom(m.atoms[m.n_atoms - 1])
    elif edit == "rename":
        m.name = "renamed_by_the_caller"
    elif edit == "atom-fields-assigned":
        a = m.atoms[0]
        a.label = "edited"
        a.formal_charge = (a.formal_charge or 0) + 1
        a.isotope = 99
        m.charge = 7
        m.mult = 5
    elif edit == "bond-retyped":
        if m.n_bonds:
            m.bonds[0].btype = 3
    else:  # pragma: no cover
        raise HarnessError(edit)


def shares(m, earlier):
    """what a result has in common with results handed out before (object identity / memory)"""
    ids_a = {id(a) for a in m.atoms}
    ids_b = {id(b) for b in m.bonds}
    for e in earlier:
        if e is m:
            return "the same Molecule object"
        if ids_a & {id(a) for a in e.atoms}:
            return "Atom objects"
        if ids_b & {id(b) for b in e.bonds}:
            return "Bond objects"
        if np.shares_memory(m.coords, e.coords):
            return "the coordinate array"
    return None


def access_histories(ctx, src_name, path, D, only, viol):
    """one CDXMLFile object: get k; edit the result in place; get k again (by label and by index),
    other labels in between; keys() before and after.  Every access must equal the first access as
    it was before any edit, and must not share objects with an earlier result."""
    from molli.ftypes.cdxml import CDXMLFile

    with warnings.catch_warnings():
        warnings.simplefilter("ignore")
        f = CDXMLFile(path)
    keys0 = list(f.keys())
    labels = [k for k in D.label_order if (only is None or k == only) and k in keys0]
    for k in labels:
        pos = keys0.index(k)
        first, m0 = c13_sub.lookup_obj(f, k)
        ctx.count(transitions=1)
        if not isinstance(first, dict):
            continue  # reported by the plain analysis
        d0 = c13_sub.digest(first)
        handed_out = [m0]
        latest = m0
        broken = False
        for n, edit in enumerate(rot(EDITS, ctx.seed)):
            try:
                with warnings.catch_warnings():
                    warnings.simplefilter("ignore")
                    mutate(latest, edit)
            except Exception:
                ctx.add_note(f"access_history_edits_that_raise[{edit}]")
            # another label in between
            if len(keys0) > 1:
                c13_sub.lookup(f, keys0[(pos + 1 + n) % len(keys0)])
                ctx.count(transitions=1)
            for how in ("label", "index"):
                o, m1 = c13_sub.lookup_obj(f, k if how == "label" else pos)
                ctx.count(transitions=1)
                ctx.add_note("access_history_lookups")
                if not isinstance(o, dict):
                    viol(f"access-history[by-{how}]:later-access-raised", f"{src_name}[{k!r}]: parsed at first, raised {o[1]} when asked again by {how} after the caller's {edit}", k, "access-history")
                    broken = True
                    break
                if how == "index" and o["name"] != k:
                    o = dict(o)  # the molecule's name is the label either way
                sh = shares(m1, handed_out)
                if sh is not None:
                    viol("access-history:result-shares-objects-with-an-earlier-result", f"{src_name}[{k!r}]: the molecule returned by a later access (by {how}) shares {sh} with a molecule handed out before", k, "access-history")
                    broken = True
                if c13_sub.digest(o) != d0:
                    same_const = o["atoms"] == first["atoms"] and o["bonds"] == first["bonds"]
                    what = "coordinates" if same_const and (o["charge"], o["mult"], o["name"]) == (first["charge"], first["mult"], first["name"]) else "atoms/bonds/charge/name"
                    viol(f"access-history[result-edited-in-place;by-{how}]:later-access-differs-from-first", f"{src_name}[{k!r}]: after the caller edited the molecule it was given ({edit}), the next access by {how} differs from the first access in {what} ({len(o['atoms'])} atoms vs {len(first['atoms'])})", k, "access-history")
                    broken = True
                if broken:
                    break
                handed_out.append(m1)
                latest = m1
            if broken:
                break
        ctx.outcome(("access-history", "broken" if broken else "ok", len(handed_out) > 1))
    keys1, keys2 = list(f.keys()), list(f.keys())
    if not (keys0 == keys1 == keys2) or len(f) != len(keys0):
        viol("access-history:keys-change", f"{src_name}: keys() lists {len(keys0)}, then {len(keys1)} / {len(keys2)} labels on the same object", None, "access-history")


def analyse(ctx, src_name, path, steps, only=None, count=True, base=None):
    """Parses `path` (variant `steps` of the bundled file `src_name`) with molli and checks every
    label against the independent walk of the same file.  Returns {label: Rec}."""
    vc = vclass(steps)

    def viol(sig, what, label, extra=None):
        repro = None
        if not steps and label is not None:
            repro = (
                "import molli as ml\nfrom molli.ftypes.cdxml import CDXMLFile\n"
                f"m = CDXMLFile(ml.files.ROOT / {src_name!r})[{label!r}]\n"
                "print(m.n_atoms, m.n_bonds, m.charge, m.mult)\nprint([(a.element.symbol, a.isotope, a.formal_charge, a.formal_spin) for a in m.atoms])\nprint(m.coords)\n"
            )
        ctx.violation(sig, what, {"file": src_name, "steps": steps, "label": label, "extra": extra}, repro=repro)

    D = Drawing(path)
    try:
        f1, keys, out1 = c13_sub.parse_all(path, order=None)
    except Exception as e:
        viol(f"open[{vc}]:raised:{type(e).__name__}", f"CDXMLFile({src_name}) raised {type(e).__name__}: {e}", None)
        ctx.count(transitions=1)
        return {}
    ntrans = 1 + len(out1)
    if set(keys) != set(D.label_order) or len(keys) != len(set(keys)):
        viol(f"labels[{vc}]:key-set-differs", f"keys() lists {len(keys)} labels, the drawing has {len(D.label_order)} distinct bold-face labels", None)
        return {}
    labels = [k for k in D.label_order if only is None or k == only]

    # second fresh object, other lookup order; then every label again on the first object
    f2, _, out2 = c13_sub.parse_all(path, order=rot(keys[::-1], ctx.seed))
    out1b = {k: c13_sub.lookup(f1, k) for k in rot(keys, 1 + ctx.seed)}
    ntrans += 1 + len(out2) + len(out1b)
    ctx.count(transitions=ntrans)

    if not steps and count:
        access_histories(ctx, src_name, path, D, only, viol)

    recs = {}
    for k in labels:
        r = Rec()
        recs[k] = r
        o = out1[k]
        if count:
            ctx.count(evaluations=1, traces=1, states=1)
        try:
            r.picked = f1.xfrag_cache[k].get("id")
        except Exception:
            r.picked = None
        if base is not None and (k not in base or not base[k].const_ok):
            # already reported on the bundled file itself: what follows would be consequential noise
            continue
        if not isinstance(o, dict):
            if base is None:
                viol(f"lookup:raised:{o[1]}/{o[2]}", f"{src_name}[{k!r}] raised {o[1]} (cause {o[2]}: {o[3]})", k)
            else:
                viol(f"variant[{vc}]:lookup-raised:{o[1]}/{o[2]}", f"{src_name}[{k!r}] parses in the bundled file but raises {o[1]} (cause {o[2]}: {o[3]}) after {vc}", k)
            ctx.outcome(("raised", o[1], o[2]))
            continue
        r.obs = o
        r.digest = c13_sub.digest(o)
        # ---- determinism inside the process ---------------------------------------------------
        det_ok = True
        for tag, other in (("fresh-object", out2[k]), ("repeated-lookup", out1b[k])):
            if not isinstance(other, dict):
                viol(f"determinism[{tag}]:raised", f"file[{k!r}] parsed once and raised {other[1]} the next time", k, {"tag": tag})
                det_ok = False
            elif c13_sub.digest(other) != r.digest:
                same_const = other["atoms"] == o["atoms"] and other["bonds"] == o["bonds"]
                sym = "coordinates-differ" if same_const else "constitution-differs"
                md = float(np.max(np.abs(other["coords"] - o["coords"]))) if same_const and other["coords"].shape == o["coords"].shape else None
                viol(f"determinism[{tag}]:{sym}", f"two parses of {k!r} in one process differ ({sym}, max |dx| = {md})", k, {"tag": tag})
                det_ok = False
        # ---- which fragment ----------------------------------------------------------------------
        fr, how = D.association(k)
        by_id = {f.xml_id: f for f in D.fragments}
        if fr is not None and r.picked is not None and r.picked != fr.xml_id:
            viol(f"label[{how}]:resolves-to-other-fragment", f"label {k!r} is drawn for fragment id={fr.xml_id} ({how}) but resolves to id={r.picked}", k)
            continue
        if fr is None:
            fr = by_id.get(r.picked)
            ctx.add_note("labels_without_settled_fragment_in_the_drawing")
            if fr is None:
                continue
        if fr.unsupported or any(a.kind == "placeholder" for a in fr.atoms.values()):
            ctx.add_note("fragments_outside_the_walk")
            continue
        # ---- constitution ----------------------------------------------------------------------
        mapping, reordered, bad = constitution(fr, o)
        if reordered:
            ctx.add_note("fragments_matched_by_isomorphism_not_by_document_order")
        if mapping is not None and not bad:
            bad = bad + atom_labels(fr, o, mapping, reordered)
        for sym, what in bad:
            viol(f"constitution:{sym}", f"{src_name}[{k!r}] ({vc}): {what}", k)
        feats = (
            fr.has_stereo_marks(),
            fr.nested > 0,
            bool(fr.hapto),
            any(a.charge for a in fr.atoms.values()),
            any(a.isotope is not None for a in fr.atoms.values()),
            any(a.spin for a in fr.atoms.values()),
            bool(fr.attachment_keys()),
        )
        if any(feats[:6]):
            ctx.nontrivial((src_name, vc if not steps else json.dumps(steps), k))
        if bad or mapping is None:
            ctx.outcome(("bad", tuple(s for s, _ in bad)))
            continue
        r.const_ok = True
        # where every parsed atom is drawn (page position of the node, preceded by the position of the
        # placeholder that holds it): identifies an atom across rewrites that change the listing order
        tok = {}
        for kk, i in mapping.items():
            a = fr.atoms[kk]
            t = (a.xy,)
            if len(kk) > 1:
                p = fr.elt[kk[0]].get("p")
                t = (tuple(map(float, p.split()[:2])) if p else None, a.xy)
            tok[i] = t
        r.token = tok if len(set(tok.values())) == len(tok) else None
        # ---- geometry ----------------------------------------------------------------------------
        coords = o["coords"]
        if coords.shape != (len(o["atoms"]), 3) or not np.all(np.isfinite(coords)):
            viol("geometry:non-finite-coordinates", f"{src_name}[{k!r}]: coordinates are not a finite (n,3) array", k)
            continue
        g = FragGraph(fr)
        r.mirror_exact = mirror_class(fr, g)
        geo_ok = anchors(ctx, viol, src_name, vc, k, fr, g, mapping, coords)
        # signed volumes of every centre of the model (parsed bonds), for the cross-variant relations
        nb = {}
        for b in o["bonds"]:
            nb.setdefault(b[0], []).append(b[1])
            nb.setdefault(b[1], []).append(b[0])
        excl = {mapping[x] for x in fr.hapto_excluded}
        metals = {mapping[m] for m, _ in fr.hapto}
        inv = {i: kk for kk, i in mapping.items()}
        for c, ns in nb.items():
            if len(ns) < 3 or c in excl:
                continue
            kc = inv[c]
            if any(i in g.ring for i in g.inc[kc]):
                mark = "at-ring-mark"
            elif g.inc[kc]:
                mark = "at-chain-mark"
            else:
                mark = "no-mark-at-centre"
            for tr in itertools.combinations(sorted(set(ns)), 3):
                if metals & set(tr):
                    continue
                r.vols[(c, tr)] = nvol(coords[c], coords[list(tr)])
                r.mark[(c, tr)] = mark
        r.ok = det_ok and geo_ok
        sv = tuple(sorted((kk, (v > T_NONPLANAR) - (v < -T_NONPLANAR)) for kk, v in r.vols.items()))
        ctx.outcome(hashlib.sha1(repr((len(o["atoms"]), len(o["bonds"]), o["charge"], o["mult"], o["n_ap"], sv)).encode()).hexdigest()[:16])
        if len(ctx.samples) < 8 and (any(feats[:3]) or ctx.evaluations % 50 == 1):
            ctx.sample(
                {
                    "file": src_name,
                    "variant": steps,
                    "label": k,
                    "fragment_id": fr.xml_id,
                    "atoms": len(o["atoms"]),
                    "bonds": len(o["bonds"]),
                    "charge": o["charge"],
                    "mult": o["mult"],
                    "attachment_points": o["n_ap"],
                    "nonplanar_triples": sum(1 for v in r.vols.values() if abs(v) >= T_NONPLANAR),
                }
            )
    recs_dups[id(recs)] = set(D.duplicates)
    recs_draw[id(recs)] = D
    return recs


def anchors(ctx, viol, src_name, vc, k, fr, g, mapping, coords):
    """absolute expectations taken from the page coordinates and the stereo marks alone."""
    ok = True
    # A. flat drawing: the xy embedding is the drawing with y negated ---------------------------
    if not fr.has_stereo_marks():
        top = [kk for kk, a in fr.atoms.items() if a.depth == 0 and a.xy is not None]
        n_tr = 0
        for a, b, c in itertools.combinations(top, 3):
            d = cross2(fr.atoms[a].xy, fr.atoms[b].xy, fr.atoms[c].xy)
            if abs(d) < T_COLLINEAR:
                continue
            n_tr += 1
            m = cross2(coords[mapping[a]][:2], coords[mapping[b]][:2], coords[mapping[c]][:2])
            if not (m * d < 0):
                viol("anchor:xy-orientation", f"{src_name}[{k!r}] ({vc}): a drawn atom triple has page orientation {d:+.2f} and model orientation {m:+.2f}; the model must show the drawing with y negated", k)
                ok = False
                break
        ctx.add_note("anchor_xy_orientation_triples", n_tr)
    # B/C. isolated chain wedges --------------------------------------------------------------
    cw = g.chain_wedges()
    for i, c, w, cxy, wxy, s, disp in cw:
        if c in fr.hapto_excluded or w in fr.hapto_excluded:
            continue
        if len(g.adj[c]) < 3 or cxy is None or wxy is None:
            continue
        # B: the wide end lies above (wedge) / below (hash) the narrow end, unless a later mark
        #    tilts the part of the molecule that holds this bond
        tilted = False
        for j, c2, w2, _, _, _, _ in cw:
            if j != i and c in g.far_side(j, c2, w2):
                tilted = True
        if not tilted:
            dz = coords[mapping[w]][2] - coords[mapping[c]][2]
            ctx.add_note("anchor_wedge_z_bonds")
            if not (dz * s > 1e-6):
                viol(f"anchor:wedge-z[{disp}]", f"{src_name}[{k!r}] ({vc}): {disp} bond: wide-end atom is at z {dz:+.3f} relative to the narrow end, expected {'above' if s > 0 else 'below'}", k)
                ok = False
        # C: handedness of an isolated stereo centre
        if len(g.inc[c]) != 1:
            continue
        others = [(y, xy) for y, j, xy in g.adj[c] if j != i]
        for (a, axy), (b, bxy) in itertools.combinations(others, 2):
            if g.inc[a] or g.inc[b] or axy is None or bxy is None:
                continue
            if a in fr.hapto_excluded or b in fr.hapto_excluded:
                continue
            d = cross2(cxy, axy, bxy)
            if abs(d) < T_COLLINEAR:
                continue
            # model frame = (x, -y, z): V(w,a,b) = w_z * cross2_model(a,b) = s * (-d) up to positive factors
            v = nvol(coords[mapping[c]], coords[[mapping[w], mapping[a], mapping[b]]])
            ctx.add_note("anchor_handedness_triples")
            if not (v * (-d) * s > 0):
                viol(f"anchor:handedness[{disp}]", f"{src_name}[{k!r}] ({vc}): centre with one {disp} bond: signed volume {v:+.3f}, the drawing demands sign {'+' if -d * s > 0 else '-'}", k)
                ok = False
    return ok


# =================================================================================================
# relations between a variant and the unchanged file
# =================================================================================================
def nearest_above_l1(D, label):
    if D is None or label not in D.labels:
        return None
    lx, ly = D.labels[label]["centre"]
    above = [f for f in D.fragments if f.centre[1] < ly]
    if not above:
        return None
    return min(above, key=lambda f: (abs(f.centre[0] - lx) + abs(f.centre[1] - ly), f.index)).xml_id


def path_history(ctx, src_name, jobs, work):
    """one path, several drawings in turn: variant A is written to P and parsed, then B is written to
    the same P and parsed, then A again.  What P gives must be what the same bytes give on a fresh path."""
    import molli as ml
    from molli.ftypes.cdxml import CDXMLFile

    usable = [j for j in jobs if any(r.digest for r in j[2].values())]
    if len(usable) < 2:
        return
    a = usable[0]
    others = [j for j in usable[1:] if any(st[0] in ("mirror", "annotate", "atomnumber") for st in j[1])][:2] or usable[1:2]
    seq = []
    for b in others:
        seq += [a, b]
    seq.append(a)
    P = Path(work) / "one_path.cdxml"
    for n, (src, steps, recs) in enumerate(seq):
        shutil.copyfile(src, P)
        labels = [k for k, r in recs.items() if r.digest]
        try:
            with warnings.catch_warnings():
                warnings.simplefilter("ignore")
                f = CDXMLFile(P)
        except Exception as e:
            ctx.violation(f"path-history:open-raised:{type(e).__name__}", f"{src_name}: CDXMLFile on a path that was overwritten raised {e}", {"file": src_name, "steps": steps, "label": None, "extra": "path-history"})
            return
        ctx.count(transitions=1)
        for i, k in enumerate(labels):
            routes = [("CDXMLFile", lambda: c13_sub.lookup(f, k))]
            if i < 3:
                routes.append(("ml.load", lambda: c13_sub.observe(ml.load(P, fmt="cdxml", key=k))))
            for route, get in routes:
                try:
                    with warnings.catch_warnings():
                        warnings.simplefilter("ignore")
                        o = get()
                except Exception as e:
                    o = ("EXC", type(e).__name__, None, str(e)[:100])
                ctx.count(transitions=1)
                ctx.add_note("path_history_lookups")
                if not isinstance(o, dict) or c13_sub.digest(o) != recs[k].digest:
                    ctx.violation(
                        f"path-history[{route}]:result-is-not-that-of-the-file-now-at-the-path",
                        f"{src_name}[{k!r}]: drawing {n + 1} of {len(seq)} written to one and the same path ({vclass(steps)}): what {route} returns differs from the same bytes parsed at a fresh path",
                        {"file": src_name, "steps": steps if steps else (seq[1][1] if len(seq) > 1 else []), "label": k, "extra": "path-history"},
                    )
                    return


def compare(ctx, src_name, steps, back, base, var, mirrored_frag_ids=None):
    vc = vclass(steps)
    mirrored = is_mirrored(steps)
    permuted = any(s[0] == "permute" for s in steps)
    dups = recs_dups.get(id(base), set())
    for k, rb in base.items():
        rv = var.get(k)
        if rv is None:
            continue
        if permuted and k in dups:
            # the drawing itself carries this label twice: which one "the" label is depends on the
            # document order, so a reordered document is a different question
            ctx.add_note("duplicate_labels_skipped_under_permutation")
            continue

        def viol(sig, what, extra=None):
            ctx.violation(sig, what, {"file": src_name, "steps": steps, "label": k, "extra": extra})

        if any(st[0] == "move-pair" for st in steps):
            # a fragment was moved: the label still belongs to its fragment where the documented rule
            # (the fragment nearest in city-block distance among those above the label) says so
            if nearest_above_l1(recs_draw.get(id(base)), k) is None or nearest_above_l1(recs_draw.get(id(base)), k) != nearest_above_l1(recs_draw.get(id(var)), k):
                ctx.add_note("labels_reassigned_by_the_drawing_itself_after_a_move")
                continue
        if rb.picked is not None and rv.picked is not None:
            if back.get(rv.picked, rv.picked) != rb.picked:
                viol(f"variant[{vc}]:label-resolves-to-other-fragment", f"{src_name}[{k!r}]: resolves to fragment id={rb.picked} in the bundled file and to id={back.get(rv.picked, rv.picked)} after {vc}")
                continue
        if rb.obs is None or rv.obs is None:
            continue
        if any(st[0] == "annotate" for st in steps):
            continue  # other marks are drawn: judged against the walk of the rewritten file itself
        if any(st[0] == "reorder-nodes" for st in steps):
            if rb.token is None or rv.token is None or not (rb.ok and rv.ok):
                continue
            where = {t: i for i, t in rv.token.items()}
            if set(where) != set(rb.token.values()):
                viol(f"variant[{vc}]:constitution-changed", f"{src_name}[{k!r}]: the atoms are drawn at other places after the nodes were listed in another order")
                continue
            perm = [where[rb.token[i]] for i in range(len(rb.token))]  # base index -> variant index
            lab = (lambda t: t[:5]) if any(st[0] in ("renumber", "atomnumber") for st in steps) else (lambda t: t[:6])
            inv = {v: b for b, v in enumerate(perm)}
            vb = sorted((tuple(sorted((inv[x[0]], inv[x[1]]))), x[2], x[3]) for x in rv.obs["bonds"])
            bb = sorted((tuple(sorted((x[0], x[1]))), x[2], x[3]) for x in rb.obs["bonds"])
            if [lab(rb.obs["atoms"][i]) for i in range(len(perm))] != [lab(rv.obs["atoms"][perm[i]]) for i in range(len(perm))] or vb != bb:
                viol(f"variant[{vc}]:constitution-changed", f"{src_name}[{k!r}]: atoms/bonds differ (matched by drawing position) after the nodes were listed in another order")
                continue
            cp = rv.obs["coords"][perm]
            ctx.add_note("reordered_models_compared")
            bad_centre = None
            for key, v in rb.vols.items():
                if abs(v) >= T_NONPLANAR:
                    w = nvol(cp[key[0]], cp[list(key[1])])
                    if not (v * w > 0):
                        bad_centre = (key, v, w)
                        break
            if bad_centre is not None:
                key, v, w = bad_centre
                viol(f"variant[{vc}]:handedness-changed[{rb.mark[key]}]", f"{src_name}[{k!r}]: centre atom {key[0]} neighbours {key[1]}: signed volume {v:+.3f} -> {w:+.3f} although only the order in which the nodes are listed changed ({steps})")
                continue
            top = [i for i in range(len(perm)) if len(rb.token[i]) == 1]
            if len(top) < len(perm):
                # contracted groups are oriented by join's clash search, which sees what has been joined
                # before (document order): their rotamer is a conformational choice, not something drawn.
                # Compared: the outermost atoms, up to the common translation that join applies
                full = np.abs(cp - rb.obs["coords"])
                if np.max(full) > 1e-9:
                    ctx.add_note("fragments_whose_contracted_groups_change_rotamer_with_the_listing_order")
                a0, b0 = cp[top], rb.obs["coords"][top]
                dev = np.zeros_like(cp)
                dev[top] = np.abs((a0 - a0.mean(axis=0)) - (b0 - b0.mean(axis=0)))
            else:
                dev = np.abs(cp - rb.obs["coords"])
            if not (np.max(dev) <= 1e-9):
                worst = int(np.argmax(dev.max(axis=1)))
                viol(f"variant[{vc}]:coordinates-differ[{'at-ring-mark' if 'at-ring-mark' in rb.mark.values() else 'other'}]", f"{src_name}[{k!r}]: the model depends on the order in which the nodes are listed (atom {worst} moves by {np.round(dev[worst], 4).tolist()} A; {steps})")
            continue
        strip = (lambda t: t[:5]) if any(s[0] in ("renumber", "atomnumber") for s in steps) else (lambda t: t[:6])
        if [strip(t) for t in rb.obs["atoms"]] != [strip(t) for t in rv.obs["atoms"]] or rb.obs["bonds"] != rv.obs["bonds"] or (rb.obs["charge"], rb.obs["mult"]) != (rv.obs["charge"], rv.obs["mult"]):
            viol(f"variant[{vc}]:constitution-changed", f"{src_name}[{k!r}]: atoms/bonds/charge/multiplicity differ between the bundled file and its {vc} rewrite")
            continue
        if steps and all(st[0] == "add" for st in steps) and rb.digest is not None and rv.digest != rb.digest:
            same_const = rb.obs["atoms"] == rv.obs["atoms"] and rb.obs["bonds"] == rv.obs["bonds"]
            viol(f"variant[{vc}]:result-differs-from-the-untouched-file", f"{src_name}[{k!r}]: an object that carries no label was added to the page ({steps}) and the label now gives a molecule that differs in {'coordinates' if same_const else 'atoms/bonds/name'}")
            continue
        if not (rb.ok and rv.ok):
            continue
        local_mirror = mirrored
        if mirrored_frag_ids is not None:
            local_mirror = rb.picked in mirrored_frag_ids
        if local_mirror and rb.mirror_exact and rv.obs["coords"].shape == rb.obs["coords"].shape:
            dev = np.abs(rv.obs["coords"] * np.array([1.0, 1.0, -1.0]) - rb.obs["coords"])
            ctx.add_note("exact_mirror_images_checked")
            if not (np.max(dev) <= 1e-9):
                worst = int(np.argmax(dev.max(axis=1)))
                viol(f"variant[{vc}]:model-is-not-the-mirror-image[{rb.mirror_exact}]", f"{src_name}[{k!r}]: the model of the drawing with mirrored stereo marks is not the z -> -z image of the model of the drawing (atom {worst}: deviation {np.round(dev[worst], 4).tolist()} A)")
                continue
        for key, v in rb.vols.items():
            if not (abs(v) >= T_NONPLANAR):
                w = rv.vols.get(key)
                if local_mirror and w is not None and abs(v) > 1e-6 and v * w > 0:
                    ctx.add_note("near_planar_triples_below_threshold_that_keep_their_sign_on_mirroring")
                continue
            w = rv.vols.get(key)
            if w is None or w != w:
                viol(f"variant[{vc}]:centre-lost", f"{src_name}[{k!r}]: a non-planar centre of the model is undefined after {vc}")
                break
            if local_mirror:
                ctx.add_note("mirror_triples_checked")
                if not (v * w < 0):
                    viol(f"variant[{vc}]:handedness-not-inverted[{rb.mark[key]}]", f"{src_name}[{k!r}]: centre atom {key[0]} neighbours {key[1]}: signed volume {v:+.3f} -> {w:+.3f} after mirroring the stereo marks")
                    break
            else:
                ctx.add_note("same_handedness_triples_checked")
                if not (v * w > 0):
                    viol(f"variant[{vc}]:handedness-changed[{rb.mark[key]}]", f"{src_name}[{k!r}]: centre atom {key[0]} neighbours {key[1]}: signed volume {v:+.3f} -> {w:+.3f} although the rewrite ({vc}) does not touch the stereo marks")
                    break


def second_process(ctx, src_name, jobs):
    """jobs: [(path, steps, recs)] ; one fresh interpreter parses them all."""
    lst = Path(ctx.scratch) / f"second-{hashlib.sha1(src_name.encode()).hexdigest()[:8]}.json"
    lst.write_text(json.dumps([str(p) for p, _, _ in jobs]))
    env = dict(os.environ)
    repo = os.environ.get("VERIF_REPO", "/repo")
    verif = str(Path(__file__).resolve().parents[2])
    env["PYTHONPATH"] = os.pathsep.join([repo, verif])
    env["PYTHONHASHSEED"] = str(4242 + ctx.seed)
    try:
        p = subprocess.run([sys.executable, "-W", "ignore", "-m", "mc.props.c13_sub", str(lst)], capture_output=True, timeout=300, env=env, cwd=verif)
    except subprocess.TimeoutExpired:
        raise HarnessError("second interpreter timed out")
    if p.returncode != 0:
        raise HarnessError("second interpreter failed: " + p.stderr.decode(errors="replace")[-400:])
    res = json.loads(p.stdout.decode())
    for path, steps, recs in jobs:
        r = res.get(str(path), {})
        ctx.count(transitions=1 + len(r.get("mols", {})))
        for k, rec in recs.items():
            if rec.digest is None:
                continue
            got = r.get("mols", {}).get(k)
            if got != rec.digest:
                ctx.violation(
                    "determinism[second-process]:result-differs",
                    f"{src_name}[{k!r}] ({vclass(steps)}): a second interpreter (other hash seed, fresh RNG) parses the same file to different atoms/bonds/coordinates",
                    {"file": src_name, "steps": steps, "label": k, "extra": "second-process"},
                )


# =================================================================================================
def bundled_files():
    import molli

    root = Path(molli.__file__).resolve().parent / "files"
    return sorted(root.rglob("*.cdxml"))


def menu(ctx, path):
    seed = ctx.seed
    tr = rot(TRANSLATIONS, 3 * seed)
    n_top = 0
    try:
        root = ET.parse(path).getroot()
        n_top = max((len(list(pg)) for pg in root.findall("./page")), default=0)
        n_frag = len(top_fragments(root))
    except Exception:
        n_frag = 0
    singles = [["mirror"]]
    ntrans = 9 if ctx.thorough else 3
    singles += [["translate", dx, dy] for dx, dy in tr[:ntrans]]
    singles += [["permute", "reverse"], ["permute", "rotate", 1 + seed % 7]]
    singles += [["renumber", "offset", 100000 + 1000 * (seed % 50)], ["renumber", "compact"]]
    singles += [["atomnumber", "add-all"], ["atomnumber", "remove-all"]]
    singles += [["add", "lone-atom", w] for w in ("first", "last", "middle", "new-group-first", "existing-group")]
    singles += [["reorder-nodes", "reverse"], ["reorder-nodes", "begin-after-end"], ["reorder-nodes", "begin-before-end"]]
    if ctx.thorough:
        singles += [["reorder-nodes", "swap-stereo-bond", j] for j in range(n_marked_bonds(path))]
    singles += [["annotate", cls, which] for cls in ("top-level", "inside-group", "group-attachment-atom") for which in ("A", "B")]
    try:
        targets = movable_targets(ET.parse(path).getroot())
    except Exception:
        targets = []
    singles += [["move-pair", j, side] for j in (targets if ctx.thorough else targets[:2]) for side in (-1, 1)]
    singles += [["add", "lone-atom", "between-labels-and-fragments"]]
    singles += [["add", "far-fragment", "last"], ["add", "plain-text", "first"], ["add", "empty-group", "first"]]
    if ctx.thorough:
        singles += [["add", "lone-atom", "new-group-last"], ["add", "far-fragment", "first"], ["add", "far-fragment", "new-group-first"], ["add", "plain-text", "existing-group"], ["add", "empty-group", "middle"]]
    if ctx.thorough:
        singles += [["atomnumber", "add-ap"], ["atomnumber", "add-atoms"], ["atomnumber", "remove-ap"]]
    variants = [[s] for s in singles]
    if ctx.thorough:
        ks = [k for k in range(1, n_top) if k != 1 + seed % 7]
        variants += [[["permute", "rotate", k]] for k in ks]
        variants += [[["permute", "labels-first"]], [["permute", "labels-last"]], [["renumber", "reversed"]]]
        base = [["mirror"], ["translate", tr[0][0], tr[0][1]], ["translate", tr[1][0], tr[1][1]], ["permute", "reverse"], ["permute", "rotate", 2 + seed % 5], ["permute", "labels-first"], ["renumber", "compact"], ["renumber", "reversed"], ["renumber", "offset", 777000], ["atomnumber", "add-all"], ["atomnumber", "remove-all"], ["add", "lone-atom", "first"], ["add", "far-fragment", "middle"], ["reorder-nodes", "reverse"], ["reorder-nodes", "begin-after-end"]]
        for a, b in itertools.permutations(base, 2):
            if a[0] == b[0]:
                continue
            if "reorder-nodes" in (a[0], b[0]) and {a[0], b[0]} & {"mirror", "translate"}:
                continue  # the reordered models are compared by drawing position and for equal handedness
            variants.append([a, b])
        variants += [[["mirror1", i]] for i in range(n_frag)]
    return variants


def check_file(ctx, path, variants=None, only=None, count_base=True):
    path = Path(path)
    name = path.name
    work = Path(ctx.scratch) / ("w-" + name.replace(".", "_"))
    work.mkdir(parents=True, exist_ok=True)
    base = analyse(ctx, name, path, [], only, count=count_base)
    jobs = [(path, [], base)]
    if variants is None:
        variants = menu(ctx, path)
    for n, steps in enumerate(variants):
        dst = work / f"v{n:04d}.cdxml"
        back = build_variant(path, steps, dst)
        var = analyse(ctx, name, dst, steps, only, base=base)
        mf = None
        if len(steps) == 1 and steps[0][0] == "mirror1":
            root = ET.parse(path).getroot()
            mf = {top_fragments(root)[steps[0][1]].get("id")}
        compare(ctx, name, steps, back, base, var, mf)
        jobs.append((dst, steps, var))
    path_history(ctx, name, jobs, work)
    second_process(ctx, name, jobs)


def _part(sub, job):
    path, variants, first = job
    check_file(sub, path, variants, count_base=first)


def run(ctx):
    ctx.rule = (
        "every bold-face label of every bundled CDXML file x every rewrite of the menu, parsed by the real CDXMLFile "
        "(2 fresh objects, repeated lookups, 1 second interpreter); oracle = independent ElementTree walk of the same "
        "file; a case (file, rewrite, label) is non-trivial when its fragment carries a stereo mark, a contracted "
        "group, a multi-attachment, a formal charge, an isotope or a radical"
    )
    ctx.assumptions += [
        "a contracted group (Fragment/Nickname node with an inner fragment) stands for the atoms drawn inside it; its placeholder node and the inner connection point are not atoms",
        "the bond drawn to a MultiAttachment helper is not compared (molli expands it into one bond per ring atom); the metal and the ring atoms named by the helper are the 'atoms bonded to multi-attachment centres' of the quantifier and are excluded from every handedness relation (both readings of the phrase are excluded)",
        "a bond drawn with Display=Dash has no demanded order (molli maps it to a ligand bond)",
        f"a centre/neighbour triple counts as non-planar when its normalised triple product is >= {T_NONPLANAR} in the model of the bundled file (ideal tetrahedron 0.77); handedness = its sign; coordinates are never compared between a drawing and its mirrored rewrite",
        "which fragment a label is drawn for is demanded only when the drawing settles it: the label shares a group with exactly one fragment, or the fragment nearest to the label in both city-block and Euclidean distance lies above it; otherwise (decoy labels) only consistency across lookups and rewrites is demanded",
        "absolute anchors are demanded only where the drawing fixes them independently of how the other marks are modelled: xy-orientation (y negated) on drawings without stereo marks; wedge direction on chain (non-ring) wedge bonds at centres with >= 3 neighbours whose part of the molecule is not tilted by another chain wedge; handedness at centres whose only stereo mark is one chain wedge and whose two reference neighbours carry no stereo mark",
        "a label that the drawing carries more than once (parser_demo: 'naphthalene') is not compared between a file and its reordered rewrites",
        "atom labels: a node drawn with AtomNumber is labelled with it; without one a connection point is labelled 'AP' + ExternalConnectionNum ('AP0' when it has none) and an ordinary atom None (the parser's documented defaults, read off its behaviour on nodes without AtomNumber); compared atom by atom when the molecule matches the drawing in document order, as a multiset otherwise",
        "access histories on one CDXMLFile object: every access (by label or by integer index, after the caller edited an earlier result in place, with other labels in between) must equal the first access as it was before any edit, and must not share atoms, bonds or the coordinate array with a molecule handed out before",
        "added content: a bond-less (lone atom) fragment, an unlabelled bonded fragment far from everything, a text that is not bold and an empty group carry no label and none of the labelled chemistry: every label must give a molecule equal in full (atoms, labels, bonds, coordinates bit for bit, charge, multiplicity, name) to the one from the untouched file",
        "exact mirror relation: where all stereo marks of a fragment are plain Bold/Hash bonds or wedges on chain (non-ring) bonds of the outermost fragment, the model of the mirrored drawing must be the z -> -z image of the model coordinate by coordinate (1e-9 A); it is not demanded for wedge marks on ring bonds (the parser's ring-fusion displacement moves y by sign*0.5, 1 A off an exact mirror image on the unchanged tree), for marks inside contracted groups (re-oriented by join's clash search) and for multi-attachments - there only the signs of the signed volumes are compared",
        "listing order of the nodes: listing the nodes of a fragment backwards, or swapping the two nodes of a stereo bond in the document, changes nothing that is drawn: atoms are matched by drawing position and the per-centre handedness and the full coordinates (1e-9 A) must be those of the bundled file; for fragments with contracted groups the coordinates of the outermost atoms are compared up to a common translation and the groups' atoms through the handedness only (join orients a group by a clash search over what was joined before it, so the rotamer follows the listing order on the unchanged tree)",
        "annotation rewrites draw a formal charge, a radical and an isotope on an ordinary atom of the fragment itself, on an atom inside a contracted group and on the group's attachment atom; the molecule's atoms, charge and multiplicity must follow the marks as drawn in the rewritten file",
        "move-pair rewrites put another labelled fragment diagonally above a label (farther than the label's own fragment in city-block distance, nearer in Euclidean distance); a label keeps its fragment wherever the documented rule - nearest fragment above in city-block distance - still names the same fragment in the rewritten drawing",
        "path history: a path whose file is overwritten gives what its present bytes give on a fresh path, for a new CDXMLFile and for ml.load(path, key=)",
        "atom order is not demanded: the parsed molecule is matched to the drawing in document order and otherwise by graph isomorphism (networkx)",
    ]
    files = bundled_files()
    ctx.bound["files"] = len(files)
    ctx.bound["tier_menu"] = "thorough: 9 translations, every rotation of the page children, 3 renumberings, ordered pairs of 9 rewrites, one-fragment mirrors" if ctx.thorough else "mirror, 3 translations, 2 permutations, 2 renumberings"
    ctx.bound["T_NONPLANAR"] = T_NONPLANAR
    jobs = []
    for p in files:
        vs = menu(ctx, p)
        ctx.bound[f"variants[{p.name}]"] = len(vs) + 1
        if ctx.thorough:
            # split the variants of a file into chunks: every chunk re-analyses the bundled file itself
            step = 24
            for i in range(0, len(vs), step):
                jobs.append((p, vs[i : i + step], i == 0))
            if not vs:
                jobs.append((p, [], True))
        else:
            jobs.append((p, vs, True))
    ctx.pmap(_part, jobs)
    if ctx.evaluations == 0:
        raise HarnessError("no labelled fragment found in the bundled CDXML files")


def replay(ctx, case):
    files = {p.name: p for p in bundled_files()}
    p = files[case["file"]]
    steps = case.get("steps") or []
    check_file(ctx, p, [steps] if steps else [], only=case.get("label"))
