"""
C17 - a job runs exactly what was asked and reports exactly what happened.

Two bounded-exhaustive explorations of the real code, each against a reference written here:

  part A (binding)  all histories of creating / using 2..3 driver instances with pairwise distinct
                    (executable, nprocs, envars) through the jobs of ONE harness-defined driver
                    class in the style of XTBDriver (`@Job(...).prep`, `.post`, `Job.vectorize`);
                    oracle: every JobInput carries the settings of the driver instance it was
                    built through and the caller's arguments.
  part A2 (lifetime) histories that also DROP drivers (a later driver may land on the same address) and
                    RECONFIGURE live drivers / class-level defaults between uses; expected = current settings.
  part B (execution) every command list of length 1..L over the alphabet
                    {quiet, print, write a.dat, write b.bin, fail(3), read input file, echo $VAR}
                    x naming masks x requested return files (every subset, (), None) x text/binary
                    input file x environment override; the JobInput is built through the driver,
                    dumped, and executed by the real `molli.pipeline.runner.run_local`
                    (in-process through the argv seam, and through the installed `_molli_run`
                    console script in a subprocess); oracle: a reference interpreter of the
                    command list (what ran, in which order, where it stopped - observed through
                    marker files in a side directory).

Nothing is sampled; ctx.seed only rotates the order of the alphabets.
"""
from __future__ import annotations

import contextlib
import hashlib
import io
import itertools
import os
import shlex
import shutil
import subprocess
import sys
from pathlib import Path

from mc.core import HarnessError

from molli.pipeline.driver import DriverBase
from molli.pipeline.job import Job, JobInput, JobOutput
import molli.pipeline.job as _jobmod
import molli.pipeline.runner as _runner

LEVEL = "model_checking"

SUBPROC_TIMEOUT = 120


# =================================================================================================
# part A : descriptor binding
# =================================================================================================
class Item:
    """Stand-in for a molecule: the generic Job machinery only passes it through to prep/post."""

    def __init__(self, name):
        self.name = name


# class-level defaults of the flavours that have them / the settings declared on one Job itself
CLS_ENV = {"C17_C": "cls", "C17_A": "cls-a"}
JOB_ENV = {"C17_J": "job", "C17_B": "job-b"}
HOST_EXE, HOST_NPROCS = "sh", 4

# flavour -> jobs of the class, settings of the instances (executable, nprocs, envars)
FLAVOURS = {
    # DriverBase subclass without class-level settings (XTBDriver as shipped)
    "plain": dict(
        jobs=("single", "many", "other"),
        settings=[("sh", 1, None), ("bash", 7, {"C17_A": "seven"}), ("dash", 3, {"C17_A": "three", "C17_B": "b"})],
    ),
    # DriverBase subclass with class-level envars; one job declares envars of its own
    "clsenv": dict(
        jobs=("single", "many", "jenv"),
        settings=[("sh", 1, None), ("bash", 7, {"C17_A": "seven"}), ("dash", 3, {"C17_A": "three", "C17_B": "b"}), ("env", 5, {"C17_D": "d"})],
    ),
    # plain host class with class-level executable / nprocs / envars; an instance carries only what it overrides
    "host": dict(
        jobs=("single", "many", "jenv"),
        settings=[(None, None, None), ("bash", 7, {"C17_A": "seven"}), ("dash", None, {"C17_D": "d"}), (None, 3, {})],
    ),
}
JOB_RETURN = {"single": ("res.txt",), "many": ("res.txt",), "other": (), "jenv": ()}


def make_binding_class(flavour="plain"):
    """A fresh class with fresh class-level Job objects, built with the calls the decorators of
    XTBDriver make (`Job(...).prep(f)`, `.post(f)`, `Job.vectorize(job)`, `.reduce(f)`)."""

    def single_prep(self, M, tag="t", level=0):
        return JobInput(
            M.name,
            commands=[(f"{self.executable} -c 'echo {tag} {level} > res.txt' -P {self.nprocs}", "main")],
            files={"input.txt": M.name.encode()},
            return_files=self.return_files,
            envars=self.envars,
        )

    def single_post(self, out, M, **kwargs):
        return out.files["res.txt"]

    def many_reduce(self, outputs, items, *args, **kwargs):
        return list(outputs)

    def other_prep(self, M, tag="t", level=0):
        return JobInput(
            M.name,
            commands=[(f"{self.executable} -c 'echo other {tag} {level}' -P {self.nprocs}", "main")],
            return_files=self.return_files,
            envars=self.envars,
        )

    def other_post(self, out, M, **kwargs):
        return out.stdouts["main"]

    single = Job(return_files=("res.txt",)).prep(single_prep)
    single.post(single_post)
    many = Job.vectorize(single)
    many.reduce(many_reduce)
    ns = {"single": single, "many": many}
    shared = {}
    if flavour == "plain":
        other = Job(return_files=()).prep(other_prep)
        other.post(other_post)
        ns["other"] = other
    else:
        shared["job_env"] = dict(JOB_ENV)
        jenv = Job(return_files=(), envars=shared["job_env"]).prep(other_prep)
        jenv.post(other_post)
        ns["jenv"] = jenv
        shared["cls_env"] = dict(CLS_ENV)
        ns["envars"] = shared["cls_env"]
    if flavour == "host":
        ns["executable"] = HOST_EXE
        ns["nprocs"] = HOST_NPROCS
        cls = type("Host", (object,), ns)
    else:
        ns["default_executable"] = "sh"
        cls = type("ShDriver", (DriverBase,), ns)
    return cls, shared


def make_instance(cls, flavour, s):
    exe, nprocs, envars = FLAVOURS[flavour]["settings"][s]
    env = None if envars is None else dict(envars)
    if flavour == "host":
        d = cls()
        if exe is not None:
            d.executable = exe
        if nprocs is not None:
            d.nprocs = nprocs
        if env is not None:
            d.envars = env
        return d, env
    return cls(exe, nprocs=nprocs, envars=env), env


def expected_settings(flavour, s, jname):
    """class defaults < instance < settings declared on the Job itself."""
    exe, nprocs, env = FLAVOURS[flavour]["settings"][s]
    if flavour == "host":
        exe = exe or HOST_EXE
        nprocs = nprocs or HOST_NPROCS
    e = dict(CLS_ENV) if flavour != "plain" else {}
    e.update(env or {})
    if jname == "jenv":
        e.update(JOB_ENV)
    return exe, nprocs, e


def binding_histories(n, max_uses, jobs, order):
    """Every history over ops ("new", s) / ("use", s, job) / ("held", s, job): the drivers are created
    in the order `order` (a permutation of n settings indices), a driver is used only after it exists,
    at most max_uses uses, uses and creations interleave freely.  "use" fetches the job from the driver
    and prepares at once; "held" prepares through the job object that the FIRST use of (s, job) in this
    history fetched (a caller that keeps `xtb.optimize_m` in a variable).  Level by level (BFS)."""
    frontier = [()]
    while frontier:
        nxt = []
        for h in frontier:
            created = [op[1] for op in h if op[0] == "new"]
            nuses = sum(1 for op in h if op[0] != "new")
            ext = []
            if len(created) < n:
                ext.append(("new", order[len(created)]))
            if nuses < max_uses:
                for s in created:
                    for j in jobs:
                        ext.append(("use", s, j))
                        if ("use", s, j) in h:
                            ext.append(("held", s, j))
            for op in ext:
                nxt.append(h + (op,))
        yield from nxt
        frontier = nxt


def binding_exec(hist, flavour="plain"):
    """Run one history on a fresh class; return the list of observations, one per op, and the state of
    every shared settings object afterwards."""
    cls, shared = make_binding_class(flavour)
    drivers = {}
    inst_env = {}
    handles = {}
    obs = []
    env_objects = []  # envars dict objects of the JobInputs built so far
    for step, op in enumerate(hist):
        if op[0] == "new":
            d, env = make_instance(cls, flavour, op[1])
            drivers[op[1]] = d
            inst_env[op[1]] = env
            obs.append(("new", getattr(d, "executable", None)))
        else:
            how, s, jname = op
            d = drivers[s]
            tag, level = f"tag{step}", step
            try:
                if how == "held":
                    job = handles[(s, jname)]
                else:
                    job = getattr(d, jname)
                    handles.setdefault((s, jname), job)
                if jname == "many":
                    prepared = list(job.prepare([Item(f"i{step}a"), Item(f"i{step}b")], tag=tag, level=level))
                    names = [f"i{step}a", f"i{step}b"]
                else:
                    prepared = [job.prepare(Item(f"i{step}"), tag, level=level)]
                    names = [f"i{step}"]
            except Exception as e:  # an observation, not a crash
                obs.append(("exc", type(e).__name__, str(e)[:80]))
                continue
            rec = []
            for ji, nm in zip(prepared, names):
                if not isinstance(ji, JobInput):
                    rec.append(("notjobinput", type(ji).__name__))
                    continue
                try:
                    argv = shlex.split(ji.commands[0][0])
                except Exception:
                    argv = [ji.commands[0][0]]
                if isinstance(ji.envars, dict):
                    env_objects.append(ji.envars)
                rec.append(
                    (
                        "ji",
                        ji.jid,
                        argv[0] if argv else None,
                        argv[-1] if argv else None,  # -P <nprocs>
                        argv[2] if len(argv) > 2 else None,  # the script with the caller's args
                        tuple(sorted((ji.envars or {}).items())),
                        tuple(ji.return_files) if ji.return_files is not None else None,
                        nm,
                    )
                )
            obs.append(("use", tuple(rec)))
    state = {
        "cls_env": None if "cls_env" not in shared else dict(getattr(cls, "envars", None) or {}),
        "cls_env_same_object": "cls_env" not in shared or getattr(cls, "envars", None) is shared["cls_env"],
        "job_env": None if "job_env" not in shared else dict(cls.__dict__["jenv"].envars or {}),
        "inst_env": {s: (None if getattr(d, "__dict__", {}).get("envars") is None else dict(d.__dict__["envars"])) for s, d in drivers.items()},
        "inst_env_expected": inst_env,
        "jobinput_shares_class_dict": any(o is shared.get("cls_env") or o is shared.get("job_env") for o in env_objects),
        "jobinputs_share_dict": len({id(o) for o in env_objects}) < len(env_objects),
    }
    return obs, state


def binding_check_last(ctx, hist, obs, state, flavour="plain", report=True):
    """Oracle for the LAST op of the history (prefixes were validated as shorter histories).
    Returns True when the step is fine."""
    op = hist[-1]
    o = obs[-1]
    settings = FLAVOURS[flavour]["settings"]
    case = {"part": "A", "flavour": flavour, "history": [list(x) for x in hist]}
    if op[0] == "new":
        exe = settings[op[1]][0] or (HOST_EXE if flavour == "host" else None)
        ok = o[1] in (exe, shutil.which(exe))
        if not ok and report:
            ctx.violation("binding:new:driver-executable-not-set", f"driver created with executable {exe!r} shows {o[1]!r}", case)
        return ok
    _, s, jname = op
    step = len(hist) - 1
    exe, nprocs, env = expected_settings(flavour, s, jname)
    raw = settings[s]
    exp_exe = (exe, shutil.which(exe))
    exp_env = tuple(sorted(env.items()))
    # effective settings of the OTHER instances that were used before this step (symptom classification)
    earlier = [expected_settings(flavour, x[1], x[2]) for x in hist[:-1] if x[0] != "new" and x[1] != s]
    ok = True

    def viol(field, symptom, what):
        nonlocal ok
        ok = False
        if report:
            repro = BINDING_REPRO if symptom == "settings-of-other-driver" else CLASS_REPRO if symptom == "class-default-overrides-instance" else None
            ctx.violation(f"binding:{field}:{symptom}", what, case, repro=repro)

    if o[0] == "exc":
        viol("prepare", f"raised-{o[1]}", f"{jname}.prepare raised {o[1]}: {o[2]}")
        return ok
    for rec in o[1]:
        if rec[0] != "ji":
            viol("prepare", "not-a-JobInput", f"{jname}.prepare produced {rec[1]}")
            continue
        _, jid, got_exe, got_np, script, got_env, got_ret, nm = rec
        if got_exe not in exp_exe:
            if flavour == "host" and raw[0] is not None and got_exe in (HOST_EXE, shutil.which(HOST_EXE)):
                sym = "class-default-overrides-instance"
            elif any(got_exe in (e[0], shutil.which(e[0])) for e in earlier):
                sym = "settings-of-other-driver"
            else:
                sym = "wrong-value"
            viol("executable", sym, f"JobInput built through an instance with executable {exe!r} runs {got_exe!r} ({flavour})")
        if got_np != str(nprocs):
            if flavour == "host" and raw[1] is not None and got_np == str(HOST_NPROCS):
                sym = "class-default-overrides-instance"
            elif any(got_np == str(e[1]) for e in earlier):
                sym = "settings-of-other-driver"
            else:
                sym = "wrong-value"
            viol("nprocs", sym, f"JobInput built through an instance with nprocs={nprocs} carries -P {got_np} ({flavour})")
        if got_env != exp_env:
            extra = set(got_env) - set(exp_env)
            missing = set(exp_env) - set(got_env)
            inst = raw[2] or {}
            jobenv = JOB_ENV if jname == "jenv" else {}
            clsenv = CLS_ENV if flavour != "plain" else {}
            others = set()
            for x in hist[:-1]:
                if x[0] != "new" and x[1] != s:
                    others |= set((settings[x[1]][2] or {}).items())
            if (extra & others) - set(clsenv.items()) - set(jobenv.items()) or any(got_env == tuple(sorted(e[2].items())) for e in earlier):
                sym = "settings-of-other-driver"
            elif any(k in inst and (k, v) in extra for k, v in clsenv.items()):
                sym = "class-default-overrides-instance"
            elif any(k in jobenv and (k, v) in extra for k, v in list(inst.items()) + list(clsenv.items())):
                sym = "job-level-setting-overridden"
            elif missing & set(jobenv.items()):
                sym = "job-level-setting-not-applied"
            elif missing & set(clsenv.items()):
                sym = "class-default-not-applied"
            elif missing & set(inst.items()):
                sym = "instance-setting-not-applied"
            else:
                sym = "wrong-value"
            viol("envars", sym, f"JobInput built through an instance with envars={raw[2]!r} via job {jname} ({flavour}) carries {dict(got_env)!r}, expected {env!r}")
        kw = "other " if jname in ("other", "jenv") else ""
        want = f"echo {kw}tag{step} {step}" + ("" if kw else " > res.txt")
        if script != want:
            viol("arguments", "caller-arguments-not-reflected", f"command script {script!r} != {want!r}")
        if jid != nm:
            viol("arguments", "jid-not-from-input", f"jid {jid!r} != item name {nm!r}")
        if got_ret != JOB_RETURN[jname]:
            viol("return_files", "wrong-value", f"return_files {got_ret!r} != declared {JOB_RETURN[jname]!r}")
    # building a JobInput must not change the settings objects that instances / jobs share
    if state["cls_env"] is not None and (state["cls_env"] != CLS_ENV or not state["cls_env_same_object"]):
        viol("shared-state", "class-level-envars-mutated", f"the class-level envars dict became {state['cls_env']!r} (declared {CLS_ENV!r})")
    if state["job_env"] is not None and state["job_env"] != JOB_ENV:
        viol("shared-state", "job-level-envars-mutated", f"the envars declared on the Job became {state['job_env']!r} (declared {JOB_ENV!r})")
    if state["inst_env"] != state["inst_env_expected"]:
        viol("shared-state", "instance-envars-mutated", f"instance envars became {state['inst_env']!r} (set: {state['inst_env_expected']!r})")
    return ok


BINDING_REPRO = """\
import molli as ml
from molli.pipeline.driver import DriverBase
from molli.pipeline.job import Job, JobInput
class D(DriverBase):
    default_executable = "sh"
    @Job(return_files=()).prep
    def task(self, name):
        return JobInput(name, commands=[(f"{self.executable} -P {self.nprocs}", None)], return_files=self.return_files, envars=self.envars)
d1 = D("sh", nprocs=1, envars={"A": "one"}); d2 = D("bash", nprocs=7, envars={"A": "seven"})
print(d1.task.prepare("x"))   # sh -P 1, {'A': 'one'}
print(d2.task.prepare("y"))   # expected bash -P 7, {'A': 'seven'}
"""

CLASS_REPRO = """\
from molli.pipeline.job import Job, JobInput
class Host:                                   # Job.__get__ supports class-level defaults (getattr(objtype, ...))
    executable = "sh"; nprocs = 4; envars = {"C": "cls"}
    def __init__(self, **kw): self.__dict__.update(kw)
    @Job(return_files=()).prep
    def task(self, name):
        return JobInput(name, commands=[(f"{self.executable} -P {self.nprocs}", None)], return_files=self.return_files, envars=self.envars)
h = Host(executable="bash", nprocs=7, envars={"A": "seven"})
print(h.executable, h.nprocs, h.task.prepare("x"))
# instance says bash / 7; expected 'bash -P 7'; observed 'sh -P 4': job.py Job.__get__ asks the class before the instance
"""


def binding_parts(ctx, seed):
    """Partition of part A: one part per (flavour, creation order).  Orders of 3 instances run to U3
    uses, orders of 2 instances to U2 > U3 uses; a history that two parts generate (a common prefix)
    is counted and reported by exactly one of them."""
    parts = []
    bounds = {}
    for flavour, fl in FLAVOURS.items():
        if flavour == "plain":
            u3, u2 = (4, 5) if ctx.thorough else (3, 4)
        else:
            u3, u2 = (3, 4) if ctx.thorough else (2, 3)
        jobs = list(fl["jobs"])
        r = seed % len(jobs)
        jobs = jobs[r:] + jobs[:r]
        nset = len(fl["settings"])
        for n, uses in ((2, u2), (3, u3)):
            orders = list(itertools.permutations(range(nset), n))
            ro = seed % len(orders)
            # the (deeper) histories of the quick tier of the plain flavour use one plain and the vectorised job;
            # the second plain job is exercised by the other two flavours (jenv) and by the thorough tier
            jj = jobs if (ctx.thorough or flavour != "plain") else [j for j in jobs if j in ("single", "many")]
            for order in orders[ro:] + orders[:ro]:
                parts.append(("A", flavour, n, order, uses, u3, jj))
        bounds[flavour] = {"instances": "2..3 of %d settings" % nset, "max_uses": {"2 instances": u2, "3 instances": u3}, "jobs": list(fl["jobs"]) if (ctx.thorough or flavour != "plain") else ["single", "many"]}
    ctx.bound["A"] = bounds
    return parts


def _owned(hist, n, order, u3, nset):
    created = [op[1] for op in hist if op[0] == "new"]
    nuses = len(hist) - len(created)
    if n == 2 and nuses <= u3:
        return False  # a prefix of a 3-instance history
    # of the parts that share a history with fewer than n creations, the one whose remaining order is the
    # ascending completion owns it
    rest = sorted(set(range(nset)) - set(created))
    return list(order[len(created) :]) == rest[: n - len(created)]


def run_binding_part(ctx, part):
    _, flavour, n, order, uses, u3, jobs = part
    nset = len(FLAVOURS[flavour]["settings"])
    bad_prefix: set = set()
    total = nhist = 0
    for hist in binding_histories(n, uses, jobs, order):
        # do not continue a history after a violating step
        if any(hist[:k] in bad_prefix for k in range(1, len(hist))):
            continue
        own = _owned(hist, n, order, u3, nset)
        obs, state = binding_exec(hist, flavour)
        ok = binding_check_last(ctx, hist, obs, state, flavour, report=own)
        if not ok:
            bad_prefix.add(hist)
        if not own:
            continue
        nhist += 1
        ctx.count(evaluations=1, traces=1, transitions=len(hist), states=1)
        if not ok:
            continue
        if state["jobinput_shares_class_dict"]:
            ctx.add_note("A_jobinput_envars_is_a_shared_settings_object", 1)
        nnew = sum(1 for x in hist if x[0] == "new")
        if nnew >= 2 and hist[-1][0] != "new":
            ctx.nontrivial(("A", flavour, hist))
        ctx.outcome(("A", hashlib.sha1(repr(obs).encode()).hexdigest()[:12]))
        total += 1
        if total == 60 and tuple(order[:2]) == (0, 1) and (n == 3 and order[2] == 2):
            ctx.sample({"part": "A", "flavour": flavour, "history": [list(x) for x in hist], "observed_last": repr(obs[-1])[:300]})
    ctx.add_note("A_histories_executed", nhist)
    ctx.add_note("A_histories_without_violation", total)


# -------------------------------------------------------------------------------------------------
# part A2 : driver lifetime and reconfiguration
# -------------------------------------------------------------------------------------------------
RECONF_FIELDS = ("exe", "nprocs", "envrep", "envmut")
CLS_OPS = ("set-nprocs", "clear-nprocs", "set-envars", "mut-envars")
REUSE_BATCH = 40


def lifetime_histories(L, jobs, nset, max_new, max_drop, max_reconf, max_use, cls_ops=()):
    """Every history of at most L ops over
        ("new", s)            create a driver with settings s (at most two alive at a time)
        ("drop", s)           delete the driver object (after it was used)
        ("use", s, job) / ("held", s, job)      as in part A; handles die with their driver
        ("reconf", s, field)  change the settings of a live driver after it was used: assign executable / nprocs,
                              replace the envars dict, edit the envars dict in place
        ("cls", what)         set / clear a class-level default (host flavour)
    level by level."""
    frontier = [()]
    for _ in range(L):
        nxt = []
        for h in frontier:
            alive, used, usedinst = set(), set(), set()
            nn = nd = nr = nu = 0
            for op in h:
                if op[0] == "new":
                    alive.add(op[1])
                    nn += 1
                elif op[0] == "drop":
                    alive.discard(op[1])
                    nd += 1
                    used = {u for u in used if u[0] != op[1]}
                    usedinst.discard(op[1])
                elif op[0] in ("use", "held"):
                    nu += 1
                    used.add((op[1], op[2]))
                    usedinst.add(op[1])
                else:
                    nr += 1
            ext = []
            if nn < max_new and len(alive) < 2:
                ext += [("new", s) for s in range(nset) if s not in alive]
            if nd < max_drop:
                ext += [("drop", s) for s in sorted(alive) if s in usedinst]
            if nu < max_use:
                for s in sorted(alive):
                    for j in jobs:
                        ext.append(("use", s, j))
                        if (s, j) in used:
                            ext.append(("held", s, j))
            if nr < max_reconf:
                for s in sorted(alive):
                    if s in usedinst:
                        ext += [("reconf", s, f) for f in RECONF_FIELDS]
                if usedinst:
                    ext += [("cls", c) for c in cls_ops]
            for op in ext:
                nxt.append(h + (op,))
        yield from nxt
        frontier = nxt


def lifetime_exec(hist, flavour):
    """Run one history on a fresh class.  A slot holds one driver - or, when a driver was dropped before, a batch
    of identically configured drivers created until one of them lands on the address of a dropped one (CPython
    reuses the block at once most of the time).  Returns the observation of the last op and what is expected."""
    import gc

    cls, shared = make_binding_class(flavour)
    settings = FLAVOURS[flavour]["settings"]
    slots = {}  # s -> list of drivers
    cur = {}  # s -> current settings of the slot {"exe","nprocs","env"}
    cls_now = {"nprocs": HOST_NPROCS if flavour == "host" else None, "env": dict(CLS_ENV) if flavour != "plain" else {}, "exe": HOST_EXE if flavour == "host" else None}
    handles = {}  # (s, job) -> (list of bound jobs, settings at the time of the fetch)
    dropped_ids = set()
    dropped_settings = []
    reused = False
    last = None

    def effective(s, jname):
        c = cur[s]
        exe = c["exe"] or cls_now["exe"]
        nprocs = c["nprocs"] or cls_now["nprocs"] or 1
        env = dict(cls_now["env"])
        env.update(c["env"] or {})
        if jname == "jenv":
            env.update(JOB_ENV)
        return exe, nprocs, env

    for step, op in enumerate(hist):
        last = None
        if op[0] == "new":
            s = op[1]
            exe, nprocs, envars = settings[s]
            batch = []
            for _ in range(REUSE_BATCH if dropped_ids else 1):
                d, _env = make_instance(cls, flavour, s)
                batch.append(d)
                if id(d) in dropped_ids:
                    reused = True
                    break
            slots[s] = batch
            cur[s] = {"exe": exe, "nprocs": nprocs, "env": None if envars is None else dict(envars)}
        elif op[0] == "drop":
            s = op[1]
            dropped_settings.append({j: effective(s, j) for j in FLAVOURS[flavour]["jobs"]})
            for d in slots[s]:
                dropped_ids.add(id(d))
            d = None
            del slots[s]
            del cur[s]
            for k in [k for k in handles if k[0] == s]:
                del handles[k]
            gc.collect(0)
        elif op[0] == "reconf":
            _, s, field = op
            c = cur[s]
            for d in slots[s]:
                if field == "exe":
                    d.executable = "/usr/bin/env"
                elif field == "nprocs":
                    d.nprocs = 10 + step
                elif field == "envrep":
                    d.envars = {"C17_R": f"r{step}"}
                else:
                    if getattr(d, "__dict__", {}).get("envars") is None:
                        d.envars = {}
                    d.envars["C17_M"] = f"m{step}"
            if field == "exe":
                c["exe"] = "/usr/bin/env"
            elif field == "nprocs":
                c["nprocs"] = 10 + step
            elif field == "envrep":
                c["env"] = {"C17_R": f"r{step}"}
            else:
                c["env"] = dict(c["env"] or {})
                c["env"]["C17_M"] = f"m{step}"
        elif op[0] == "cls":
            what = op[1]
            if what == "set-nprocs":
                cls.nprocs = 9
                cls_now["nprocs"] = 9
            elif what == "clear-nprocs":
                if "nprocs" in cls.__dict__:
                    del cls.nprocs
                cls_now["nprocs"] = None
            elif what == "set-envars":
                cls.envars = {"C17_K": f"k{step}"}
                cls_now["env"] = {"C17_K": f"k{step}"}
            else:
                cls.envars["C17_K2"] = f"k{step}"
                cls_now["env"] = dict(cls_now["env"])
                cls_now["env"]["C17_K2"] = f"k{step}"
        else:
            how, s, jname = op
            exp_now = effective(s, jname)
            if how == "use":
                jobs = [getattr(d, jname) for d in slots[s]]
                handles.setdefault((s, jname), (jobs, exp_now))
                accepted = [exp_now]
            else:
                jobs, at_fetch = handles[(s, jname)]
                accepted = [exp_now, at_fetch]
            got = []
            for job in jobs:
                try:
                    if jname == "many":
                        prepared = list(job.prepare([Item("a"), Item("b")], tag=f"tag{step}", level=step))
                    else:
                        prepared = [job.prepare(Item("a"), f"tag{step}", level=step)]
                except Exception as e:
                    got.append(("exc", type(e).__name__))
                    continue
                for ji in prepared:
                    argv = shlex.split(ji.commands[0][0])
                    got.append((argv[0], argv[-1], tuple(sorted((ji.envars or {}).items()))))
            last = {"got": got, "accepted": accepted, "how": how, "own_history": None, "dropped": list(dropped_settings), "jname": jname}
    return last, reused


def lifetime_check_last(ctx, hist, flavour, last, report=True):
    """Expected = the driver's CURRENT settings at prepare() time (a handle fetched before a change may carry
    the settings as of its fetch instead, field by field)."""
    if last is None:
        return True
    ok = True
    case = {"part": "A2", "flavour": flavour, "history": [list(x) for x in hist]}
    jname = last["jname"]
    had_reconf = any(x[0] in ("reconf", "cls") for x in hist)

    def viol(field, symptom, what):
        nonlocal ok
        ok = False
        if report:
            ctx.violation(f"binding:{field}:{symptom}", what, case, repro=LIFETIME_REPRO.get(symptom))

    for g in last["got"]:
        if g[0] == "exc":
            viol("prepare", f"raised-{g[1]}", f"{jname}.prepare raised {g[1]}")
            continue
        for idx, field in ((0, "executable"), (1, "nprocs"), (2, "envars")):
            goods = []
            for exe, nprocs, env in last["accepted"]:
                goods.append(((exe, shutil.which(exe)), (str(nprocs),), (tuple(sorted(env.items())),))[idx])
            if any(g[idx] in good for good in goods):
                continue
            from_dropped = False
            for dset in last["dropped"]:
                e = dset.get(jname)
                if e is not None and g[idx] in ((e[0], shutil.which(e[0])), (str(e[1]),), (tuple(sorted(e[2].items())),))[idx]:
                    from_dropped = True
            if from_dropped:
                sym = "settings-of-a-dropped-driver"
            elif had_reconf:
                sym = "stale-settings-after-reconfiguration"
            else:
                sym = "wrong-value"
            want = last["accepted"][0][idx]
            viol(field, sym, f"JobInput built through a driver whose current {field} is {want!r} carries {g[idx]!r} ({flavour}, {last['how']})")
    return ok


LIFETIME_REPRO = {
    "settings-of-a-dropped-driver": """\
from molli.pipeline.driver import DriverBase
from molli.pipeline.job import Job, JobInput
class D(DriverBase):
    default_executable = "sh"
    @Job(return_files=()).prep
    def task(self, name):
        return JobInput(name, commands=[(f"{self.executable} -P {self.nprocs}", None)], return_files=self.return_files, envars=self.envars)
d = D("sh", nprocs=1); d.task.prepare("x"); del d
later = [D("bash", nprocs=7) for _ in range(12)]           # one of them lands on the freed address
print([x.task.prepare("y").commands[0][0] for x in later])   # every one must be '/usr/bin/bash -P 7'
""",
    "stale-settings-after-reconfiguration": """\
from molli.pipeline.driver import DriverBase
from molli.pipeline.job import Job, JobInput
class D(DriverBase):
    default_executable = "sh"
    @Job(return_files=()).prep
    def task(self, name):
        return JobInput(name, commands=[(f"{self.executable} -P {self.nprocs}", None)], return_files=self.return_files, envars=self.envars)
d = D("sh", nprocs=1, envars={"A": "1"}); d.task.prepare("x")
d.nprocs = 8; d.envars["B"] = "2"
print(d.task.prepare("y"))   # expected '-P 8' and envars {'A': '1', 'B': '2'}
""",
}


def lifetime_parts(ctx, seed):
    parts = []
    for flavour in ("plain", "host"):
        fl = FLAVOURS[flavour]
        jobs = [j for j in fl["jobs"] if j in (("single", "many") if flavour == "plain" else ("single", "jenv"))]
        jobs = jobs[seed % len(jobs) :] + jobs[: seed % len(jobs)]
        nset = 3
        if ctx.thorough:
            L, max_new, max_drop, max_reconf, max_use = 6, 3, 2, 2, 3
        else:
            L, max_new, max_drop, max_reconf, max_use = 5, 3, 1, 2, 3
        if flavour == "host" and not ctx.thorough:
            jobs = jobs[:1] if False else ["single"]
        cls_ops = CLS_OPS if flavour == "host" else ()
        for first in range(nset):
            parts.append(("A2", flavour, first, L, tuple(jobs), nset, max_new, max_drop, max_reconf, max_use, cls_ops))
        ctx.bound.setdefault("A2", {})[flavour] = {"max_ops": L, "jobs": list(jobs), "settings": nset, "max_new": max_new, "max_drop": max_drop, "max_reconf": max_reconf, "max_uses": max_use, "class_ops": list(cls_ops)}
    return parts


def run_lifetime_part(ctx, part):
    _, flavour, first, L, jobs, nset, max_new, max_drop, max_reconf, max_use, cls_ops = part
    bad_prefix: set = set()
    n = nre = ndrop_new = 0
    for hist in lifetime_histories(L, jobs, nset, max_new, max_drop, max_reconf, max_use, cls_ops):
        if hist[0][1] != first:
            continue  # partition by the first driver created
        if any(hist[:k] in bad_prefix for k in range(1, len(hist))):
            continue
        last, reused = lifetime_exec(hist, flavour)
        ok = lifetime_check_last(ctx, hist, flavour, last)
        n += 1
        ctx.count(evaluations=1, traces=1, transitions=len(hist), states=1)
        if not ok:
            bad_prefix.add(hist)
            continue
        new_after_drop = any(x[0] == "drop" for x in hist) and any(x[0] == "new" for i, x in enumerate(hist) if any(y[0] == "drop" for y in hist[:i]))
        if new_after_drop:
            ndrop_new += 1
            nre += 1 if reused else 0
        if last is not None and any(x[0] in ("drop", "reconf", "cls") for x in hist):
            ctx.nontrivial(("A2", flavour, hist))
        if last is not None:
            ctx.outcome(("A2", hashlib.sha1(repr((last["got"][:1], hist[-1])).encode()).hexdigest()[:12]))
        if n == 500 and first == 0:
            ctx.sample({"part": "A2", "flavour": flavour, "history": [list(x) for x in hist], "observed_last": None if last is None else repr(last["got"][:1])[:200]})
    ctx.add_note("A2_histories_executed", n)
    ctx.add_note("A2_histories_with_a_driver_created_after_a_drop", ndrop_new)
    ctx.add_note("A2_of_those_with_the_address_of_a_dropped_driver_reused", nre)


# -------------------------------------------------------------------------------------------------
# part A3 : how the caller passes arguments (every job entry point x every call convention)
# -------------------------------------------------------------------------------------------------
class Val:
    """A caller argument: recognisable, and with a .name like an item, so that a prep which receives it in
    the item slot does not crash but shows it."""

    def __init__(self, name):
        self.name = name


ARG_SLOTS = ("a", "b", "c")
ARG_DEFAULT = {"a": "da", "b": "db", "c": "dc"}
ARG_VALUE = {"a": "VA", "b": "VB", "c": "VC"}


def slot(x):
    return f"{type(x).__name__}:{getattr(x, 'name', x)}"


def call_conventions():
    """Every way of passing a subset of (a, b, c): a positional prefix, the rest by keyword
    (0..3 caller arguments; all-positional, all-keyword, mixed, defaults omitted)."""
    out = []
    for mask in range(8):
        chosen = [sl for i, sl in enumerate(ARG_SLOTS) if mask >> i & 1]
        maxp = 0
        while maxp < 3 and ARG_SLOTS[maxp] in chosen:
            maxp += 1
        for npos in range(maxp + 1):
            pos = list(ARG_SLOTS[:npos])
            kw = [sl for sl in chosen if sl not in pos]
            cls = "no-arguments" if not chosen else "positional" if not kw else "keyword" if not pos else "mixed"
            out.append({"pos": pos, "kw": kw, "class": cls})
    return out


def make_call_class():
    def prep(self, M, a="da", b="db", c="dc"):
        text = f"M={slot(M)},a={slot(a)},b={slot(b)},c={slot(c)}"
        return JobInput(
            str(getattr(M, "name", M)),
            commands=[(shlex.join([self.executable, "-c", f"printf %s {text} > res.txt"]), "main")],
            return_files=self.return_files,
            envars=self.envars,
        )

    def post(self, out, M, a="da", b="db", c="dc"):
        return f"out[{bytes(out.files['res.txt']).decode()}]|M={slot(M)},a={slot(a)},b={slot(b)},c={slot(c)}".encode()

    def reduce(self, results, inp, a="da", b="db", c="dc"):
        return b"R{" + b";".join(results) + b"}" + f"|a={slot(a)},b={slot(b)},c={slot(c)}".encode()

    cc = Job(name="cc", return_files=("res.txt",)).prep(prep)
    cc.post(post)
    cc_ens = Job.vectorize(cc, name="cc_ens")
    cc_ens.reduce(reduce)
    cc_ens.name = "cc_ens"
    return type("CallDriver", (DriverBase,), {"default_executable": "sh", "cc": cc, "cc_ens": cc_ens})


def expected_slots(conv, item_slot):
    v = {sl: "str:" + ARG_DEFAULT[sl] for sl in ARG_SLOTS}
    for sl in conv["pos"] + conv["kw"]:
        v[sl] = "Val:" + ARG_VALUE[sl]
    return f"M={item_slot},a={v['a']},b={v['b']},c={v['c']}"


CALL_ENTRIES = ("single.prepare", "single.process", "vector.prepare", "vector.process", "jobmap.single", "jobmap.vector")


def call_exec(ctx, entry, conv):
    """One entry point x one convention on the real code.  Returns (observed strings, expected strings, exception name)."""
    cls = make_call_class()
    d = cls("sh", nprocs=1)
    vals = {sl: Val(ARG_VALUE[sl]) for sl in ARG_SLOTS}
    args = tuple(vals[sl] for sl in conv["pos"])
    kwargs = {sl: vals[sl] for sl in conv["kw"]}
    tail = expected_slots(conv, "X")[len("M=X") :]  # ",a=..,b=..,c=.."
    try:
        if entry == "single.prepare":
            ji = d.cc.prepare(Item("i0"), *args, **kwargs)
            got = [shlex.split(ji.commands[0][0])[2]]
            exp = ["printf %s " + expected_slots(conv, "Item:i0") + " > res.txt"]
        elif entry == "vector.prepare":
            jis = list(d.cc_ens.prepare([Item("i0"), Item("i1")], *args, **kwargs))
            got = [shlex.split(ji.commands[0][0])[2] for ji in jis]
            exp = ["printf %s " + expected_slots(conv, f"Item:i{n}") + " > res.txt" for n in (0, 1)]
        elif entry == "single.process":
            r = d.cc.process(JobOutput(files={"res.txt": b"x0"}), Item("i0"), *args, **kwargs)
            got = [bytes(r).decode()]
            exp = ["out[x0]|" + expected_slots(conv, "Item:i0")]
        elif entry == "vector.process":
            outs = [JobOutput(files={"res.txt": b"x0"}), JobOutput(files={"res.txt": b"x1"})]
            r = d.cc_ens.process(outs, [Item("i0"), Item("i1")], *args, **kwargs)
            got = [bytes(r).decode()]
            exp = ["R{" + ";".join(f"out[x{n}]|" + expected_slots(conv, f"Item:i{n}") for n in (0, 1)) + "}|" + tail[1:]]
        else:
            got, exp = _call_jobmap(ctx, d, entry, args, kwargs, conv)
    except Exception as e:
        return None, None, type(e).__name__
    return got, exp, None


def _call_jobmap(ctx, d, entry, args, kwargs, conv):
    import contextlib as _cl
    import io as _io
    import numpy as np
    import molli as ml
    from molli.pipeline.job import jobmap
    from molli.storage import Collection, UkvCollectionBackend
    from mc.props import c18 as h  # in-process runner seam and handle hygiene of the C18 check

    w = _fresh(Path(ctx.scratch) / "callconv")
    vector = entry.endswith("vector")
    src_path = w / ("src.clib" if vector else "src.mlib")
    lib = (ml.ConformerLibrary if vector else ml.MoleculeLibrary)(src_path, readonly=False)
    with lib.writing():
        mol = ml.Molecule(name="k0")
        mol.add_atom(ml.Atom("C"), [0.0, 0.0, 0.0])
        if vector:
            ens = ml.ConformerEnsemble(mol, n_conformers=2, name="k0")
            ens.coords = np.zeros((2, 1, 3))
            lib["k0"] = ens
        else:
            lib["k0"] = mol
    h._forget(lib)
    source = (ml.ConformerLibrary if vector else ml.MoleculeLibrary)(src_path, readonly=True)
    dest = Collection(w / "dest.ukv", UkvCollectionBackend, readonly=False)
    old = (_jobmod._run_local, sys.stdin)
    _jobmod._run_local = h._run_local_inproc
    sys.stdin = _NoClose()
    sink = _io.StringIO()
    cwd0 = os.getcwd()
    try:
        with _cl.redirect_stderr(sink), _cl.redirect_stdout(sink):
            jobmap(d.cc_ens if vector else d.cc, source, dest, cache_dir=w / "cache", scratch_dir=w / "scratch", n_workers=1, args=args, kwargs=kwargs)
    finally:
        _jobmod._run_local, sys.stdin = old
        os.chdir(cwd0)
        h._close_logging()
        h._release(source)
        h._release(dest)
    rd = Collection(w / "dest.ukv", UkvCollectionBackend, readonly=True)
    try:
        with rd.reading(timeout=30):
            got = [bytes(rd[k]).decode() for k in sorted(rd.keys())]
    finally:
        h._forget(rd)
    tail = expected_slots(conv, "X")[len("M=X") :]
    if vector:
        one = lambda: "out[" + expected_slots(conv, "Conformer:k0") + "]|" + expected_slots(conv, "Conformer:k0")
        exp = ["R{" + ";".join(one() for _ in (0, 1)) + "}|" + tail[1:]]
    else:
        exp = ["out[" + expected_slots(conv, "Molecule:k0") + "]|" + expected_slots(conv, "Molecule:k0")]
    return got, exp


def call_check(ctx, entry, conv, got, exp, exc):
    case = {"part": "A3", "entry": entry, "conv": conv}
    if exc is not None:
        ctx.violation(f"call:{entry}:{conv['class']}:raised-{exc}", f"{entry} with positional {conv['pos']} / keyword {conv['kw']} caller arguments raised {exc}", case, repro=CALL_REPRO)
        return False
    if got == exp:
        return True
    import re

    items = lambda ss: [re.findall(r"M=([^,|\]]+)", x) for x in ss]
    sym = "item-not-in-the-item-slot" if items(got) != items(exp) else "argument-in-the-wrong-slot"
    ctx.violation(f"call:{entry}:{conv['class']}:{sym}", f"{entry} with positional {conv['pos']} / keyword {conv['kw']}: observed {got!r}, a direct call prepare/post(job, item, ...) gives {exp!r}", case, repro=CALL_REPRO)
    return False


CALL_REPRO = """\
from molli.pipeline.driver import DriverBase
from molli.pipeline.job import Job, JobInput
class D(DriverBase):
    default_executable = "sh"
    @Job(return_files=()).prep
    def one(self, M, a="da", b="db"):
        return JobInput(str(M), commands=[(f"echo item={M} a={a} b={b}", None)], return_files=self.return_files)
    many = Job.vectorize(one)
d = D()
print([ji.commands for ji in d.many.prepare(["i0", "i1"], "VA", b="VB")])   # expected item=i0 a=VA b=VB / item=i1 a=VA b=VB
"""


def run_call_part(ctx, part):
    _, entries = part
    n = 0
    for entry in entries:
        for conv in call_conventions():
            got, exp, exc = call_exec(ctx, entry, conv)
            ok = call_check(ctx, entry, conv, got, exp, exc)
            n += 1
            ctx.count(evaluations=1, traces=1, states=1, transitions=1)
            if ok:
                if conv["pos"] or conv["kw"]:
                    ctx.nontrivial(("A3", entry, tuple(conv["pos"]), tuple(conv["kw"])))
                ctx.outcome(("A3", hashlib.sha1(repr(got).encode()).hexdigest()[:12]))
                if entry == "vector.prepare" and conv["pos"] == ["a"] and conv["kw"] == ["c"]:
                    ctx.sample({"part": "A3", "entry": entry, "conv": conv, "observed": got})
    ctx.add_note("A3_calls", n)


def call_parts(ctx, seed):
    ents = list(CALL_ENTRIES)
    ents = ents[seed % len(ents) :] + ents[: seed % len(ents)]
    ctx.bound["A3"] = {"entries": list(CALL_ENTRIES), "conventions": len(call_conventions()), "excluded": "Job.__call__ (raises NameError on the unchanged code: _runner_local is not defined in molli/pipeline/job.py)"}
    return [("A3", [e for e in ents if not e.startswith("jobmap")]), ("A3", [e for e in ents if e.startswith("jobmap")])]


# -------------------------------------------------------------------------------------------------
# part A4 : the environment (PATH) in force when a driver is created
# -------------------------------------------------------------------------------------------------
TOOL = "c17tool"


def path_histories(L, max_path, max_new, max_use):
    """Every history of at most L ops over ("path", A|B|N) - put tool directory A / B / none first on PATH -,
    ("new", bare|fullA) - create a driver for the bare program name / for the full path of A's copy -, ("use", i)."""
    frontier = [()]
    for _ in range(L):
        nxt = []
        for h in frontier:
            npth = sum(1 for o in h if o[0] == "path")
            nn = sum(1 for o in h if o[0] == "new")
            nu = sum(1 for o in h if o[0] == "use")
            cur = next((o[1] for o in reversed(h) if o[0] == "path"), "N")
            ext = []
            if npth < max_path and (not h or h[-1][0] != "path"):
                ext += [("path", x) for x in "ABN" if x != cur]
            if nn < max_new:
                ext += [("new", k) for k in ("bare", "fullA")]
            if nu < max_use:
                ext += [("use", i) for i in range(nn)]
            for o in ext:
                nxt.append(h + (o,))
        yield from nxt
        frontier = nxt


def path_setup(ctx):
    root = Path(ctx.scratch) / "pathtools"
    dirs = {}
    for x in "AB":
        d = root / x
        d.mkdir(parents=True, exist_ok=True)
        f = d / TOOL
        f.write_text("#!/bin/sh\nexit 0\n")
        f.chmod(0o755)
        dirs[x] = d
    return dirs


def path_exec(hist, dirs, base_path):
    """Returns per op an observation; expected executables are fixed at creation time."""
    cls, _shared = make_binding_class("plain")
    drivers = []  # (driver or None, expected executable or None, how created)
    obs = []
    old = os.environ.get("PATH")
    cur = "N"
    try:
        os.environ["PATH"] = base_path
        for step, op in enumerate(hist):
            if op[0] == "path":
                cur = op[1]
                os.environ["PATH"] = base_path if cur == "N" else str(dirs[cur]) + os.pathsep + base_path
                obs.append(("path",))
            elif op[0] == "new":
                name = TOOL if op[1] == "bare" else str(dirs["A"] / TOOL)
                exp = str(dirs["A"] / TOOL) if op[1] == "fullA" else (None if cur == "N" else str(dirs[cur] / TOOL))
                try:
                    d = cls(name, nprocs=1 + len(drivers))
                    drivers.append((d, exp, op[1], cur))
                    obs.append(("new", "created", d.executable, exp))
                except Exception as e:
                    drivers.append((None, exp, op[1], cur))
                    obs.append(("new", "raised-" + type(e).__name__, None, exp))
            else:
                d, exp, kind, at = drivers[op[1]]
                if d is None:
                    obs.append(("use", "no-driver", None, exp, kind, at))
                    continue
                try:
                    ji = d.single.prepare(Item(f"i{step}"), f"tag{step}", level=step)
                    obs.append(("use", "ok", shlex.split(ji.commands[0][0])[0], exp, kind, at))
                except Exception as e:
                    obs.append(("use", "raised-" + type(e).__name__, None, exp, kind, at))
    finally:
        if old is None:
            os.environ.pop("PATH", None)
        else:
            os.environ["PATH"] = old
    return obs


def path_check_last(ctx, hist, obs, dirs):
    op, o = hist[-1], obs[-1]
    case = {"part": "A4", "history": [list(x) for x in hist]}
    others = {str(dirs[x] / TOOL): x for x in "AB"}

    def viol(sym, what):
        ctx.violation(f"binding:executable:{sym}", what, case, repro=PATH_REPRO if "another-PATH" in sym else None)
        return False

    if op[0] == "new":
        _, status, got, exp = o
        if exp is None:
            # the program is not on PATH when the driver is created: the unchanged code refuses (FileNotFoundError);
            # accepted: refusing, or keeping the bare name - anything but resolving it to some copy
            if status == "created" and got != TOOL:
                return viol("resolved-although-not-on-PATH-at-creation", f"driver for {TOOL!r} created while it is not on PATH shows executable {got!r}")
            return True
        if status != "created":
            return viol(f"creation-{status}", f"creating a driver for a program that is on PATH ({exp}) {status}")
        if got != exp:
            sym = "resolved-under-another-PATH-than-at-creation" if (got in others or os.path.basename(str(got)) == TOOL) else "wrong-value"
            return viol(sym, f"driver created with PATH -> {exp} shows executable {got!r}")
        return True
    if op[0] == "use":
        _, status, got, exp, kind, at = o
        if status == "no-driver":
            return True
        if status != "ok":
            return viol(f"prepare-{status}", f"prepare {status}")
        want = exp if exp is not None else TOOL
        if got != want:
            sym = "resolved-under-another-PATH-than-at-creation" if (got in others or os.path.basename(str(got)) == TOOL) else "wrong-value"
            return viol(sym, f"JobInput of a driver created ({kind}) with PATH -> {want} invokes {got!r}")
    return True


PATH_REPRO = """\
import os, stat, tempfile
from molli.pipeline.driver import DriverBase
a, b = tempfile.mkdtemp(), tempfile.mkdtemp()
for d in (a, b):
    open(f"{d}/mytool", "w").write("#!/bin/sh\\n"); os.chmod(f"{d}/mytool", 0o755)
base = os.environ["PATH"]
os.environ["PATH"] = a + os.pathsep + base; d1 = DriverBase("mytool")
os.environ["PATH"] = b + os.pathsep + base; d2 = DriverBase("mytool")
print(d1.executable, d2.executable)   # expected: <a>/mytool <b>/mytool
"""


def path_parts(ctx, seed):
    L, mp, mn, mu = (7, 3, 3, 3) if ctx.thorough else (6, 3, 3, 3)
    ctx.bound["A4"] = {"max_ops": L, "PATH_changes": mp, "drivers": mn, "uses": mu, "creation": ["bare name", "full path"], "PATH": ["tool dir A first", "tool dir B first", "tool not on PATH"]}
    return [("A4", first, L, mp, mn, mu) for first in (("path", "A"), ("path", "B"), ("new", "bare"), ("new", "fullA"))]


def run_path_part(ctx, part):
    _, first, L, mp, mn, mu = part
    dirs = path_setup(ctx)
    base_path = os.pathsep.join(p for p in os.environ.get("PATH", "").split(os.pathsep) if p and not os.path.exists(os.path.join(p, TOOL)))
    bad: set = set()
    n = 0
    for hist in path_histories(L, mp, mn, mu):
        if hist[0] != first:
            continue
        if any(hist[:k] in bad for k in range(1, len(hist))):
            continue
        obs = path_exec(hist, dirs, base_path)
        ok = path_check_last(ctx, hist, obs, dirs)
        n += 1
        ctx.count(evaluations=1, traces=1, states=1, transitions=len(hist))
        if not ok:
            bad.add(hist)
            continue
        if hist[-1][0] == "use" and sum(1 for o in hist if o[0] == "path") >= 1 and sum(1 for o in hist if o[0] == "new") >= 2:
            ctx.nontrivial(("A4", hist))
        ctx.outcome(("A4", hashlib.sha1(repr([(o[0], o[1]) + ((o[2].rsplit("/", 2)[-2:] if isinstance(o[2], str) else o[2]),) if len(o) > 2 else o for o in obs[-1:]]).encode()).hexdigest()[:12]))
        if n == 300 and first == ("path", "A"):
            ctx.sample({"part": "A4", "history": [list(x) for x in hist], "observed_last": [str(x) for x in obs[-1]]})
    ctx.add_note("A4_histories_executed", n)


# -------------------------------------------------------------------------------------------------
# part A5 : every job of every driver class shipped in molli/pipeline, prepare-only
# -------------------------------------------------------------------------------------------------
QM = [(0, 1), (1, 1), (-1, 1), (0, 3), (1, 2), (-2, 1), (2, 3)]
CHARGE_FLAGS = ("--charge", "--chrg", "-chrg")
UHF_FLAGS = ("--uhf", "-uhf")
NPROC_FLAGS = ("-P", "-T", "-np")
H2O2 = (("H", (0.9, 0.8, 0.3)), ("O", (0.0, 0.7, -0.1)), ("O", (0.0, -0.7, -0.1)), ("H", (-0.9, -0.8, 0.3)))


def shipped_jobs():
    """(class, [attribute names], is_vectorised) for every Job attribute of every DriverBase subclass defined in a
    module of the molli.pipeline package - enumerated at run time."""
    import importlib
    import inspect
    import pkgutil
    import molli.pipeline as mp

    out = []
    for mi in sorted(pkgutil.iter_modules(mp.__path__), key=lambda x: x.name):
        try:
            mod = importlib.import_module("molli.pipeline." + mi.name)
        except Exception:
            continue
        for cname, c in sorted(vars(mod).items()):
            if inspect.isclass(c) and issubclass(c, DriverBase) and c is not DriverBase and c.__module__ == mod.__name__:
                seen = {}
                for n, j in vars(c).items():
                    if isinstance(j, Job):
                        seen.setdefault(id(j), []).append(n)
                for names in seen.values():
                    out.append((c, names, "prepare" in vars(c)[names[0]].__dict__))
    return out


def make_mol(q, m, shift=0.0):
    import molli as ml

    M = ml.Molecule(name="h2o2", charge=q, mult=m)
    for el, xyz in H2O2:
        M.add_atom(ml.Atom(el), [xyz[0] + shift, xyz[1], xyz[2]])
    return M


def make_ens(q, m, shift=0.0):
    import molli as ml
    import numpy as np

    M = make_mol(q, m, shift)
    E = ml.ConformerEnsemble(M, n_conformers=2, name="h2o2")
    E.coords = np.stack([M.coords, M.coords + 1.0])
    return E


def ji_view(ji):
    """What a prepared JobInput says about charge / unpaired electrons / multiplicity / processors / memory."""
    import re

    v = {"charge": [], "uhf": [], "mult": [], "nprocs": [], "maxcore": [], "memtotal": [], "tokens": []}
    for cmd, _name in ji.commands:
        toks = shlex.split(cmd)
        v["tokens"] += toks
        for i, t in enumerate(toks[:-1]):
            if t in CHARGE_FLAGS:
                v["charge"].append(toks[i + 1])
            elif t in UHF_FLAGS:
                v["uhf"].append(toks[i + 1])
            elif t in NPROC_FLAGS:
                v["nprocs"].append(toks[i + 1])
    for fn, content in (ji.files or {}).items():
        text = content.decode("utf8", "replace") if isinstance(content, (bytes, bytearray)) else str(content)
        for mm in re.finditer(r"(?m)^\*\s*xyz(?:file)?\s+(-?\d+)\s+(-?\d+)", text):
            v["charge"].append(mm.group(1))
            v["mult"].append(mm.group(2))
        for mm in re.finditer(r"(?m)^charge\s+(-?\d+)", text):
            v["charge"].append(mm.group(1))
        v["nprocs"] += re.findall(r"%pal\s+nprocs\s+(\d+)", text)
        v["maxcore"] += re.findall(r"%maxcore\s+(\d+)", text)
        v["memtotal"] += re.findall(r"memory\s+total\s+(\d+)\s+mb", text)
    return v


def ji_substituted(ji, charge, mult):
    """The JobInput as (commands, files) with its charge / uhf / multiplicity tokens replaced."""
    import re

    cmds = []
    for cmd, name in ji.commands:
        toks = shlex.split(cmd)
        for i, t in enumerate(toks[:-1]):
            if t in CHARGE_FLAGS:
                toks[i + 1] = str(charge)
            elif t in UHF_FLAGS:
                toks[i + 1] = str(mult - 1)
        cmds.append((tuple(toks), name))
    files = {}
    for fn, content in (ji.files or {}).items():
        text = content.decode("utf8", "replace") if isinstance(content, (bytes, bytearray)) else str(content)
        text = re.sub(r"(?m)^(\*\s*xyz(?:file)?\s+)-?\d+(\s+)-?\d+", lambda mm: f"{mm.group(1)}{charge}{mm.group(2)}{mult}", text)
        text = re.sub(r"(?m)^(charge\s+)-?\d+", lambda mm: f"{mm.group(1)}{charge}", text)
        files[fn] = text
    return cmds, files, None if ji.return_files is None else tuple(ji.return_files)


def shipped_prepare(job, vec, first_param, q, m, over, shift=0.0):
    import inspect

    params = list(inspect.signature(job._prep).parameters)
    obj = make_ens(q, m, shift) if (vec or first_param == "ens") else make_mol(q, m, shift)
    kw = {k: v for k, v in over.items() if k in params}
    if "dihedral_atoms" in params:
        base = obj if not hasattr(obj, "n_conformers") else obj
        kw["dihedral_atoms"] = tuple(base.atoms)
    r = job.prepare(obj, **kw)
    return [r] if isinstance(r, JobInput) else list(r)


def run_shipped_part(ctx, part):
    import inspect

    jobs = shipped_jobs()
    if len(jobs) < 4:
        raise HarnessError(f"only {len(jobs)} shipped driver jobs found in molli.pipeline - enumeration broken?")
    n = 0
    found = []
    for cls, names, vec in jobs:
        prepname = vars(cls)[names[0]]._prep.__name__
        label = f"{cls.__name__}.{prepname}"
        found.append(f"{cls.__name__}.{'/'.join(names)}")
        try:
            drivers = [
                cls(f"/opt/c17-fake/{cls.__name__}-one", nprocs=3, memory=6000, check_exe=False, find=False),
                cls(f"/opt/c17-fake/{cls.__name__}-two", nprocs=5, memory=20000, check_exe=False, find=False),
            ]
        except Exception as e:
            ctx.violation(f"shipped:{cls.__name__}:construction:raised-{type(e).__name__}", f"{cls.__name__}(executable, nprocs=, memory=, check_exe=False, find=False) raised {e}", {"part": "A5", "job": label})
            continue
        params = list(inspect.signature(vars(cls)[names[0]]._prep).parameters)
        first_param = params[1]
        for q, m in QM:
            overs = [("none", {}), ("charge", {"charge": 2 if q != 2 else -1}), ("mult", {"mult": m + 2}), ("both", {"charge": 2 if q != 2 else -1, "mult": m + 2})]
            if q != 0:
                overs.append(("charge=0", {"charge": 0}))
            for oname, over in overs:
                if not all(k in params for k in over):
                    continue
                for di, d in enumerate(drivers):
                    case = {"part": "A5", "cls": cls.__name__, "attr": names[0], "q": q, "m": m, "override": over, "driver": di}
                    n += 1
                    ctx.count(evaluations=1, traces=1, states=1, transitions=2)
                    ok = shipped_check(ctx, case, label, d, names[0], vec, first_param, q, m, oname, over)
                    if ok:
                        if over or (q, m) != (0, 1):
                            ctx.nontrivial(("A5", label, q, m, oname, di))
                        if n == 40:
                            ctx.sample(case)
    ctx.note("A5_shipped_jobs", sorted(found))
    ctx.add_note("A5_prepares_checked", n)
    ctx.bound["A5"] = {"(charge, mult)": [list(x) for x in QM], "overrides": ["none", "charge", "mult", "both", "charge=0"], "driver_instances_per_class": 2}


def shipped_check(ctx, case, label, d, attr, vec, first_param, q, m, oname, over):
    job_exe, nprocs, memory = d.executable, d.nprocs, d.memory
    ok = True

    def viol(field, sym, what):
        nonlocal ok
        ok = False
        ctx.violation(f"shipped:{label}:{field}:{sym}", what + f" [(q, m)=({q}, {m}), override {over}]", case, repro=SHIPPED_REPRO if sym == "override-0-ignored" else None)

    try:
        got = shipped_prepare(getattr(d, attr), vec, first_param, q, m, over)
        ref = shipped_prepare(getattr(d, attr), vec, first_param, 0, 1, {})
    except Exception as e:
        viol("prepare", f"raised-{type(e).__name__}", f"prepare raised {type(e).__name__}: {str(e)[:80]}")
        return False
    exp_charge = over["charge"] if over.get("charge") is not None else q
    exp_mult = over["mult"] if over.get("mult") is not None else m
    if len(got) != len(ref):
        viol("prepare", "number-of-inputs", f"{len(got)} JobInputs, reference molecule gives {len(ref)}")
        return False
    for ji, rj in zip(got, ref):
        v = ji_view(ji)
        for c in v["charge"]:
            if c != str(exp_charge):
                if oname == "charge=0" and c == str(q):
                    sym = "override-0-ignored"
                elif c == str(exp_mult - 1) and any(u == str(exp_charge) for u in v["uhf"]):
                    sym = "swapped-with-uhf"
                else:
                    sym = "wrong-value"
                viol("charge", sym, f"the prepared input says charge {c}, expected {exp_charge}")
        for u in v["uhf"]:
            if u != str(exp_mult - 1):
                sym = "swapped-with-charge" if (u == str(exp_charge) and any(c == str(exp_mult - 1) for c in v["charge"])) else "wrong-value"
                viol("uhf", sym, f"the prepared input says {u} unpaired electrons, expected multiplicity-1 = {exp_mult - 1}")
        for mu in v["mult"]:
            if mu != str(exp_mult):
                viol("mult", "wrong-value", f"the prepared input says multiplicity {mu}, expected {exp_mult}")
        if job_exe not in v["tokens"]:
            viol("executable", "not-this-drivers", f"the command {v['tokens'][:3]} does not invoke this driver's executable {job_exe}")
        for npv in v["nprocs"]:
            if npv != str(nprocs):
                viol("nprocs", "not-this-drivers", f"processors {npv}, this driver has nprocs={nprocs}")
        for mc_ in v["maxcore"]:
            if mc_ != str(memory // nprocs):
                viol("memory", "not-this-drivers", f"%maxcore {mc_}, this driver has memory // nprocs = {memory // nprocs}")
        for mt in v["memtotal"]:
            if mt != str(memory):
                viol("memory", "not-this-drivers", f"memory total {mt}, this driver has memory={memory}")
        if ok:
            # apart from the charge / uhf / multiplicity tokens the input equals the one of the neutral singlet
            if ji_substituted(ji, 0, 1) != ji_substituted(rj, 0, 1):
                viol("input", "differs-from-reference-beyond-charge-and-multiplicity", "commands / files differ from those prepared for the neutral singlet in more than the charge and multiplicity tokens")
    if ok and oname == "none" and (q, m) == (0, 1):
        # the input files carry the item's own geometry: a shifted copy of the molecule must show its own coordinates
        try:
            shifted = shipped_prepare(getattr(d, attr), vec, first_param, 0, 1, {}, shift=2.5)
        except Exception as e:
            viol("prepare", f"raised-{type(e).__name__}", f"prepare of a shifted molecule raised {e}")
            return False
        import re

        for ji in shifted[:1]:
            text = "\n".join((c.decode("utf8", "replace") if isinstance(c, (bytes, bytearray)) else str(c)) for c in (ji.files or {}).values())
            xs = [float(mm.group(1)) for mm in re.finditer(r"(?m)^\s*[A-Z][a-z]?\s+(-?\d+\.\d+)\s+-?\d+\.\d+\s+-?\d+\.\d+", text)]
            want = [a[1][0] + 2.5 for a in H2O2]
            if len(xs) < 4 or any(abs(a - b) > 2e-3 for a, b in zip(xs[:4], want)):
                viol("geometry", "not-the-items-own-coordinates", f"the input files show x coordinates {xs[:4]}, the molecule has {want}")
    return ok


SHIPPED_REPRO = """\
import molli as ml
from molli.pipeline.xtb import XTBDriver
M = ml.Molecule(name="cation", charge=1, mult=1)
M.add_atom(ml.Atom("H"), [0.0, 0.0, 0.0])
d = XTBDriver("/opt/fake/xtb", check_exe=False, find=False)
print(d.energy_m.prepare(M, charge=0).commands)   # the caller overrides the charge with 0; observed '--charge 1' (`charge or M.charge`)
"""


def shipped_parts(ctx, seed):
    return [("A5",)]


# -------------------------------------------------------------------------------------------------
# part A6 : reading JobInput.hash must not freeze it (observe -> modify -> observe)
# -------------------------------------------------------------------------------------------------
def hash_mutators():
    """field -> function that modifies that field of a JobInput in place (one per attrs field, found at run time)."""
    import attrs

    def m_jid(ji):
        ji.jid = ji.jid + "-m"

    def m_commands(ji):
        ji.commands = list(ji.commands) + [("true", None)]

    def m_files(ji):
        ji.files = dict(ji.files or {}, **{"extra.txt": b"x"})

    def m_return_files(ji):
        ji.return_files = tuple(ji.return_files or ()) + ("a.dat",)

    def m_envars(ji):
        ji.envars = dict(ji.envars or {}, C17_H="1")

    def m_timeout(ji):
        ji.timeout = 30.0

    known = {"jid": m_jid, "commands": m_commands, "files": m_files, "return_files": m_return_files, "envars": m_envars, "timeout": m_timeout}
    fields = [f.name for f in attrs.fields(JobInput)]
    unknown = [f for f in fields if f not in known]
    if unknown:
        raise HarnessError(f"JobInput has fields the hash histories do not modify: {unknown} - extend hash_mutators in mc/props/c17.py")
    return {f: known[f] for f in fields}


def hash_sequences():
    """(read the hash first?, fields modified in this order, read the hash between the modifications?)"""
    fields = list(hash_mutators())
    out = []
    for read_first in (False, True):
        for f in fields:
            out.append((read_first, (f,), False))
        for f, g in itertools.permutations(fields, 2):
            out.append((read_first, (f, g), True))
    return out


def hash_exec(ctx, seq, wd):
    import attrs
    import copy as _copy

    read_first, fields, read_between = seq
    muts = hash_mutators()
    mdir = _fresh(wd / "markers")
    odir = _fresh(wd / "out")
    sdir = _fresh(wd / "scratch")
    idir = _fresh(wd / "in")
    home = _fresh(wd / "cwd")
    drv = exec_driver(None)
    spec = {"cmds": ["Wa"], "named": [True], "ret": [], "infile": "text", "env": None}
    ji = drv.script.prepare(Item("job17"), spec=spec, mdir=mdir)
    seen = []
    if read_first:
        seen.append(ji.hash)
    for k, f in enumerate(fields):
        muts[f](ji)
        if read_between and k < len(fields) - 1:
            seen.append(ji.hash)
    final = ji.hash
    # an equal input built from scratch
    fresh = JobInput(**{a.name: _copy.deepcopy(getattr(ji, a.name)) for a in attrs.fields(JobInput)})
    res = {"final": final, "fresh": fresh.hash, "seen": seen, "out_hash": None, "exc": None}
    inp = idir / "case.inp"
    ji.dump(inp)
    old_argv, old_stdin, cwd0 = sys.argv, sys.stdin, os.getcwd()
    os.chdir(home)
    sys.argv = ["_molli_run", str(inp), "-o", str(odir), "-s", str(sdir)]
    sys.stdin = _NoClose()
    try:
        with contextlib.redirect_stderr(io.StringIO()):
            _runner.run_local()
    except SystemExit:
        pass
    except Exception as e:
        res["exc"] = type(e).__name__
    finally:
        sys.argv, sys.stdin = old_argv, old_stdin
        os.chdir(cwd0)
    try:
        res["out_hash"] = JobOutput.load(odir / "case.out").input_hash
    except Exception:
        pass
    return res


def hash_check(ctx, seq, res):
    read_first, fields, read_between = seq
    case = {"part": "A6", "seq": [read_first, list(fields), read_between]}
    last = fields[-1]
    ok = True
    if res["final"] != res["fresh"]:
        sym = "stale-after-an-earlier-read" if (read_first or read_between) else "differs-from-an-equal-fresh-input"
        ctx.violation(f"hash:JobInput.hash-{sym}" if sym.startswith("stale") else f"hash:modified-{last}:JobInput.hash-{sym}", f"after modifying {list(fields)} (hash read before: {read_first}, between: {read_between}) JobInput.hash differs from the hash of an equal, freshly built JobInput", case, repro=HASH_REPRO)
        ok = False
    if res["final"] in res["seen"]:
        ctx.violation("hash:two-different-inputs-one-hash", f"the hash read before modifying {last} and the hash read after it are the same", case, repro=HASH_REPRO)
        ok = False
    if res["exc"] is None and res["out_hash"] is not None and res["out_hash"] != res["fresh"]:
        ctx.violation(f"hash:modified-{last}:output-input_hash-is-not-the-hash-of-the-executed-input", "the JobOutput of the modified input records another hash than an equal fresh JobInput has", case)
        ok = False
    return ok


HASH_REPRO = """\
from molli.pipeline.job import JobInput
a = JobInput("j", commands=[("true", None)], envars={"A": "1"})
h = a.hash                      # e.g. a cache lookup or a log line
a.envars = {"A": "2"}           # the caller adjusts the input before running it
b = JobInput("j", commands=[("true", None)], envars={"A": "2"})
print(a.hash == b.hash, a.hash == h)   # expected True False
"""


def run_hash_part(ctx, part):
    wd = Path(ctx.scratch) / "hashwd"
    n = 0
    for seq in hash_sequences():
        res = hash_exec(ctx, seq, wd)
        ok = hash_check(ctx, seq, res)
        n += 1
        ctx.count(evaluations=1, traces=1, states=1, transitions=2 + len(seq[1]))
        if ok:
            ctx.nontrivial(("A6", seq))
            ctx.outcome(("A6", seq[1], len(set(res["seen"] + [res["final"]]))))
            if n == 9:
                ctx.sample({"part": "A6", "seq": [seq[0], list(seq[1]), seq[2]], "hashes_seen": len(res["seen"]) + 1})
    ctx.add_note("A6_hash_sequences", n)
    ctx.bound["A6"] = {"fields": list(hash_mutators()), "sequences": "read-hash? -> modify f [-> read-hash -> modify g] -> read-hash -> dump -> execute; every f, every ordered pair (f, g)"}


# =================================================================================================
# part B : execution
# =================================================================================================
KINDS = ("Q", "P", "Wa", "Wb", "X", "R", "E")
# ways a command can fail: ordinary non-zero exit codes, death by a signal (subprocess reports -N), a
# command the shell cannot find (127), a command that cannot be started at all (no such executable)
FAIL_EXIT = {"X": 3, "X1": 1, "X255": 255}
FAIL_SIGNAL = {"K9": "KILL", "K15": "TERM", "K11": "SEGV"}
FAILS = ("X", "X1", "X255", "K9", "K15", "K11", "N127", "U")
NEW_FAILS = tuple(k for k in FAILS if k != "X")
UNSTARTABLE = "/nonexistent-c17/no-such-program"
WFILE = {"Wa": "a.dat", "Wb": "b.bin"}
RET_CHOICES = [(), ("a.dat",), ("b.bin",), ("a.dat", "b.bin"), None]
TEXT_IN = "first line\nsecond line\n"
BIN_IN = bytes([0, 1, 2, 0xFE, 0xFF, 10, 13, 0x80]) + b"tail"
VAR = "C17_VAR"
# environment alphabet: probed variable -> (class, value in JobInput.envars, value in the runner's own environment)
# for the two modes.  mode "job": one variable, set only by the job; mode "multi": many variables at once -
# overrides of inherited values, EMPTY values (new and over an inherited value), "0", blanks / '=' / quotes, unicode.
ENV_PROBES = {
    "C17_VAR": "plain",
    "C17_NEWEMPTY": "empty-new",
    "C17_BLANKED": "empty-over-inherited",
    "C17_ZERO": "zero",
    "C17_SPACES": "special-characters",
    "C17_EQ": "special-characters",
    "C17_QUOTES": "special-characters",
    "C17_UNI": "unicode",
    "C17_INHERIT_ONLY": "not-set-by-job",
}
ENV_JOB = {
    "job": {"C17_VAR": "fromjob"},
    "multi": {
        "C17_VAR": "fromjob",
        "C17_NEWEMPTY": "",
        "C17_BLANKED": "",
        "C17_ZERO": "0",
        "C17_SPACES": " a b  c ",
        "C17_EQ": "k=v=w",
        "C17_QUOTES": "it's \"q\" `x` $HOME",
        "C17_UNI": "\u017c\u00f3\u0142\u0107-\u65e5\u672c",
    },
}
ENV_PROC = {"job": {}, "multi": {"C17_VAR": "fromproc", "C17_BLANKED": "inherited", "C17_ZERO": "1"}}


def wbytes(kind, i):
    return f"{kind}{i}".encode() + b"\x00\xff\n"


def body(kind, i, mdir, infile):
    """Shell text of command i (every command first leaves its trace in the side directory)."""
    m = shlex.quote(str(mdir))
    pre = f"echo {i} >> {m}/order; pwd > {m}/cwd{i}; "
    if kind == "Q":
        return pre + ":"
    if kind == "P":
        return pre + f"echo out{i}; echo err{i} >&2"
    if kind in WFILE:
        return pre + f"printf '{kind}{i}\\000\\377\\n' > {WFILE[kind]}"
    if kind in FAIL_EXIT:
        return pre + f"echo xo{i}; echo xe{i} >&2; exit {FAIL_EXIT[kind]}"
    if kind in FAIL_SIGNAL:
        return pre + f"echo xo{i}; echo xe{i} >&2; kill -{FAIL_SIGNAL[kind]} $$"
    if kind == "N127":
        return pre + f"echo xo{i}; c17-no-such-command-{i}"
    if kind == "R":
        return pre + f"cp {infile} {m}/read{i}; od -An -v -tx1 {infile} | tr -d ' \\n'"
    if kind == "E":
        probes = "".join(f'printf %s "${{{v}+set}}:${v}" > {m}/env{i}_{v}; ' for v in ENV_PROBES)
        return pre + probes + f'printf %s "${VAR}"'
    raise HarnessError(f"unknown command kind {kind}")


# return-file path shapes (label -> path requested in return_files and written by the command).
# Measured on the unchanged code: all of these are handled; NOT handled and therefore out of scope: input `files` keys
# with a directory component (the runner does not create directories: FileNotFoundError).
PATHS = {
    "top": "top.dat",
    "dir1": "results/final.dat",
    "dir2": "results/deep/wfn.bin",
    "dotslash": "./dot.dat",
    "dots": "a.b.c.dat",
    "space": "my file.dat",
    "unicode": "\u017c\u00f3\u0142\u0107.dat",
    "samebase": "final.dat",  # same basename as results/final.dat, other content
    "directory": "adir",  # the command creates a DIRECTORY of that name: never an existing *file*
}
# input files whose names have blanks / several dots / non-ASCII characters (top level)
PATH_INFILES = {"in put.txt": "text line\n", "a.b.in": b"\x00\x01\xff", "\u017c\u00f3\u0142\u0107.in": b"uni\xfe"}


def path_bytes(lab):
    return f"C-{lab}".encode() + b"\x00\xff"


def make_exec_class():
    class ExecDriver(DriverBase):
        default_executable = "sh"

        @Job().prep
        def script(self, item, spec=None, mdir=None):
            infile = {"text": "in.txt", "bin": "in.bin", None: None}[spec["infile"]]
            cmds = []
            for i, (kind, named) in enumerate(zip(spec["cmds"], spec["named"])):
                if kind == "U":
                    cmds.append((f"{UNSTARTABLE} {i}", f"c{i}" if named else None))
                    continue
                if kind in ("G", "H"):
                    # a program named WITHOUT a directory: to be found on the PATH of the job's environment
                    cmds.append((f"{PROG if kind == 'G' else PROG_ONLY} {shlex.quote(str(mdir))} {i}", f"c{i}" if named else None))
                    continue
                cmds.append((shlex.join([self.executable, "-c", body(kind, i, mdir, infile)]), f"c{i}" if named else None))
            files = None
            if spec["infile"] == "text":
                files = {"in.txt": TEXT_IN}
            elif spec["infile"] == "bin":
                files = {"in.bin": BIN_IN}
            ret = spec["ret"]
            return JobInput(
                item.name,
                commands=cmds,
                files=files,
                return_files=None if ret is None else tuple(ret),
                envars=self.envars,
            )

        @script.post
        def script(self, out, item, **kwargs):
            return out

        @Job().prep
        def paths(self, item, spec=None, mdir=None):
            m = shlex.quote(str(mdir))
            text = f"echo 0 >> {m}/order; pwd > {m}/cwd0; "
            for lab in spec["written"]:
                pth = PATHS[lab]
                if lab == "directory":
                    text += f"mkdir -p {shlex.quote(pth)}; "
                    continue
                dn = os.path.dirname(pth)
                if dn and dn != ".":
                    text += f"mkdir -p {shlex.quote(dn)}; "
                text += f"printf 'C-{lab}\\000\\377' > {shlex.quote(pth)}; "
            for j, fn in enumerate(PATH_INFILES):
                text += f"cp {shlex.quote(fn)} {m}/pin{j}; "
            return JobInput(
                item.name,
                commands=[(shlex.join([self.executable, "-c", text + ":"]), "c0" if spec["named"][0] else None)],
                files=dict(PATH_INFILES),
                return_files=tuple(PATHS[lab] for lab in spec["ret_labels"]),
                envars=self.envars,
            )

    return ExecDriver


_EXEC_DRIVERS: dict = {}
PROG, PROG_ONLY = "c17prog", "c17only"
_PROGS: dict = {}


def prog_dirs(ctx):
    """Two builds of one program name: the job's (first on the PATH the JOB sets in its envars, where a second
    program exists only) and a decoy (first on the PATH of the RUNNER process).  Each build leaves its name."""
    if not _PROGS:
        root = Path(ctx.scratch) / "progs"
        base = os.environ.get("PATH", "")
        for build, names in (("job", (PROG, PROG_ONLY)), ("decoy", (PROG,))):
            d = root / build
            d.mkdir(parents=True, exist_ok=True)
            for nm in names:
                f = d / nm
                f.write_text(f'#!/bin/sh\necho $2 >> "$1/order"; pwd > "$1/cwd$2"; printf %s {build} > "$1/build$2"; echo {build}-build; echo {build}-err >&2\n')
                f.chmod(0o755)
            _PROGS[build] = d
        ENV_JOB["path"] = {"PATH": str(_PROGS["job"]) + os.pathsep + base}
        ENV_PROC["path"] = {"PATH": str(_PROGS["decoy"]) + os.pathsep + base}
    return _PROGS



def exec_driver(env_mode):
    """One driver instance per environment mode, each on its own fresh class."""
    if env_mode not in _EXEC_DRIVERS:
        cls = make_exec_class()
        envars = None if env_mode is None else dict(ENV_JOB[env_mode])
        _EXEC_DRIVERS[env_mode] = cls("sh", nprocs=1, envars=envars)
    return _EXEC_DRIVERS[env_mode]


def proc_env(env_mode):
    return dict(ENV_PROC.get(env_mode, {}))


def reference(spec):
    """Reference interpreter of the command list."""
    if spec.get("kind") == "paths":
        written = {PATHS[lab]: path_bytes(lab) for lab in spec["written"] if lab != "directory"}
        ret = [PATHS[lab] for lab in spec["ret_labels"]]
        files = {f: written[f] for f in ret if f in written}
        missing = [f for f in ret if f not in written]
        return dict(
            ran=[0], stdouts={"c0": ""} if spec["named"][0] else {}, stderrs={"c0": ""} if spec["named"][0] else {}, files=files,
            exit_ok=not missing, failed=None, unstartable=False, reads={}, envs={}, missing=missing,
            pins={j: (v.encode() if isinstance(v, str) else v) for j, v in enumerate(PATH_INFILES.values())},
        )
    ran = []
    stdouts, stderrs = {}, {}
    written = {}
    failed = None
    content_in = None
    if spec["infile"] == "text":
        content_in = TEXT_IN.encode()
    elif spec["infile"] == "bin":
        content_in = BIN_IN
    reads = {}
    envs = {}
    builds = {}
    unstartable = False
    for i, (kind, named) in enumerate(zip(spec["cmds"], spec["named"])):
        if kind == "U":
            # never starts: leaves no trace, its (empty or absent) capture is not constrained
            failed = i
            unstartable = True
            break
        ran.append(i)
        so = se = ""
        if kind == "P":
            so, se = f"out{i}\n", f"err{i}\n"
        elif kind in WFILE:
            written[WFILE[kind]] = wbytes(kind, i)
        elif kind in FAIL_EXIT or kind in FAIL_SIGNAL:
            so, se = f"xo{i}\n", f"xe{i}\n"
        elif kind == "N127":
            so, se = f"xo{i}\n", None  # the shell's own "not found" message is not specified
        elif kind == "R":
            so = content_in.hex()
            reads[i] = content_in
        elif kind in ("G", "H"):
            so, se = "job-build\n", "job-err\n"
            builds[i] = "job"
        elif kind == "E":
            so = "fromjob"
            # "set:<value>" for a variable the job sets (whatever the runner's environment says), ":" for a
            # variable that neither sets; a variable only the runner's environment has is not constrained
            envs[i] = {v: ("set:" + ENV_JOB[spec["env"]][v] if v in ENV_JOB[spec["env"]] else None if v in ENV_PROC[spec["env"]] else ":") for v in ENV_PROBES}
        if named:
            stdouts[f"c{i}"] = so
            stderrs[f"c{i}"] = se
        if kind in FAILS:
            failed = i
            break
    ret = spec["ret"] or ()
    files = {f: written[f] for f in ret if f in written}
    ok = failed is None and all(f in written for f in ret)
    return dict(ran=ran, stdouts=stdouts, stderrs=stderrs, files=files, exit_ok=ok, failed=failed, unstartable=unstartable, reads=reads, envs=envs, builds=builds, missing=[f for f in ret if f not in written])


class _NoClose:
    def close(self):
        pass


def _fresh(d: Path):
    shutil.rmtree(d, ignore_errors=True)
    d.mkdir(parents=True)
    return d


def execute(ctx, spec, via, wd: Path):
    """Build the JobInput through the driver, run it, collect the observation."""
    mdir = _fresh(wd / "markers")
    odir = _fresh(wd / "out")
    sdir = _fresh(wd / "scratch")
    idir = _fresh(wd / "in")
    home = _fresh(wd / "cwd")
    inv = spec.get("inv")
    if inv is not None:
        # how the runner is invoked: a project directory with inputs/ and results/, a scratch area elsewhere,
        # the caller sits in the project or in a third directory and spells each path absolutely / relatively
        proj = _fresh(wd / "project")
        third = _fresh(wd / "third")
        idir = proj / "inputs"
        idir.mkdir()
        home = proj if inv["cwd"] == "project" else third
        if inv["o_target"] == "existing":
            odir = proj / "results"
            odir.mkdir()
        else:
            odir = proj / "new" / "deep" / "results"  # does not exist yet
        if inv["s"] == "rel-new":
            sdir = home / "scr_rel"  # does not exist yet
    if spec["env"] == "path":
        prog_dirs(ctx)
    drv = exec_driver(spec["env"])
    if spec.get("kind") == "paths":
        ji = drv.paths.prepare(Item("job17"), spec=spec, mdir=mdir)
    else:
        ji = drv.script.prepare(Item("job17"), spec=spec, mdir=mdir)
    inp = idir / "case.inp"
    ji.dump(inp)

    def spell(target, form):
        if form == "abs":
            return str(target)
        rel = os.path.relpath(target, home)
        if form == "rel":
            return rel
        return os.path.join("..", home.name, rel)  # through the parent: a relative path with '..' in it

    if inv is None:
        a_inp, a_out, a_scr = str(inp), str(odir), str(sdir)
    else:
        a_inp, a_out = spell(inp, inv["inp"]), spell(odir, inv["o"])
        a_scr = spell(sdir, "rel" if inv["s"] == "rel-new" else inv["s"])
    obs = {"via": via, "hash": ji.hash, "exc": None, "exit": None, "stderr_tail": ""}
    penv = proc_env(spec["env"])
    cwd0 = os.getcwd()
    if via == "inproc":
        old_argv, old_stdin = sys.argv, sys.stdin
        saved = {v: os.environ.get(v) for v in list(ENV_PROBES) + ["PATH"]}
        for v in ENV_PROBES:
            os.environ.pop(v, None)
        os.environ.update(penv)
        os.chdir(home)
        sys.argv = ["_molli_run", a_inp, "-o", a_out, "-s", a_scr]
        sys.stdin = _NoClose()  # the builtin exit() closes sys.stdin before raising SystemExit
        err = io.StringIO()
        try:
            with contextlib.redirect_stderr(err):
                _runner.run_local()
            obs["exit"] = "returned-without-exit"
        except SystemExit as e:
            obs["exit"] = 0 if e.code is None else e.code
        except Exception as e:
            obs["exc"] = type(e).__name__
            obs["exc_msg"] = str(e)[:120]
        finally:
            sys.argv, sys.stdin = old_argv, old_stdin
            try:
                obs["cwd_after"] = os.getcwd()
            except OSError:
                obs["cwd_after"] = None
            os.chdir(cwd0)
            for k, v in saved.items():
                if v is None:
                    os.environ.pop(k, None)
                else:
                    os.environ[k] = v
        obs["cwd_restored"] = obs["cwd_after"] == str(home)
        obs["stderr_tail"] = err.getvalue()[-200:]
    else:
        env = os.environ.copy()
        for v in ENV_PROBES:
            env.pop(v, None)
        env.update(penv)
        repo = os.environ.get("VERIF_REPO", "/repo")
        env["PYTHONPATH"] = repo + (os.pathsep + env["PYTHONPATH"] if env.get("PYTHONPATH") else "")
        try:
            p = subprocess.run(
                [str(_jobmod.MOLLI_RUN), a_inp, "-o", a_out, "-s", a_scr],
                cwd=home,
                env=env,
                stdout=subprocess.PIPE,
                stderr=subprocess.PIPE,
                stdin=subprocess.DEVNULL,
                timeout=SUBPROC_TIMEOUT,
            )
        except subprocess.TimeoutExpired:
            raise HarnessError(f"_molli_run did not finish within {SUBPROC_TIMEOUT} s for {spec}")
        obs["exit"] = p.returncode
        et = p.stderr.decode(errors="replace")
        obs["stderr_tail"] = et[-300:]
        if "Traceback (most recent call last)" in et:
            last = [l for l in et.strip().splitlines() if l and not l.startswith(" ")][-1]
            obs["exc"] = last.split(":")[0].strip().split(".")[-1]
            obs["exc_msg"] = last.split(":", 1)[1].strip()[:120] if ":" in last else ""
    # ---- collect
    of = odir / "case.out"
    obs["out"] = None
    if of.is_file():
        try:
            obs["out"] = JobOutput.load(of)
        except Exception as e:
            obs["out_error"] = type(e).__name__
    obs["other_outputs"] = sorted(p.name for p in odir.iterdir() if p.name != "case.out") if odir.is_dir() else []
    if inv is not None:
        # a JobOutput written anywhere else than where the caller asked for it
        obs["stray_outputs"] = sorted(str(p.relative_to(wd)) for p in wd.rglob("case.out") if p != of)
    try:
        obs["order"] = [int(x) for x in (mdir / "order").read_text().split()]
    except FileNotFoundError:
        obs["order"] = []
    obs["cwds"] = {}
    obs["reads"] = {}
    obs["envs"] = {}
    for p in mdir.iterdir():
        if p.name.startswith("cwd"):
            obs["cwds"][int(p.name[3:])] = os.path.realpath(p.read_text().rstrip("\n"))
        elif p.name.startswith("read"):
            obs["reads"][int(p.name[4:])] = p.read_bytes()
        elif p.name.startswith("build"):
            obs.setdefault("builds", {})[int(p.name[5:])] = p.read_text()
        elif p.name.startswith("pin"):
            obs.setdefault("pins", {})[int(p.name[3:])] = p.read_bytes()
        elif p.name.startswith("env"):
            idx, var = p.name[3:].split("_", 1)
            obs["envs"].setdefault(int(idx), {})[var] = p.read_bytes().decode("utf8", "replace")
    obs["residue"] = sorted(p.name for p in sdir.iterdir()) if sdir.is_dir() else []
    obs["home"] = os.path.realpath(home)
    obs["sdir"] = os.path.realpath(sdir)
    return obs


def spec_class(spec):
    return "ret=None" if spec["ret"] is None else "ret=tuple"


def check_exec(ctx, spec, obs, case):
    """Compare the observation with the reference interpreter.  Returns number of violations."""
    ref = reference(spec)
    nv = 0

    def viol(clause, symptom, what, repro=None):
        nonlocal nv
        nv += 1
        ctx.violation(f"exec:{clause}:{symptom}", what, case, repro=repro)

    fk = None if ref["failed"] is None else spec["cmds"][ref["failed"]]
    fclass = None if fk is None else "exit-code" if fk in FAIL_EXIT else "signal" if fk in FAIL_SIGNAL else "shell-127" if fk == "N127" else "unstartable"
    crashed_on_unstartable = False
    if obs["exc"] is not None and ref["unstartable"] and obs["exc"] in ("FileNotFoundError", "PermissionError", "OSError"):
        # a command that cannot be started: the runner may stop with the OS error (the console script then
        # exits non-zero) instead of writing a JobOutput - see assumptions
        crashed_on_unstartable = True
    elif obs["exc"] is not None:
        icls = ""
        if spec.get("inv") is not None:
            iv = spec["inv"]
            icls = ":invocation[" + ("relative:" + "+".join(k for k in ("inp", "o", "s") if iv[k] != "abs") if any(iv[k] != "abs" for k in ("inp", "o", "s")) else "all-absolute") + "]"
        viol(
            "exception-escapes",
            f"{obs['exc']}:{spec_class(spec)}{icls}",
            f"run_local raised {obs['exc']}: {obs.get('exc_msg','')} ({spec_class(spec)}; via {obs['via']})",
            repro=NONE_REPRO if spec["ret"] is None else None,
        )
        return nv  # everything else is consequential
    # -- what ran, in which order, where it stopped
    if obs["order"] != ref["ran"]:
        if obs["order"][: len(ref["ran"])] == ref["ran"] and len(obs["order"]) > len(ref["ran"]):
            sym = f"command-ran-after-failure[{fclass}]"
        elif ref["ran"][: len(obs["order"])] == obs["order"]:
            sym = "commands-not-all-run"
        else:
            sym = "wrong-order"
        viol("commands", sym, f"commands that ran {obs['order']} != expected {ref['ran']} for {spec['cmds']}")
    # -- private scratch directory
    dirs = set(obs["cwds"].values())
    if len(dirs) > 1:
        viol("scratch-dir", "commands-in-different-directories", f"commands ran in {len(dirs)} different directories")
    for d in dirs:
        if d == obs["home"] or not d.startswith(obs["sdir"] + os.sep):
            viol("scratch-dir", "not-a-private-directory-under-scratch", "a command ran outside a private directory under the scratch dir")
        elif os.path.exists(d):
            viol("scratch-dir", "residue-left", "the private scratch directory still exists after the run")
    if obs["residue"]:
        viol("scratch-dir", "residue-left", f"scratch dir not empty after the run: {obs['residue'][:3]}")
    # -- input files, environment (observed by the commands themselves)
    for i, b in ref["reads"].items():
        if i in obs["order"] and obs["reads"].get(i) != b:
            viol("input-file", f"bytes-differ[{spec['infile']}]", f"materialised {spec['infile']} input file differs from JobInput.files")
    for i, exp in ref["envs"].items():
        if i not in obs["order"]:
            continue
        seen = obs["envs"].get(i, {})
        for var, want in exp.items():
            got = seen.get(var)
            if want is None or got == want:
                continue
            cls = ENV_PROBES[var]
            inherited = ENV_PROC[spec["env"]].get(var)
            if want == ":":
                sym = "variable-set-although-nobody-sets-it"
            elif got == ":":
                sym = "unset-although-the-job-sets-it"
            elif inherited is not None and got == "set:" + inherited:
                sym = "value-of-the-runner-environment-wins"
            else:
                sym = "wrong-value"
            viol("environment", f"{sym}[{cls}]", f"command saw {var} as {got!r} (\"set:<value>\" / \":\" = unset); JobInput.envars says {want!r}, runner environment has {inherited!r} (mode {spec['env']})")
    for i, b in ref.get("builds", {}).items():
        got = obs.get("builds", {}).get(i)
        if i in obs["order"] and got != b:
            how = "named" if spec["named"][i] else "unnamed"
            viol("environment", f"program-resolved-on-the-runners-PATH-not-the-jobs[{how}]", f"command {i} names its program without a directory; the job's envars put its own build first on PATH, but the {got!r} build ran")
    # -- the JobOutput
    blamed = []
    for j, b in ref.get("pins", {}).items():
        if obs.get("pins", {}).get(j) != b:
            viol("input-file", "bytes-differ[special-name]", f"materialised input file {list(PATH_INFILES)[j]!r} differs from JobInput.files")
    out = obs["out"]
    if out is None and crashed_on_unstartable:
        pass
    elif out is None and spec.get("inv") is not None:
        iv = spec["inv"]
        cls = ("relative:" + "+".join(k for k in ("inp", "o", "s") if iv[k] != "abs")) if any(iv[k] != "abs" for k in ("inp", "o", "s")) else "all-absolute"
        viol("output", f"no-JobOutput-where-the-caller-asked-for-it[{cls}]", f"no readable case.out in the requested output directory (invocation {iv}; found elsewhere: {obs.get('stray_outputs')}; {obs.get('exc') or obs.get('out_error')})")
    elif out is None:
        viol("output", "no-readable-JobOutput", f"no readable <stem>.out in the output dir ({obs.get('out_error')}; other files {obs['other_outputs']})")
    else:
        so = out.stdouts or {}
        se = out.stderrs or {}
        for name, text in ref["stdouts"].items():
            if name not in so:
                viol("capture", "stdout-missing", f"stdout of named command {name} not reported")
            elif so[name] != text:
                viol("capture", "stdout-differs", f"stdout of {name}: {so[name]!r} != {text!r}")
        for name, text in ref["stderrs"].items():
            if name not in se:
                viol("capture", "stderr-missing", f"stderr of named command {name} not reported")
            elif text is not None and se[name] != text:
                viol("capture", "stderr-differs", f"stderr of {name}: {se[name]!r} != {text!r}")
        fl = out.files or {}
        pcls = lambda f: next((lab for lab, pth in PATHS.items() if pth == f), None) if spec.get("kind") == "paths" else None
        for f, b in ref["files"].items():
            got = fl.get(f, fl.get(os.path.normpath(f)))  # under the requested name or its normalised spelling
            tag = f"[{pcls(f)}]" if pcls(f) else ""
            if got is None:
                viol("return-files", "existing-file-not-returned" + tag, f"requested file {f} was written but is not in JobOutput.files")
                blamed.append(pcls(f))
            elif bytes(got) != b:
                viol("return-files", "bytes-differ" + tag, f"returned {f}: {bytes(got)!r} != {b!r}")
            elif f not in fl:
                blamed.append(pcls(f))  # returned, but not under the name it was requested by
        for f in ref["missing"]:
            if spec.get("kind") == "paths" and (f in fl or os.path.normpath(f) in fl):
                viol("return-files", f"file-returned-although-not-produced[{pcls(f)}]", f"requested {f} was not produced as a file but JobOutput.files has it")
        if out.input_hash != obs["hash"]:
            viol("hash", "input_hash-differs-from-JobInput.hash", f"JobOutput.input_hash {out.input_hash!r} != JobInput.hash")
    # -- exit status
    ex = obs["exit"]
    if crashed_on_unstartable and ex is None:
        ex = "os-error"  # in-process: the exception that makes the console script exit non-zero
    if ref["exit_ok"]:
        if ex != 0:
            tag = ""
            if spec.get("kind") == "paths":
                b = sorted(x for x in blamed if x)
                tag = f"[{b[0]}]" if b else "[paths]"
            viol("exit-status", "nonzero-although-all-succeeded" + tag, f"exit status {ex!r} although every command succeeded and every requested file exists (requested {spec.get('ret_labels', spec.get('ret'))})", repro=DOTSLASH_REPRO if tag == "[dotslash]" else None)
    else:
        if ex == 0:
            sym = f"zero-although-command-failed[{fclass}]" if ref["failed"] is not None else "zero-although-requested-file-missing"
            viol("exit-status", sym, f"exit status 0 although failed={ref['failed']} missing={ref['missing']}")
        elif ex == "returned-without-exit":
            viol("exit-status", "no-exit-status", "run_local returned without an exit status")
    return nv


DOTSLASH_REPRO = """\
import os, sys, tempfile
from molli.pipeline.job import JobInput, JobOutput
from molli.pipeline import runner
d = tempfile.mkdtemp()
JobInput("j", commands=[("sh -c 'echo data > dot.dat'", None)], return_files=("./dot.dat",)).dump(f"{d}/j.inp")
sys.argv = ["_molli_run", f"{d}/j.inp", "-o", f"{d}/out", "-s", f"{d}/scratch"]
try:
    runner.run_local()
except SystemExit as e:
    print("exit", e.code, JobOutput.load(f"{d}/out/j.out").files)
# exit 1 although the requested file exists: runner.py keys the returned files by str(Path(f)) ('dot.dat') and
# compares that set with the requested spellings ('./dot.dat')
"""

NONE_REPRO = """\
import os, sys, tempfile
import molli as ml
from molli.pipeline.job import JobInput            # return_files defaults to None; XTBDriver.energy_m is @Job() -> None
from molli.pipeline import runner
d = tempfile.mkdtemp()
JobInput("j", commands=[("true", None)]).dump(f"{d}/j.inp")
sys.argv = ["_molli_run", f"{d}/j.inp", "-o", f"{d}/out", "-s", f"{d}/scratch"]
runner.run_local()   # TypeError: 'NoneType' object is not iterable (runner.py:146); expected: exit 0, JobOutput with no files
"""


def naming_masks(n, full):
    if full:
        return [tuple(bool(b >> i & 1) for i in range(n)) for b in range(2**n - 1, -1, -1)]
    ms = [tuple([True] * n), tuple([False] * n), tuple(i % 2 == 0 for i in range(n)), tuple(i % 2 == 1 for i in range(n))]
    out = []
    for m in ms:
        if m not in out:
            out.append(m)
    return out


def specs_for(cmds, masks, rets):
    infiles = ["text", "bin"] if "R" in cmds else [None]
    envs = ["job", "multi"] if "E" in cmds else [None]
    for named in masks:
        for ret in rets:
            for inf in infiles:
                for env in envs:
                    yield {"cmds": list(cmds), "named": list(named), "ret": None if ret is None else list(ret), "infile": inf, "env": env}


def enumerate_specs(ctx, seed):
    """The complete case list of the tier (deterministic order, rotated by the seed)."""
    kinds = list(KINDS)
    r = seed % len(kinds)
    kinds = kinds[r:] + kinds[:r]
    rets = RET_CHOICES[seed % len(RET_CHOICES) :] + RET_CHOICES[: seed % len(RET_CHOICES)]
    specs = []
    full_len = 4 if ctx.thorough else 3
    for n in range(1, full_len + 1):
        masks = naming_masks(n, full=(ctx.thorough and n <= 3) or n <= 2)
        rr = rets
        if not ctx.thorough and n == 3:
            masks = [masks[0]]  # all named (other masks: lengths 1, 2 and 4)
            rr = [x for x in rets if x != ("b.bin",)]  # b.bin alone mirrors a.dat alone
        for cmds in itertools.product(kinds, repeat=n):
            specs.extend(specs_for(cmds, masks, rr))
    if not ctx.thorough:
        # length 4: every success/failure pattern with output, files and failure at every position
        sub = [k for k in kinds if k in ("P", "X", "Wa")]
        masks = naming_masks(4, full=False)[:2]  # all named, none named
        for cmds in itertools.product(sub, repeat=4):
            specs.extend(specs_for(cmds, masks, [(), ("a.dat",), ("a.dat", "b.bin")]))
    # failure modes: every list of length 1..4 over {print, write a.dat, FAIL} with at least one FAIL, for every
    # way of failing (exit 1 / 255, killed by KILL / TERM / SEGV, shell cannot find the command, cannot be started)
    fails = list(NEW_FAILS)
    fails = fails[seed % len(fails) :] + fails[: seed % len(fails)]
    seen = {spec_key(x, "") for x in specs}
    for n in range(1, 5):
        if ctx.thorough:
            masks, rr = naming_masks(n, full=True), rets
        else:
            masks = [tuple([True] * n)] + ([tuple([False] * n)] if n < 4 else [])
            rr = [(), ("a.dat",)]
        for skel in itertools.product(("P", "Wa", "F"), repeat=n):
            if "F" not in skel:
                continue
            for fk in fails:
                cmds = tuple(fk if k == "F" else k for k in skel)
                for sp in specs_for(cmds, masks, rr):
                    k = spec_key(sp, "")
                    if k not in seen:
                        seen.add(k)
                        specs.append(sp)
    if ctx.thorough:
        # and the full product of the whole alphabet (ordinary kinds + all failure modes) up to length 2
        allk = kinds + fails
        for n in (1, 2):
            for cmds in itertools.product(allk, repeat=n):
                for sp in specs_for(cmds, naming_masks(n, full=True), rets):
                    k = spec_key(sp, "")
                    if k not in seen:
                        seen.add(k)
                        specs.append(sp)
    ctx.bound["B_failure_modes"] = {"modes": list(FAILS), "lists": "length 1..4 over {P, Wa, FAIL}, FAIL at every position" + ("; full 15-kind alphabet to length 2" if ctx.thorough else "")}
    ctx.bound["B_full_alphabet_length"] = full_len
    ctx.bound["B_length4"] = "full alphabet" if ctx.thorough else "sub-alphabet {P,X,Wa}, every pattern"
    return specs


def path_specs(ctx, seed):
    """Return-file path shapes: every set of 1..3 (thorough: 1..4) requested paths x every subset of them produced."""
    labs = list(PATHS)
    labs = labs[seed % len(labs) :] + labs[: seed % len(labs)]
    out = []
    for n in range(1, (4 if ctx.thorough else 3) + 1):
        for req in itertools.combinations(labs, n):
            for k in range(len(req), -1, -1):
                for wr in itertools.combinations(req, k):
                    out.append({"kind": "paths", "cmds": ["PATHS"], "named": [True], "ret": [PATHS[x] for x in req], "ret_labels": list(req), "written": list(wr), "infile": None, "env": None})
    ctx.bound["B_return_file_paths"] = {"paths": dict(PATHS), "requested": f"every set of 1..{4 if ctx.thorough else 3}", "produced": "every subset of the requested set", "input_file_names": list(PATH_INFILES)}
    return out


def invocation_specs(ctx, seed):
    """How the runner is invoked: input path / -o / -s spelled absolutely, relatively, relatively through '..';
    output directory existing or nested and not yet existing; scratch directory existing or not; the caller's
    cwd is the project directory or a third one.  Every combination, for a succeeding, a failing and an
    incomplete job."""
    jobs = [
        (["Wa"], [True], ["a.dat"]),
        (["P", "X"], [True, False], []),
        (["P"], [False], ["a.dat"]),
    ]
    forms = ["abs", "rel", "dotdot"]
    forms = forms[seed % 3 :] + forms[: seed % 3]
    out = []
    for c, n, r in jobs:
        for cwd in ("project", "third"):
            for fi in forms:
                for fo in forms:
                    for ot in ("existing", "nested-new"):
                        for fs in forms + ["rel-new"]:
                            out.append({"cmds": c, "named": n, "ret": r, "infile": None, "env": None, "inv": {"inp": fi, "o": fo, "o_target": ot, "s": fs, "cwd": cwd}})
    ctx.bound["B_invocation"] = {"input_path/-o/-s": ["abs", "rel", "dotdot"], "-s also": "relative and not yet existing", "output_dir": ["existing", "nested, not yet existing"], "cwd": ["project", "third directory"], "jobs": "succeeds with a file / command fails / requested file missing"}
    return out


def progpath_specs(ctx, seed):
    """PATH itself among the job's environment overrides: programs named without a directory, one with a same-named
    decoy first on the runner's own PATH, one that exists on the job's PATH only; named and unnamed commands."""
    out = []
    for n in (1, 2):
        for cmds in itertools.product(("G", "H", "P"), repeat=n):
            if not {"G", "H"} & set(cmds):
                continue
            for named in (tuple([True] * n), tuple([False] * n)):
                out.append({"cmds": list(cmds), "named": list(named), "ret": [], "infile": None, "env": "path"})
    ctx.bound["B_PATH_override"] = "job envars set PATH; bare program names: one with a decoy build first on the runner's PATH, one only on the job's PATH; lists of length 1..2 with print commands, all named / none named"
    return out


def conformance_specs(ctx, specs, seed):
    """Cases that are also pushed through the installed `_molli_run` console script."""
    if ctx.thorough:
        # every list of length <= 2 over the ordinary alphabet; for the additional failure modes the lists of
        # length <= 2 over {P, Wa} + failure modes, all named / none named, nothing or a.dat requested
        out = []
        for s in specs:
            if len(s["cmds"]) > 2:
                continue
            if not any(k in NEW_FAILS for k in s["cmds"]):
                out.append(s)
            elif set(s["cmds"]) <= {"P", "Wa"} | set(NEW_FAILS) and (all(s["named"]) or not any(s["named"])) and s["ret"] in ([], ["a.dat"]):
                out.append(s)
        # every first-failure position of length 3 and 4, with files requested and everything named
        for s in specs:
            n = len(s["cmds"])
            if n >= 3 and all(s["named"]) and s["ret"] == ["a.dat", "b.bin"] and set(s["cmds"]) <= {"P", "X", "Wa", "Wb"} and s["cmds"].count("X") <= 1:
                out.append(s)
        return out
    # quick: 24 representative cases: every kind, every failure position, every return-file class,
    # text and binary input, both environment modes, named and unnamed
    want = [
        (["Q"], [False], []),
        (["P"], [True], []),
        (["X"], [True], []),
        (["Wa"], [True], ["a.dat"]),
        (["Wa"], [False], ["a.dat", "b.bin"]),
        (["Q"], [True], None),
        (["Wb", "Wa"], [True, False], ["a.dat", "b.bin"]),
        (["Wa", "X"], [True, True], ["a.dat"]),
        (["X", "Wa"], [True, True], ["a.dat"]),
        (["P", "Wb"], [False, True], ["b.bin"]),
        (["P", "P", "X"], [True, False, True], []),
        (["Wa", "Wa", "P"], [True, True, True], ["a.dat"]),
        (["X", "P", "P", "P"], [True, True, True, True], []),
        (["P", "X", "P", "P"], [True, True, True, True], []),
        (["P", "P", "X", "P"], [True, True, True, True], []),
        (["P", "P", "P", "X"], [True, True, True, True], []),
        (["P", "Wa", "P", "P"], [True, False, True, False], ["a.dat", "b.bin"]),
        (["P", "Wa", "X", "Wa"], [False, False, False, False], ["a.dat"]),
    ]
    out = []
    for c, n, r in want:
        out.append({"cmds": c, "named": n, "ret": r, "infile": None, "env": None})
    for inf in ("text", "bin"):
        out.append({"cmds": ["R"], "named": [True], "ret": [], "infile": inf, "env": None})
        out.append({"cmds": ["R", "Wa"], "named": [False, True], "ret": ["a.dat"], "infile": inf, "env": None})
    for env in ("job", "multi"):
        out.append({"cmds": ["E"], "named": [True], "ret": [], "infile": None, "env": env})
    for c, n, r in [
        (["K9", "P"], [True, True], []),
        (["P", "K15", "Wa"], [True, False, True], ["a.dat"]),
        (["Wa", "K11", "P"], [False, True, True], ["a.dat"]),
        (["N127", "P"], [True, True], []),
        (["U", "P"], [True, True], []),
        (["X255", "Wa"], [False, False], ["a.dat"]),
        (["P", "X1"], [True, True], []),
    ]:
        out.append({"cmds": c, "named": n, "ret": r, "infile": None, "env": None})
    return out


def spec_key(spec, via):
    return (via, tuple(spec["cmds"]), tuple(spec["named"]), None if spec["ret"] is None else tuple(spec["ret"]), spec["infile"], spec["env"], tuple(spec.get("written", ())), tuple(sorted((spec.get("inv") or {}).items())))


def run_part(sub, part):
    if part[0] == "A":
        return run_binding_part(sub, part)
    if part[0] == "A2":
        return run_lifetime_part(sub, part)
    if part[0] == "A3":
        return run_call_part(sub, part)
    if part[0] == "A4":
        return run_path_part(sub, part)
    if part[0] == "A5":
        return run_shipped_part(sub, part)
    if part[0] == "A6":
        return run_hash_part(sub, part)
    return run_cases(sub, part)


def run_cases(sub, part):
    via, specs = part
    wd = Path(sub.scratch) / "wd"
    nsample = 0
    for spec in specs:
        case = {"part": "B", "via": via, "spec": spec}
        obs = execute(sub, spec, via, wd)
        if spec.get("inv") is not None:
            # a failing invocation case is first reduced to the smallest set of relatively spelled paths that still
            # fails (each one is put back to its absolute spelling in turn), so that the signature names the cause
            from mc.core import Ctx as _Ctx

            probe = _Ctx(sub.pid, sub.tier, sub.seed, sub.level, None)
            if check_exec(probe, spec, obs, case):
                cur = spec
                for field in ("inp", "s", "o"):
                    if cur["inv"][field] == "abs":
                        continue
                    trial = dict(cur, inv=dict(cur["inv"], **{field: "abs"}))
                    tprobe = _Ctx(sub.pid, sub.tier, sub.seed, sub.level, None)
                    tobs = execute(sub, trial, via, wd)
                    if check_exec(tprobe, trial, tobs, case):
                        cur = trial
                spec = cur
                case = {"part": "B", "via": via, "spec": spec}
                obs = execute(sub, spec, via, wd)
        nv = check_exec(sub, spec, obs, case)
        key = spec_key(spec, via)
        sub.count(evaluations=1, traces=1, states=1, transitions=1 + len(obs["order"]))
        if any(k in FAILS for k in spec["cmds"]) or spec["ret"] or any(spec["named"]):
            sub.nontrivial(key)
        out = obs["out"]
        digest = (
            obs["exit"],
            tuple(obs["order"]),
            None if out is None else (tuple(sorted((out.stdouts or {}).items())), tuple(sorted((k, bytes(v)) for k, v in (out.files or {}).items()))),
        )
        sub.outcome(hashlib.sha1(repr(digest).encode()).hexdigest()[:12])
        if obs.get("cwd_restored") is False:
            sub.add_note("B_inproc_cwd_not_restored_by_run_local", 1)
        nsample += 1
        if nsample in (3, 200) and nv == 0:
            sub.sample(
                {
                    "part": "B",
                    "via": via,
                    "spec": spec,
                    "exit": obs["exit"],
                    "ran": obs["order"],
                    "stdouts": None if out is None else out.stdouts,
                    "files": None if out is None else {k: bytes(v) for k, v in (out.files or {}).items()},
                }
            )


def chunks(lst, n):
    n = max(1, n)
    size = (len(lst) + n - 1) // n
    return [lst[i : i + size] for i in range(0, len(lst), size)] if lst else []


def execution_parts(ctx, seed):
    specs = enumerate_specs(ctx, seed)
    conf = conformance_specs(ctx, specs, seed)
    pspecs = path_specs(ctx, seed)
    ispecs = invocation_specs(ctx, seed)
    gspecs = progpath_specs(ctx, seed)
    specs = specs + pspecs + ispecs + gspecs
    conf = conf + [x for x in gspecs if x["cmds"] in (["G"], ["H", "G"])]
    # through the console script: the succeeding job, every spelling of -o x both output dirs x both cwds
    conf = conf + [x for x in ispecs if x["cmds"] == ["Wa"] and x["inv"]["inp"] == "rel" and x["inv"]["s"] == "rel-new"]
    # through the console script: each path alone (produced), and one mixed request
    conf = conf + [p for p in pspecs if len(p["ret_labels"]) == 1 and p["written"]] + [p for p in pspecs if set(p["ret_labels"]) == {"top", "dir1", "dir2"} and len(p["written"]) in (0, 3)]
    nproc = 16 if ctx.thorough else 8
    # subprocess cases first: they are the slow ones
    parts = [("script", c) for c in chunks(conf, nproc * 2 if ctx.thorough else len(conf))] + [("inproc", c) for c in chunks(specs, nproc * 4)]
    ctx.note("B_cases_inprocess", len(specs))
    ctx.note("B_cases_through_installed_script", len(conf))
    return parts


# =================================================================================================
def run(ctx):
    seed = ctx.seed
    ctx.rule = (
        "part A: every history of creating/using 2..3 driver instances (distinct executable, nprocs, envars) through the "
        "class-level Job objects of a fresh harness-defined driver class; non-trivial = at least two drivers exist when a "
        "JobInput is built.  part B: every command list up to the stated length over {quiet, print, write a.dat, write b.bin, "
        "fail(3), read input file, echo $VAR} x naming masks x requested files x input-file kind x environment mode, executed by "
        "the real run_local; non-trivial = the case has a failing command, a requested file or a named command.  Expected values "
        "come from a reference interpreter of the command list; what ran is observed through marker files."
    )
    ctx.assumptions += [
        "a named command that did not run (after the first failure) may or may not have an entry in stdouts/stderrs: not checked",
        "files returned in addition to the requested ones, JobOutput.exitcode and the cwd of the calling process after run_local are not constrained by the property text: not checked (cwd is counted in a note)",
        "a command that cannot be started at all (no such executable) counts as a failing command: the run must not exit 0, later commands must not run, no scratch residue; whether the runner still writes a JobOutput or stops with the OS error is not constrained by the property text",
        "the text a shell prints when it cannot find a command (exit 127) is not checked",
        "settings precedence: class-level defaults < driver instance < settings declared on the Job itself (as Job.__get__ documents for envars); sharing of one envars dict object between JobInputs is counted in a note, not a violation - only mutation of shared settings objects is",
"part A2: the expected settings are the driver's CURRENT settings at the time of prepare() when the job is fetched from the driver for that call; a job object fetched BEFORE a reconfiguration and used after it (held handle) may carry, field by field, either the settings as of its fetch or the current ones - the property text does not decide this; a job fetched after the change must reflect it. `memory` is not part of the property text (executable, processor count, environment) and is not checked",
        "environment: a variable the job sets to the empty string must be SET and empty for the command (also when the runner's own environment has a value for it); variables that only the runner's environment has are not constrained; values are str (None values are outside JobInput's declared dict[str, str])",
        "return_files=None (the JobInput default, produced by every `@Job()` without return_files such as XTBDriver.energy_m) means 'no file requested'",
        "text input files are ASCII (the property does not fix an encoding for str file contents)",
        "command names are pairwise distinct and differ from file names",
        "the job-level settings (Job(executable=..., envars=...)) and class-level driver attributes are not part of the enumerated space: the harness driver declares neither, like XTBDriver",
    ]
    parts = execution_parts(ctx, seed)
    nscript = sum(1 for p in parts if p[0] == "script")
    parts = parts[:nscript] + binding_parts(ctx, seed) + lifetime_parts(ctx, seed) + call_parts(ctx, seed) + path_parts(ctx, seed) + shipped_parts(ctx, seed) + [("A6",)] + parts[nscript:]
    ctx.pmap(run_part, parts, nproc=16 if ctx.thorough else 8)


def replay(ctx, case):
    if case.get("part") == "A6":
        seq = (case["seq"][0], tuple(case["seq"][1]), case["seq"][2])
        hash_check(ctx, seq, hash_exec(ctx, seq, Path(ctx.scratch) / "hashwd"))
        return
    if case.get("part") == "A5":
        import inspect

        for cls, names, vec in shipped_jobs():
            if cls.__name__ == case["cls"] and case["attr"] in names:
                prepname = vars(cls)[names[0]]._prep.__name__
                ds = [
                    cls(f"/opt/c17-fake/{cls.__name__}-one", nprocs=3, memory=6000, check_exe=False, find=False),
                    cls(f"/opt/c17-fake/{cls.__name__}-two", nprocs=5, memory=20000, check_exe=False, find=False),
                ]
                params = list(inspect.signature(vars(cls)[names[0]]._prep).parameters)
                over = case["override"]
                oname = "charge=0" if over == {"charge": 0} else "x" if over else "none"
                shipped_check(ctx, case, f"{cls.__name__}.{prepname}", ds[case["driver"]], names[0], vec, params[1], case["q"], case["m"], oname, over)
        return
    if case.get("part") == "A4":
        dirs = path_setup(ctx)
        base_path = os.pathsep.join(p for p in os.environ.get("PATH", "").split(os.pathsep) if p and not os.path.exists(os.path.join(p, TOOL)))
        hist = tuple(tuple(x) for x in case["history"])
        path_check_last(ctx, hist, path_exec(hist, dirs, base_path), dirs)
        return
    if case.get("part") == "A3":
        got, exp, exc = call_exec(ctx, case["entry"], case["conv"])
        call_check(ctx, case["entry"], case["conv"], got, exp, exc)
        return
    if case.get("part") in ("A", "A2"):
        hist = tuple(tuple(x) for x in case["history"])
        flavour = case.get("flavour", "plain")
        if case.get("part") == "A2":
            last, _ = lifetime_exec(hist, flavour)
            lifetime_check_last(ctx, hist, flavour, last)
            return
        obs, state = binding_exec(hist, flavour)
        binding_check_last(ctx, hist, obs, state, flavour)
        return
    spec = case["spec"]
    wd = Path(ctx.scratch) / "wd"
    obs = execute(ctx, spec, case.get("via", "inproc"), wd)
    check_exec(ctx, spec, obs, case)
