"""
C17 - a job runs exactly what was asked and reports exactly what happened.

Two bounded-exhaustive explorations of the real code, each against a reference written here:

  part A (binding)  all histories of creating / using 2..3 driver instances with pairwise distinct
                    (executable, nprocs, envars) through the jobs of ONE harness-defined driver
                    class in the style of XTBDriver (`@Job(...).prep`, `.post`, `Job.vectorize`);
                    oracle: every JobInput carries the settings of the driver instance it was
                    built through and the caller's arguments.
  part B (execution) every command list of length 1..L over the alphabet
                    {quiet, print, write a.dat, write b.bin, fail(3), read input file, echo $VAR}
                    x naming masks x requested return files (every subset, (), None) x text/binary
                    input file x environment override; the JobInput is built through the driver,
                    dumped, and executed by the real `molli.pipeline.runner.run_local`
                    (in-process through the argv seam, and through the installed `_molli_run`
                    console script in a subprocess); oracle: a reference interpreter of the
                    command list (what ran, in which order, where it stopped - observed through
                    marker files in a side directory).

Nothing is sampled; ctx.seed only rotates the order of the alphabets.
"""
from __future__ import annotations

import contextlib
import hashlib
import io
import itertools
import os
import shlex
import shutil
import subprocess
import sys
from pathlib import Path

from mc.core import HarnessError

from molli.pipeline.driver import DriverBase
from molli.pipeline.job import Job, JobInput, JobOutput
import molli.pipeline.job as _jobmod
import molli.pipeline.runner as _runner

LEVEL = "model_checking"

SUBPROC_TIMEOUT = 120


# =================================================================================================
# part A : descriptor binding
# =================================================================================================
class Item:
    """Stand-in for a molecule: the generic Job machinery only passes it through to prep/post."""

    def __init__(self, name):
        self.name = name


def make_binding_class():
    """A fresh driver class (fresh class-level Job objects) in the style of XTBDriver."""

    class ShDriver(DriverBase):
        default_executable = "sh"

        @Job(return_files=("res.txt",)).prep
        def single(self, M, tag="t", level=0):
            return JobInput(
                M.name,
                commands=[(f"{self.executable} -c 'echo {tag} {level} > res.txt' -P {self.nprocs}", "main")],
                files={"input.txt": M.name.encode()},
                return_files=self.return_files,
                envars=self.envars,
            )

        @single.post
        def single(self, out, M, **kwargs):
            return out.files["res.txt"]

        many = Job.vectorize(single)

        @many.reduce
        def many(self, outputs, items, *args, **kwargs):
            return list(outputs)

        @Job(return_files=()).prep
        def other(self, M, tag="t", level=0):
            return JobInput(
                M.name,
                commands=[(f"{self.executable} -c 'echo other {tag} {level}' -P {self.nprocs}", "main")],
                return_files=self.return_files,
                envars=self.envars,
            )

        @other.post
        def other(self, out, M, **kwargs):
            return out.stdouts["main"]

    return ShDriver


SETTINGS = [
    # (executable, nprocs, envars) - pairwise distinct in every field
    ("sh", 1, None),
    ("bash", 7, {"C17_A": "seven"}),
    ("dash", 3, {"C17_A": "three", "C17_B": "b"}),
]
JOBS = ("single", "many", "other")
JOB_RETURN = {"single": ("res.txt",), "many": ("res.txt",), "other": ()}


def binding_histories(n, max_uses, jobs, order):
    """Every history over ops ("new", s) / ("use", s, job) / ("held", s, job): the drivers are created
    in the order `order` (a permutation of n settings indices), a driver is used only after it exists,
    at most max_uses uses, uses and creations interleave freely.  "use" fetches the job from the driver
    and prepares at once; "held" prepares through the job object that the FIRST use of (s, job) in this
    history fetched (a caller that keeps `xtb.optimize_m` in a variable).  Level by level (BFS)."""
    frontier = [()]
    while frontier:
        nxt = []
        for h in frontier:
            created = [op[1] for op in h if op[0] == "new"]
            nuses = sum(1 for op in h if op[0] != "new")
            ext = []
            if len(created) < n:
                ext.append(("new", order[len(created)]))
            if nuses < max_uses:
                for s in created:
                    for j in jobs:
                        ext.append(("use", s, j))
                        if ("use", s, j) in h:
                            ext.append(("held", s, j))
            for op in ext:
                nxt.append(h + (op,))
        yield from nxt
        frontier = nxt


def binding_exec(hist):
    """Run one history on a fresh class; return the list of observations, one per op."""
    cls = make_binding_class()
    drivers = {}
    handles = {}
    obs = []
    for step, op in enumerate(hist):
        if op[0] == "new":
            exe, nprocs, envars = SETTINGS[op[1]]
            d = cls(exe, nprocs=nprocs, envars=None if envars is None else dict(envars))
            drivers[op[1]] = d
            obs.append(("new", d.executable))
        else:
            how, s, jname = op
            d = drivers[s]
            tag, level = f"tag{step}", step
            try:
                if how == "held":
                    job = handles[(s, jname)]
                else:
                    job = getattr(d, jname)
                    handles.setdefault((s, jname), job)
                if jname == "many":
                    prepared = list(job.prepare([Item(f"i{step}a"), Item(f"i{step}b")], tag=tag, level=level))
                    names = [f"i{step}a", f"i{step}b"]
                else:
                    prepared = [job.prepare(Item(f"i{step}"), tag, level=level)]
                    names = [f"i{step}"]
            except Exception as e:  # an observation, not a crash
                obs.append(("exc", type(e).__name__, str(e)[:80]))
                continue
            rec = []
            for ji, nm in zip(prepared, names):
                if not isinstance(ji, JobInput):
                    rec.append(("notjobinput", type(ji).__name__))
                    continue
                try:
                    argv = shlex.split(ji.commands[0][0])
                except Exception:
                    argv = [ji.commands[0][0]]
                rec.append(
                    (
                        "ji",
                        ji.jid,
                        argv[0] if argv else None,
                        argv[-1] if argv else None,  # -P <nprocs>
                        argv[2] if len(argv) > 2 else None,  # the script with the caller's args
                        tuple(sorted((ji.envars or {}).items())),
                        tuple(ji.return_files) if ji.return_files is not None else None,
                        nm,
                    )
                )
            obs.append(("use", tuple(rec)))
    return obs, drivers


def binding_check_last(ctx, hist, obs, drivers, report=True):
    """Oracle for the LAST op of the history (prefixes were validated as shorter histories).
    Returns True when the step is fine."""
    op = hist[-1]
    o = obs[-1]
    if op[0] == "new":
        exe = SETTINGS[op[1]][0]
        ok = o[1] in (exe, shutil.which(exe))
        if not ok and report:
            ctx.violation("binding:new:driver-executable-not-set", f"driver created with executable {exe!r} shows {o[1]!r}", {"part": "A", "history": [list(x) for x in hist]})
        return ok
    _, s, jname = op
    step = len(hist) - 1
    d = drivers[s]
    exe, nprocs, envars = SETTINGS[s]
    exp_exe = (exe, shutil.which(exe))
    exp_env = tuple(sorted((envars or {}).items()))
    # settings of the drivers that went through this Job object earlier (for symptom classification)
    earlier = [SETTINGS[x[1]] for x in hist[:-1] if x[0] != "new" and x[2] == jname and x[1] != s]
    ok = True

    def viol(field, symptom, what):
        nonlocal ok
        ok = False
        if report:
            ctx.violation(
                f"binding:{field}:{symptom}",
                what,
                {"part": "A", "history": [list(x) for x in hist]},
                repro=BINDING_REPRO if symptom == "settings-of-other-driver" else None,
            )

    if o[0] == "exc":
        viol("prepare", f"raised-{o[1]}", f"{jname}.prepare raised {o[1]}: {o[2]}")
        return ok
    for rec in o[1]:
        if rec[0] != "ji":
            viol("prepare", "not-a-JobInput", f"{jname}.prepare produced {rec[1]}")
            continue
        _, jid, got_exe, got_np, script, got_env, got_ret, nm = rec
        if got_exe not in exp_exe:
            stale = any(got_exe in (e[0], shutil.which(e[0])) for e in earlier)
            viol("executable", "settings-of-other-driver" if stale else "wrong-value", f"JobInput built through a driver with executable {exe!r} runs {got_exe!r}")
        if got_np != str(nprocs):
            stale = any(got_np == str(e[1]) for e in earlier)
            viol("nprocs", "settings-of-other-driver" if stale else "wrong-value", f"JobInput built through a driver with nprocs={nprocs} carries -P {got_np}")
        if got_env != exp_env:
            stale = any(got_env == tuple(sorted((e[2] or {}).items())) or set((e[2] or {}).items()) & (set(got_env) - set(exp_env)) for e in earlier)
            viol("envars", "settings-of-other-driver" if stale else "wrong-value", f"JobInput built through a driver with envars={envars!r} carries {dict(got_env)!r}")
        kw = "other " if jname == "other" else ""
        want = f"echo {kw}tag{step} {step}" + (" > res.txt" if jname != "other" else "")
        if script != want:
            viol("arguments", "caller-arguments-not-reflected", f"command script {script!r} != {want!r}")
        if jid != nm:
            viol("arguments", "jid-not-from-input", f"jid {jid!r} != item name {nm!r}")
        if got_ret != JOB_RETURN[jname]:
            viol("return_files", "wrong-value", f"return_files {got_ret!r} != declared {JOB_RETURN[jname]!r}")
    return ok


BINDING_REPRO = """\
import molli as ml
from molli.pipeline.driver import DriverBase
from molli.pipeline.job import Job, JobInput
class D(DriverBase):
    default_executable = "sh"
    @Job(return_files=()).prep
    def task(self, name):
        return JobInput(name, commands=[(f"{self.executable} -P {self.nprocs}", None)], return_files=self.return_files, envars=self.envars)
d1 = D("sh", nprocs=1, envars={"A": "one"}); d2 = D("bash", nprocs=7, envars={"A": "seven"})
print(d1.task.prepare("x"))   # sh -P 1, {'A': 'one'}
print(d2.task.prepare("y"))   # expected bash -P 7, {'A': 'seven'}; observed: sh -P 1, {'A': 'one'}
"""


def binding_parts(ctx, seed):
    """Partition of part A: one part per creation order.  Orders of 3 drivers run to U3 uses, orders of
    2 drivers to U2 > U3 uses; a history that two parts generate (a common prefix) is counted and
    reported by exactly one of them."""
    u3, u2 = (4, 5) if ctx.thorough else (3, 4)
    jobs = list(JOBS)
    r = seed % len(jobs)
    jobs = jobs[r:] + jobs[:r]
    parts = []
    for n, uses in ((2, u2), (3, u3)):
        orders = list(itertools.permutations(range(len(SETTINGS)), n))
        ro = seed % len(orders)
        # the deep 2-driver histories of the quick tier use one plain and the vectorised job
        jj = jobs if (ctx.thorough or n == 3) else [j for j in jobs if j in ("single", "many")]
        for order in orders[ro:] + orders[:ro]:
            parts.append(("A", n, order, uses, u3, jj))
    ctx.bound["A_drivers"] = "2..3"
    ctx.bound["A_max_uses"] = {"2 drivers": u2, "3 drivers": u3}
    ctx.bound["A_jobs"] = {"3 drivers": list(JOBS), "2 drivers": list(JOBS) if ctx.thorough else ["single", "many"]}
    return parts


def _owned(hist, n, order, u3):
    created = [op[1] for op in hist if op[0] == "new"]
    nuses = len(hist) - len(created)
    others = sorted(set(range(len(SETTINGS))) - {order[0]})
    if n == 3:
        return len(created) >= 2 or order[1] == others[0]
    if nuses <= u3:
        return False  # a prefix of a 3-driver history
    return len(created) >= 2 or order[1] == others[0]


def run_binding_part(ctx, part):
    _, n, order, uses, u3, jobs = part
    bad_prefix: set = set()
    total = nhist = 0
    for hist in binding_histories(n, uses, jobs, order):
        # do not continue a history after a violating step
        if any(hist[:k] in bad_prefix for k in range(1, len(hist))):
            continue
        own = _owned(hist, n, order, u3)
        obs, drivers = binding_exec(hist)
        ok = binding_check_last(ctx, hist, obs, drivers, report=own)
        if not ok:
            bad_prefix.add(hist)
        if not own:
            continue
        nhist += 1
        ctx.count(evaluations=1, traces=1, transitions=len(hist), states=1)
        if not ok:
            continue
        nnew = sum(1 for x in hist if x[0] == "new")
        if nnew >= 2 and hist[-1][0] != "new":
            ctx.nontrivial(("A", hist))
        ctx.outcome(("A", hashlib.sha1(repr(obs).encode()).hexdigest()[:12]))
        total += 1
        if total == 60 and order[0] == 0 and order[1] == 1:
            ctx.sample({"part": "A", "history": [list(x) for x in hist], "observed_last": repr(obs[-1])[:300]})
    ctx.add_note("A_histories_executed", nhist)
    ctx.add_note("A_histories_without_violation", total)


# =================================================================================================
# part B : execution
# =================================================================================================
KINDS = ("Q", "P", "Wa", "Wb", "X", "R", "E")
WFILE = {"Wa": "a.dat", "Wb": "b.bin"}
RET_CHOICES = [(), ("a.dat",), ("b.bin",), ("a.dat", "b.bin"), None]
TEXT_IN = "first line\nsecond line\n"
BIN_IN = bytes([0, 1, 2, 0xFE, 0xFF, 10, 13, 0x80]) + b"tail"
VAR = "C17_VAR"


def wbytes(kind, i):
    return f"{kind}{i}".encode() + b"\x00\xff\n"


def body(kind, i, mdir, infile):
    """Shell text of command i (every command first leaves its trace in the side directory)."""
    m = shlex.quote(str(mdir))
    pre = f"echo {i} >> {m}/order; pwd > {m}/cwd{i}; "
    if kind == "Q":
        return pre + ":"
    if kind == "P":
        return pre + f"echo out{i}; echo err{i} >&2"
    if kind in WFILE:
        return pre + f"printf '{kind}{i}\\000\\377\\n' > {WFILE[kind]}"
    if kind == "X":
        return pre + f"echo xo{i}; echo xe{i} >&2; exit 3"
    if kind == "R":
        return pre + f"cp {infile} {m}/read{i}; od -An -v -tx1 {infile} | tr -d ' \\n'"
    if kind == "E":
        return pre + f'printf %s "${VAR}" > {m}/env{i}; printf %s "${VAR}"'
    raise HarnessError(f"unknown command kind {kind}")


def make_exec_class():
    class ExecDriver(DriverBase):
        default_executable = "sh"

        @Job().prep
        def script(self, item, spec=None, mdir=None):
            infile = {"text": "in.txt", "bin": "in.bin", None: None}[spec["infile"]]
            cmds = []
            for i, (kind, named) in enumerate(zip(spec["cmds"], spec["named"])):
                cmds.append((shlex.join([self.executable, "-c", body(kind, i, mdir, infile)]), f"c{i}" if named else None))
            files = None
            if spec["infile"] == "text":
                files = {"in.txt": TEXT_IN}
            elif spec["infile"] == "bin":
                files = {"in.bin": BIN_IN}
            ret = spec["ret"]
            return JobInput(
                item.name,
                commands=cmds,
                files=files,
                return_files=None if ret is None else tuple(ret),
                envars=self.envars,
            )

        @script.post
        def script(self, out, item, **kwargs):
            return out

    return ExecDriver


_EXEC_DRIVERS: dict = {}


def exec_driver(env_mode):
    """One driver instance per environment mode, each on its own fresh class."""
    if env_mode not in _EXEC_DRIVERS:
        cls = make_exec_class()
        envars = None if env_mode is None else {VAR: "fromjob"}
        _EXEC_DRIVERS[env_mode] = cls("sh", nprocs=1, envars=envars)
    return _EXEC_DRIVERS[env_mode]


def proc_env(env_mode):
    return {VAR: "fromproc"} if env_mode == "override" else {}


def reference(spec):
    """Reference interpreter of the command list."""
    ran = []
    stdouts, stderrs = {}, {}
    written = {}
    failed = None
    content_in = None
    if spec["infile"] == "text":
        content_in = TEXT_IN.encode()
    elif spec["infile"] == "bin":
        content_in = BIN_IN
    reads = {}
    envs = {}
    for i, (kind, named) in enumerate(zip(spec["cmds"], spec["named"])):
        ran.append(i)
        so = se = ""
        if kind == "P":
            so, se = f"out{i}\n", f"err{i}\n"
        elif kind in WFILE:
            written[WFILE[kind]] = wbytes(kind, i)
        elif kind == "X":
            so, se = f"xo{i}\n", f"xe{i}\n"
        elif kind == "R":
            so = content_in.hex()
            reads[i] = content_in
        elif kind == "E":
            so = "fromjob"
            envs[i] = "fromjob"
        if named:
            stdouts[f"c{i}"] = so
            stderrs[f"c{i}"] = se
        if kind == "X":
            failed = i
            break
    ret = spec["ret"] or ()
    files = {f: written[f] for f in ret if f in written}
    ok = failed is None and all(f in written for f in ret)
    return dict(ran=ran, stdouts=stdouts, stderrs=stderrs, files=files, exit_ok=ok, failed=failed, reads=reads, envs=envs, missing=[f for f in ret if f not in written])


class _NoClose:
    def close(self):
        pass


def _fresh(d: Path):
    shutil.rmtree(d, ignore_errors=True)
    d.mkdir(parents=True)
    return d


def execute(ctx, spec, via, wd: Path):
    """Build the JobInput through the driver, run it, collect the observation."""
    mdir = _fresh(wd / "markers")
    odir = _fresh(wd / "out")
    sdir = _fresh(wd / "scratch")
    idir = _fresh(wd / "in")
    home = _fresh(wd / "cwd")
    drv = exec_driver(spec["env"])
    ji = drv.script.prepare(Item("job17"), spec=spec, mdir=mdir)
    inp = idir / "case.inp"
    ji.dump(inp)
    obs = {"via": via, "hash": ji.hash, "exc": None, "exit": None, "stderr_tail": ""}
    penv = proc_env(spec["env"])
    cwd0 = os.getcwd()
    if via == "inproc":
        old_argv, old_stdin = sys.argv, sys.stdin
        saved = {VAR: os.environ.get(VAR)}
        os.environ.pop(VAR, None)
        os.environ.update(penv)
        os.chdir(home)
        sys.argv = ["_molli_run", str(inp), "-o", str(odir), "-s", str(sdir)]
        sys.stdin = _NoClose()  # the builtin exit() closes sys.stdin before raising SystemExit
        err = io.StringIO()
        try:
            with contextlib.redirect_stderr(err):
                _runner.run_local()
            obs["exit"] = "returned-without-exit"
        except SystemExit as e:
            obs["exit"] = 0 if e.code is None else e.code
        except Exception as e:
            obs["exc"] = type(e).__name__
            obs["exc_msg"] = str(e)[:120]
        finally:
            sys.argv, sys.stdin = old_argv, old_stdin
            try:
                obs["cwd_after"] = os.getcwd()
            except OSError:
                obs["cwd_after"] = None
            os.chdir(cwd0)
            for k, v in saved.items():
                if v is None:
                    os.environ.pop(k, None)
                else:
                    os.environ[k] = v
        obs["cwd_restored"] = obs["cwd_after"] == str(home)
        obs["stderr_tail"] = err.getvalue()[-200:]
    else:
        env = os.environ.copy()
        env.pop(VAR, None)
        env.update(penv)
        repo = os.environ.get("VERIF_REPO", "/repo")
        env["PYTHONPATH"] = repo + (os.pathsep + env["PYTHONPATH"] if env.get("PYTHONPATH") else "")
        try:
            p = subprocess.run(
                [str(_jobmod.MOLLI_RUN), str(inp), "-o", str(odir), "-s", str(sdir)],
                cwd=home,
                env=env,
                stdout=subprocess.PIPE,
                stderr=subprocess.PIPE,
                stdin=subprocess.DEVNULL,
                timeout=SUBPROC_TIMEOUT,
            )
        except subprocess.TimeoutExpired:
            raise HarnessError(f"_molli_run did not finish within {SUBPROC_TIMEOUT} s for {spec}")
        obs["exit"] = p.returncode
        et = p.stderr.decode(errors="replace")
        obs["stderr_tail"] = et[-300:]
        if "Traceback (most recent call last)" in et:
            last = [l for l in et.strip().splitlines() if l and not l.startswith(" ")][-1]
            obs["exc"] = last.split(":")[0].strip().split(".")[-1]
            obs["exc_msg"] = last.split(":", 1)[1].strip()[:120] if ":" in last else ""
    # ---- collect
    of = odir / "case.out"
    obs["out"] = None
    if of.is_file():
        try:
            obs["out"] = JobOutput.load(of)
        except Exception as e:
            obs["out_error"] = type(e).__name__
    obs["other_outputs"] = sorted(p.name for p in odir.iterdir() if p.name != "case.out")
    try:
        obs["order"] = [int(x) for x in (mdir / "order").read_text().split()]
    except FileNotFoundError:
        obs["order"] = []
    obs["cwds"] = {}
    obs["reads"] = {}
    obs["envs"] = {}
    for p in mdir.iterdir():
        if p.name.startswith("cwd"):
            obs["cwds"][int(p.name[3:])] = os.path.realpath(p.read_text().rstrip("\n"))
        elif p.name.startswith("read"):
            obs["reads"][int(p.name[4:])] = p.read_bytes()
        elif p.name.startswith("env"):
            obs["envs"][int(p.name[3:])] = p.read_text()
    obs["residue"] = sorted(p.name for p in sdir.iterdir())
    obs["home"] = os.path.realpath(home)
    obs["sdir"] = os.path.realpath(sdir)
    return obs


def spec_class(spec):
    return "ret=None" if spec["ret"] is None else "ret=tuple"


def check_exec(ctx, spec, obs, case):
    """Compare the observation with the reference interpreter.  Returns number of violations."""
    ref = reference(spec)
    nv = 0

    def viol(clause, symptom, what, repro=None):
        nonlocal nv
        nv += 1
        ctx.violation(f"exec:{clause}:{symptom}", what, case, repro=repro)

    if obs["exc"] is not None:
        viol(
            "exception-escapes",
            f"{obs['exc']}:{spec_class(spec)}",
            f"run_local raised {obs['exc']}: {obs.get('exc_msg','')} ({spec_class(spec)}; via {obs['via']})",
            repro=NONE_REPRO if spec["ret"] is None else None,
        )
        return nv  # everything else is consequential
    # -- what ran, in which order, where it stopped
    if obs["order"] != ref["ran"]:
        if obs["order"][: len(ref["ran"])] == ref["ran"] and len(obs["order"]) > len(ref["ran"]):
            sym = "command-ran-after-failure"
        elif ref["ran"][: len(obs["order"])] == obs["order"]:
            sym = "commands-not-all-run"
        else:
            sym = "wrong-order"
        viol("commands", sym, f"commands that ran {obs['order']} != expected {ref['ran']} for {spec['cmds']}")
    # -- private scratch directory
    dirs = set(obs["cwds"].values())
    if len(dirs) > 1:
        viol("scratch-dir", "commands-in-different-directories", f"commands ran in {len(dirs)} different directories")
    for d in dirs:
        if d == obs["home"] or not d.startswith(obs["sdir"] + os.sep):
            viol("scratch-dir", "not-a-private-directory-under-scratch", "a command ran outside a private directory under the scratch dir")
        elif os.path.exists(d):
            viol("scratch-dir", "residue-left", "the private scratch directory still exists after the run")
    if obs["residue"]:
        viol("scratch-dir", "residue-left", f"scratch dir not empty after the run: {obs['residue'][:3]}")
    # -- input files, environment (observed by the commands themselves)
    for i, b in ref["reads"].items():
        if i in obs["order"] and obs["reads"].get(i) != b:
            viol("input-file", f"bytes-differ[{spec['infile']}]", f"materialised {spec['infile']} input file differs from JobInput.files")
    for i, v in ref["envs"].items():
        if i in obs["order"] and obs["envs"].get(i) != v:
            viol("environment", f"job-envar-not-effective[{spec['env']}]", f"command saw ${VAR}={obs['envs'].get(i)!r}, JobInput.envars says {v!r} (mode {spec['env']})")
    # -- the JobOutput
    out = obs["out"]
    if out is None:
        viol("output", "no-readable-JobOutput", f"no readable <stem>.out in the output dir ({obs.get('out_error')}; other files {obs['other_outputs']})")
    else:
        so = out.stdouts or {}
        se = out.stderrs or {}
        for name, text in ref["stdouts"].items():
            if name not in so:
                viol("capture", "stdout-missing", f"stdout of named command {name} not reported")
            elif so[name] != text:
                viol("capture", "stdout-differs", f"stdout of {name}: {so[name]!r} != {text!r}")
        for name, text in ref["stderrs"].items():
            if name not in se:
                viol("capture", "stderr-missing", f"stderr of named command {name} not reported")
            elif se[name] != text:
                viol("capture", "stderr-differs", f"stderr of {name}: {se[name]!r} != {text!r}")
        fl = out.files or {}
        for f, b in ref["files"].items():
            if f not in fl:
                viol("return-files", "existing-file-not-returned", f"requested file {f} was written but is not in JobOutput.files")
            elif bytes(fl[f]) != b:
                viol("return-files", "bytes-differ", f"returned {f}: {bytes(fl[f])!r} != {b!r}")
        if out.input_hash != obs["hash"]:
            viol("hash", "input_hash-differs-from-JobInput.hash", f"JobOutput.input_hash {out.input_hash!r} != JobInput.hash")
    # -- exit status
    ex = obs["exit"]
    if ref["exit_ok"]:
        if ex != 0:
            viol("exit-status", "nonzero-although-all-succeeded", f"exit status {ex!r} although every command succeeded and every requested file exists")
    else:
        if ex == 0:
            sym = "zero-although-command-failed" if ref["failed"] is not None else "zero-although-requested-file-missing"
            viol("exit-status", sym, f"exit status 0 although failed={ref['failed']} missing={ref['missing']}")
        elif ex == "returned-without-exit":
            viol("exit-status", "no-exit-status", "run_local returned without an exit status")
    return nv


NONE_REPRO = """\
import os, sys, tempfile
import molli as ml
from molli.pipeline.job import JobInput            # return_files defaults to None; XTBDriver.energy_m is @Job() -> None
from molli.pipeline import runner
d = tempfile.mkdtemp()
JobInput("j", commands=[("true", None)]).dump(f"{d}/j.inp")
sys.argv = ["_molli_run", f"{d}/j.inp", "-o", f"{d}/out", "-s", f"{d}/scratch"]
runner.run_local()   # TypeError: 'NoneType' object is not iterable (runner.py:146); expected: exit 0, JobOutput with no files
"""


def naming_masks(n, full):
    if full:
        return [tuple(bool(b >> i & 1) for i in range(n)) for b in range(2**n - 1, -1, -1)]
    ms = [tuple([True] * n), tuple([False] * n), tuple(i % 2 == 0 for i in range(n)), tuple(i % 2 == 1 for i in range(n))]
    out = []
    for m in ms:
        if m not in out:
            out.append(m)
    return out


def specs_for(cmds, masks, rets):
    infiles = ["text", "bin"] if "R" in cmds else [None]
    envs = ["job", "override"] if "E" in cmds else [None]
    for named in masks:
        for ret in rets:
            for inf in infiles:
                for env in envs:
                    yield {"cmds": list(cmds), "named": list(named), "ret": None if ret is None else list(ret), "infile": inf, "env": env}


def enumerate_specs(ctx, seed):
    """The complete case list of the tier (deterministic order, rotated by the seed)."""
    kinds = list(KINDS)
    r = seed % len(kinds)
    kinds = kinds[r:] + kinds[:r]
    rets = RET_CHOICES[seed % len(RET_CHOICES) :] + RET_CHOICES[: seed % len(RET_CHOICES)]
    specs = []
    full_len = 4 if ctx.thorough else 3
    for n in range(1, full_len + 1):
        masks = naming_masks(n, full=(ctx.thorough and n <= 3) or n <= 2)
        rr = rets
        if not ctx.thorough and n == 3:
            masks = [masks[0], masks[2]]  # all named, alternating (none named: lengths 1, 2 and 4)
            rr = [x for x in rets if x != ("b.bin",)]  # b.bin alone mirrors a.dat alone
        for cmds in itertools.product(kinds, repeat=n):
            specs.extend(specs_for(cmds, masks, rr))
    if not ctx.thorough:
        # length 4: every success/failure pattern with output, files and failure at every position
        sub = [k for k in kinds if k in ("P", "X", "Wa")]
        masks = naming_masks(4, full=False)
        for cmds in itertools.product(sub, repeat=4):
            specs.extend(specs_for(cmds, masks, [(), ("a.dat",), ("a.dat", "b.bin")]))
    ctx.bound["B_full_alphabet_length"] = full_len
    ctx.bound["B_length4"] = "full alphabet" if ctx.thorough else "sub-alphabet {P,X,Wa}, every pattern"
    return specs


def conformance_specs(ctx, specs, seed):
    """Cases that are also pushed through the installed `_molli_run` console script."""
    if ctx.thorough:
        out = [s for s in specs if len(s["cmds"]) <= 2]
        # every first-failure position of length 3 and 4, with files requested and everything named
        for s in specs:
            n = len(s["cmds"])
            if n >= 3 and all(s["named"]) and s["ret"] == ["a.dat", "b.bin"] and set(s["cmds"]) <= {"P", "X", "Wa", "Wb"} and s["cmds"].count("X") <= 1:
                out.append(s)
        return out
    # quick: 24 representative cases: every kind, every failure position, every return-file class,
    # text and binary input, both environment modes, named and unnamed
    want = [
        (["Q"], [False], []),
        (["P"], [True], []),
        (["X"], [True], []),
        (["Wa"], [True], ["a.dat"]),
        (["Wa"], [False], ["a.dat", "b.bin"]),
        (["Q"], [True], None),
        (["Wb", "Wa"], [True, False], ["a.dat", "b.bin"]),
        (["Wa", "X"], [True, True], ["a.dat"]),
        (["X", "Wa"], [True, True], ["a.dat"]),
        (["P", "Wb"], [False, True], ["b.bin"]),
        (["P", "P", "X"], [True, False, True], []),
        (["Wa", "Wa", "P"], [True, True, True], ["a.dat"]),
        (["X", "P", "P", "P"], [True, True, True, True], []),
        (["P", "X", "P", "P"], [True, True, True, True], []),
        (["P", "P", "X", "P"], [True, True, True, True], []),
        (["P", "P", "P", "X"], [True, True, True, True], []),
        (["P", "Wa", "P", "P"], [True, False, True, False], ["a.dat", "b.bin"]),
        (["P", "Wa", "X", "Wa"], [False, False, False, False], ["a.dat"]),
    ]
    out = []
    for c, n, r in want:
        out.append({"cmds": c, "named": n, "ret": r, "infile": None, "env": None})
    for inf in ("text", "bin"):
        out.append({"cmds": ["R"], "named": [True], "ret": [], "infile": inf, "env": None})
        out.append({"cmds": ["R", "Wa"], "named": [False, True], "ret": ["a.dat"], "infile": inf, "env": None})
    for env in ("job", "override"):
        out.append({"cmds": ["E"], "named": [True], "ret": [], "infile": None, "env": env})
    return out


def spec_key(spec, via):
    return (via, tuple(spec["cmds"]), tuple(spec["named"]), None if spec["ret"] is None else tuple(spec["ret"]), spec["infile"], spec["env"])


def run_part(sub, part):
    if part[0] == "A":
        return run_binding_part(sub, part)
    return run_cases(sub, part)


def run_cases(sub, part):
    via, specs = part
    wd = Path(sub.scratch) / "wd"
    nsample = 0
    for spec in specs:
        case = {"part": "B", "via": via, "spec": spec}
        obs = execute(sub, spec, via, wd)
        nv = check_exec(sub, spec, obs, case)
        key = spec_key(spec, via)
        sub.count(evaluations=1, traces=1, states=1, transitions=1 + len(obs["order"]))
        if "X" in spec["cmds"] or spec["ret"] or any(spec["named"]):
            sub.nontrivial(key)
        out = obs["out"]
        digest = (
            obs["exit"],
            tuple(obs["order"]),
            None if out is None else (tuple(sorted((out.stdouts or {}).items())), tuple(sorted((k, bytes(v)) for k, v in (out.files or {}).items()))),
        )
        sub.outcome(hashlib.sha1(repr(digest).encode()).hexdigest()[:12])
        if obs.get("cwd_restored") is False:
            sub.add_note("B_inproc_cwd_not_restored_by_run_local", 1)
        nsample += 1
        if nsample in (3, 200) and nv == 0:
            sub.sample(
                {
                    "part": "B",
                    "via": via,
                    "spec": spec,
                    "exit": obs["exit"],
                    "ran": obs["order"],
                    "stdouts": None if out is None else out.stdouts,
                    "files": None if out is None else {k: bytes(v) for k, v in (out.files or {}).items()},
                }
            )


def chunks(lst, n):
    n = max(1, n)
    size = (len(lst) + n - 1) // n
    return [lst[i : i + size] for i in range(0, len(lst), size)] if lst else []


def execution_parts(ctx, seed):
    specs = enumerate_specs(ctx, seed)
    conf = conformance_specs(ctx, specs, seed)
    nproc = 16 if ctx.thorough else 8
    # subprocess cases first: they are the slow ones
    parts = [("script", c) for c in chunks(conf, nproc * 2 if ctx.thorough else len(conf))] + [("inproc", c) for c in chunks(specs, nproc * 4)]
    ctx.note("B_cases_inprocess", len(specs))
    ctx.note("B_cases_through_installed_script", len(conf))
    return parts


# =================================================================================================
def run(ctx):
    seed = ctx.seed
    ctx.rule = (
        "part A: every history of creating/using 2..3 driver instances (distinct executable, nprocs, envars) through the "
        "class-level Job objects of a fresh harness-defined driver class; non-trivial = at least two drivers exist when a "
        "JobInput is built.  part B: every command list up to the stated length over {quiet, print, write a.dat, write b.bin, "
        "fail(3), read input file, echo $VAR} x naming masks x requested files x input-file kind x environment mode, executed by "
        "the real run_local; non-trivial = the case has a failing command, a requested file or a named command.  Expected values "
        "come from a reference interpreter of the command list; what ran is observed through marker files."
    )
    ctx.assumptions += [
        "a named command that did not run (after the first failure) may or may not have an entry in stdouts/stderrs: not checked",
        "files returned in addition to the requested ones, JobOutput.exitcode and the cwd of the calling process after run_local are not constrained by the property text: not checked (cwd is counted in a note)",
        "return_files=None (the JobInput default, produced by every `@Job()` without return_files such as XTBDriver.energy_m) means 'no file requested'",
        "text input files are ASCII (the property does not fix an encoding for str file contents)",
        "command names are pairwise distinct and differ from file names",
        "the job-level settings (Job(executable=..., envars=...)) and class-level driver attributes are not part of the enumerated space: the harness driver declares neither, like XTBDriver",
    ]
    parts = execution_parts(ctx, seed)
    nscript = sum(1 for p in parts if p[0] == "script")
    parts = parts[:nscript] + binding_parts(ctx, seed) + parts[nscript:]
    ctx.pmap(run_part, parts, nproc=16 if ctx.thorough else 8)


def replay(ctx, case):
    if case.get("part") == "A":
        hist = tuple(tuple(x) for x in case["history"])
        obs, drivers = binding_exec(hist)
        binding_check_last(ctx, hist, obs, drivers)
        return
    spec = case["spec"]
    wd = Path(ctx.scratch) / "wd"
    obs = execute(ctx, spec, case.get("via", "inproc"), wd)
    check_exec(ctx, spec, obs, case)
