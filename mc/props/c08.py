"""
C08 - xyz round trip and unit handling: coordinates mean what the file says.

Bounded-exhaustive input enumeration on the real code, two parts:

 RT   geometries (0..3 atoms, every element, dummy atoms, the coordinate alphabet, 1..3 frames) built
      from the harness's own spec as CartesianGeometry / Structure / Molecule / ConformerEnsemble,
      written by EVERY class-level xyz writer entry point and read back by EVERY class-level xyz
      reader entry point (4 classes x 3 writers x 21 readers); oracle = the spec: atom count, order,
      elements, coordinates to the written precision, frame by frame.
 UNITS the same geometry expressed in unit U with the harness's OWN unit table (CODATA Bohr radius,
      SI prefixes), formatted by the harness's own xyz / mol2 formatter, read with source_units=U by
      every reader entry point of both formats, for every member name of DistanceUnit: the result
      must be the Angstrom original (rel. 1e-5: the library's Bohr constant has 6 digits).

Entry points / units / classes are aggregated per case into the signature ("*" = all of them show
the symptom on this input) so one root cause in a shared code path is one signature, while a single
wrapper that misbehaves is named.
"""
from __future__ import annotations

import hashlib
import io
import itertools
import math
import os
from pathlib import Path

import numpy as np

from mc.core import HarnessError

from molli.chem import (
    Atom,
    AtomGeom,
    AtomStereo,
    AtomType,
    CartesianGeometry,
    ConformerEnsemble,
    DistanceUnit,
    Element,
    Molecule,
    Structure,
)

LEVEL = "model_checking"
NAN = float("nan")

# ---- the harness's own unit table: Angstrom per unit -------------------------------------------
BOHR_RADIUS_M = 5.29177210544e-11  # CODATA 2022 (2018: 5.29177210903e-11; differs in the 10th digit)
ANGSTROM_PER = {
    "A": 1.0,
    "Angstrom": 1.0,
    "Bohr": BOHR_RADIUS_M * 1e10,
    "au": BOHR_RADIUS_M * 1e10,
    "fm": 1e-15 * 1e10,
    "pm": 1e-12 * 1e10,
    "nm": 1e-9 * 1e10,
}
UNIT_REL_TOL = 1e-5

KINDS = ["G", "S", "M", "E"]
KINDNAME = {"G": "CartesianGeometry", "S": "Structure", "M": "Molecule", "E": "ConformerEnsemble"}
RCLASS = {"CartesianGeometry": CartesianGeometry, "Structure": Structure, "Molecule": Molecule, "ConformerEnsemble": ConformerEnsemble}
WRITERS = ["dumps_xyz", "dump_xyz[StringIO]", "dump_xyz[file]"]
_GF = ["loads_{f}", "loads_all_{f}", "load_{f}[StringIO]", "load_{f}[path]", "load_all_{f}[StringIO]", "load_all_{f}[path]"]
_EF = ["loads_{f}", "load_{f}[StringIO]", "load_{f}[path]"]


def readers_of(fmt):
    classes = ("CartesianGeometry", "Structure", "Molecule") if fmt == "xyz" else ("Structure", "Molecule")
    return [f"{c}.{g.format(f=fmt)}" for c in classes for g in _GF] + [f"ConformerEnsemble.{g.format(f=fmt)}" for g in _EF]


XYZ_READERS = readers_of("xyz")
MOL2_READERS = readers_of("mol2")


# =================================================================================================
def rot(lst, k):
    lst = list(lst)
    if not lst:
        return lst
    k %= len(lst)
    return lst[k:] + lst[:k]


def fl(v):
    if isinstance(v, str):
        return {"NaN": NAN, "inf": math.inf, "-inf": -math.inf}[v]
    return float(v)


def exc(e):
    return type(e).__name__


def digest(o) -> str:
    return hashlib.sha1(repr(o).encode()).hexdigest()[:12]


def decimals_of(fmt):
    """number of decimals of a python fixed-point format like '12.6f'"""
    if not fmt.endswith("f") or "." not in fmt:
        raise HarnessError(fmt)
    return int(fmt[:-1].split(".")[1])


# =================================================================================================
# spec -> object
# =================================================================================================
def mkspec(kind, name, atoms, frames, fmt=None):
    """atoms: [(Z, atype)], frames: [[[x,y,z]..]..], fmt: None (default writer format) or e.g. '12.4f'"""
    return {"kind": kind, "name": name, "atoms": [list(a) for a in atoms], "frames": [[list(p) for p in f] for f in frames], "fmt": fmt}


def normspec(s):
    s = dict(s)
    s["atoms"] = [[int(a[0]), int(a[1])] + ([dict(a[2])] if len(a) > 2 else []) for a in s["atoms"]]
    s["frames"] = [[[fl(c) for c in p] for p in f] for f in s["frames"]]
    return s


class UnderTestDeviation(Exception):
    """the code under test (not the harness) prevented a case from being set up: reported as a violation"""

    def __init__(self, symptom, detail):
        super().__init__(f"{symptom}: {detail}")
        self.symptom, self.detail = symptom, detail


def raised_in_library(e: BaseException) -> bool:
    """does the innermost python frame of the traceback belong to molli (and not to the harness)?"""
    tb, last = e.__traceback__, None
    while tb is not None:
        last, tb = tb.tb_frame.f_code.co_filename, tb.tb_next
    return last is not None and (os.sep + "molli" + os.sep) in last and (os.sep + "mc" + os.sep + "props") not in last


def mk_atom(a):
    """[Z, atype] or [Z, atype, {fields the xyz format does not store: isotope, label, stereo, geom, formal_charge, formal_spin, attrib}]"""
    kw = dict(a[2]) if len(a) > 2 else {}
    if "stereo" in kw:
        kw["stereo"] = AtomStereo(kw["stereo"])
    if "geom" in kw:
        kw["geom"] = AtomGeom(kw["geom"])
    if "attrib" in kw:
        kw["attrib"] = dict(kw["attrib"])
    return Atom(Element(a[0]), atype=AtomType(a[1]), **kw)


def build(spec):
    """-> (object, reference frames, holds_spec).
    The reference for the object -> text -> object direction is what the OBJECT holds: normally exactly the
    spec; if the constructor stored something else (e.g. another dtype) the object's own values are used and
    the text -> object direction is judged separately (layer RF / UNITS) against the numbers in the file."""
    kind = spec["kind"]
    n, k = len(spec["atoms"]), len(spec["frames"])
    xyz = np.array(spec["frames"], dtype=float).reshape(k, n, 3)
    try:
        atoms = [mk_atom(a) for a in spec["atoms"]]
        if kind == "E":
            obj = ConformerEnsemble(Molecule(atoms, name=spec["name"], coords=xyz[0]), n_conformers=k, coords=xyz)
        else:
            obj = {"G": CartesianGeometry, "S": Structure, "M": Molecule}[kind](atoms, name=spec["name"], coords=xyz[0])
        co = np.array(obj.coords, dtype=float)
        els = [int(a.element) for a in obj.atoms]
        nat = obj.n_atoms
    except Exception as e:
        raise UnderTestDeviation(f"constructor-raised-{exc(e)}", f"{KINDNAME[kind]} could not be constructed: {exc(e)}: {e}")
    ex = xyz if kind == "E" else xyz[0]
    if nat != n or els != [a[0] for a in spec["atoms"]] or co.shape != ex.shape:
        raise UnderTestDeviation("constructed-object-has-other-atoms", f"{KINDNAME[kind]}: asked for Z={[a[0] for a in spec['atoms']]} x {ex.shape}, got Z={els} x {co.shape}")
    holds = bool(np.all((co == ex) | (np.isnan(co) & np.isnan(ex))))
    ref = spec["frames"] if holds else (co.tolist() if kind == "E" else [co.tolist()])
    return obj, ref, holds


# =================================================================================================
# entry points
# =================================================================================================
def do_write(obj, entry, tmp, fmt=None):
    kw = {} if fmt is None else {"fmt": fmt}
    if entry == "dumps_xyz":
        if fmt is not None:
            raise HarnessError("dumps_xyz has no fmt parameter")
        return obj.dumps_xyz()
    if entry == "dump_xyz[StringIO]":
        s = io.StringIO()
        obj.dump_xyz(s, **kw)
        return s.getvalue()
    if entry == "dump_xyz[file]":
        with open(tmp, "wt", encoding="utf-8", newline="") as f:
            obj.dump_xyz(f, **kw)
        return Path(tmp).read_text(encoding="utf-8")
    raise HarnessError(entry)


def do_read(entry, text, tmp, **kw):
    cname, fn = entry.split(".", 1)
    cls = RCLASS[cname]
    base = fn.split("[")[0]
    f = getattr(cls, base)
    if base.startswith("yield_from"):
        return list(f(io.StringIO(text), **kw))
    if "[StringIO]" in fn:
        return f(io.StringIO(text), **kw)
    if "[path]" in fn:
        return f(Path(tmp) if "all" not in fn else str(tmp), **kw)
    return f(text, **kw)


# =================================================================================================
# oracle
# =================================================================================================
def cmp_frame(spec, fi, atoms, coords, tol):
    out = []
    exp_atoms = spec["atoms"]
    n = len(exp_atoms)
    if len(atoms) != n:
        return [("atom-count-changed", f"{len(atoms)} atoms read, {n} written")]
    got_el = [int(a.element) for a in atoms]
    exp_el = [a[0] for a in exp_atoms]
    if got_el != exp_el:
        i = next(i for i in range(n) if got_el[i] != exp_el[i])
        out.append(("atoms-reordered" if sorted(got_el) == sorted(exp_el) else "element-changed", f"atom {i}: Z={got_el[i]} read, Z={exp_el[i]} written"))
    co = np.asarray(coords, dtype=float)
    if co.shape != (n, 3):
        out.append(("coords-shape-changed", f"coords shape {co.shape}, expected {(n, 3)}"))
        return out
    bad_nan = bad_tol = None
    for i in range(n):
        for c in range(3):
            e, g = spec["frames"][fi][i][c], float(co[i, c])
            if e != e or g != g:
                if not (e != e and g != g):
                    bad_nan = bad_nan or (i, c, e, g)
            elif abs(e - g) > tol * (1 + 1e-6) + 4 * math.ulp(abs(e)):
                bad_tol = bad_tol or (i, c, e, g)
    if bad_nan:
        out.append(("coords-nan-mismatch", "atom %d axis %d: written %r read %r" % bad_nan))
    if bad_tol:
        # the right numbers on the wrong axes / atoms?
        ex = np.array(spec["frames"][fi], dtype=float).reshape(n, 3)

        def close(a, b):
            return bool(np.all((np.abs(a - b) <= 2 * tol + 1e-9 * np.abs(b)) | (np.isnan(a) & np.isnan(b))))

        sym = "coords-beyond-written-precision"
        for perm in itertools.permutations(range(3)):
            if perm != (0, 1, 2) and close(co[:, list(perm)], ex):
                sym = "coords-axes-permuted"
                break
        out.append((sym, "atom %d axis %d: written %r read %r" % bad_tol))
    return out


def observe(spec, entry, res, tol):
    cname, fn = entry.split(".", 1)
    k = len(spec["frames"])
    if cname == "ConformerEnsemble":
        if not isinstance(res, ConformerEnsemble):
            return [("wrong-result-type", type(res).__name__)]
        if res.n_conformers != k:
            return [("frame-count-changed", f"{res.n_conformers} conformers read, {k} frames written")]
        per = [cmp_frame(spec, fi, res.atoms, res.coords[fi], tol) for fi in range(k)]
        got = [np.asarray(res.coords[fi], dtype=float) for fi in range(k)]
    elif "all" in fn:
        if not isinstance(res, list):
            return [("wrong-result-type", type(res).__name__)]
        if len(res) != k:
            return [("frame-count-changed", f"{len(res)} geometries read, {k} frames written")]
        for m in res:
            if not isinstance(m, RCLASS[cname]):
                return [("wrong-result-type", type(m).__name__)]
        per = [cmp_frame(spec, fi, m.atoms, m.coords, tol) for fi, m in enumerate(res)]
        got = [np.asarray(m.coords, dtype=float) for m in res]
    else:
        if not isinstance(res, RCLASS[cname]):
            return [("wrong-result-type", type(res).__name__)]
        if k == 1:
            return cmp_frame(spec, 0, res.atoms, res.coords, tol)
        # a first-frame reader on a multi-frame text is judged for frame SELECTION only: the data-level
        # clauses are judged where a reader returns everything it was given (k = 1, all-frame readers)
        if not cmp_frame(spec, 0, res.atoms, res.coords, tol):
            return []
        for j in range(1, k):
            if not cmp_frame(spec, j, res.atoms, res.coords, tol):
                return [("first-frame-reader-returned-a-later-frame", f"frame {j} of {k} returned instead of frame 0")]
        return []
    flat = []
    n = len(spec["atoms"])
    if k > 1 and any(s.startswith("coords-") for p in per for s, _ in p):
        exp = [np.array(f, dtype=float).reshape(n, 3) for f in spec["frames"]]

        def close(a, b):
            return a.shape == b.shape and bool(np.all((np.abs(a - b) <= 2 * tol) | (np.isnan(a) & np.isnan(b))))

        for perm in itertools.permutations(range(k)):
            if perm != tuple(range(k)) and all(close(got[i], exp[perm[i]]) for i in range(k)):
                flat.append(("frame-order-changed", f"frames read in order {perm}"))
                per = [[x for x in p if not x[0].startswith("coords-")] for p in per]
                break
    seen = set()
    for fi in range(k):
        for s, d in per[fi]:
            if s not in seen:
                seen.add(s)
                flat.append((s, (f"frame {fi}: " if k > 1 else "") + d))
    return flat


# =================================================================================================
# signature aggregation
# =================================================================================================
def _desc(names, universe, classes=("CartesianGeometry", "Structure", "Molecule", "ConformerEnsemble")):
    names = sorted(set(names), key=list(universe).index)
    if set(names) == set(universe):
        return "*"
    out, rest = [], list(names)
    for c in classes:
        allc = [u for u in universe if u.startswith(c + ".")]
        if allc and all(u in names for u in allc):
            out.append(c + ".*")
            rest = [x for x in rest if not x.startswith(c + ".")]
    return ",".join(out + rest)


def is_first_frame_reader(r):
    return not r.startswith("ConformerEnsemble.") and "all" not in r


def reader_universe(sym, k, readers):
    """the readers that can show symptom `sym` on a text of k frames (see observe)"""
    if k == 1 or sym.startswith(("read-raised", "wrong-result-type", "raised-")):
        return list(readers)
    if sym.startswith("first-frame-reader"):
        return [r for r in readers if is_first_frame_reader(r)]
    return [r for r in readers if not is_first_frame_reader(r)]


def product_groups(cells, dims):
    """cells: set of tuples. -> list of tuple-of-lists whose products partition `cells`:
    the whole set when it is a full product, else split along the first axis, recursively"""
    cells = set(cells)
    axes = [sorted({c[d] for c in cells}) for d in range(dims)]
    if cells == set(itertools.product(*axes)):
        return [tuple(axes)]
    out = []
    for v in axes[0]:
        sub = {c[1:] for c in cells if c[0] == v}
        if dims == 1:
            out.append(([v],))
        else:
            for g in product_groups(sub, dims - 1):
                out.append(([v],) + g)
    return out


# =================================================================================================
# RT : one geometry through all kinds x writers x readers
# =================================================================================================
def applicable_kinds(gspec):
    return ["E"] if len(gspec["frames"]) > 1 else list(KINDS)


def apply_xyz_edit(obj, spec, e):
    """edit the object IN PLACE; return the harness's own updated reference"""
    sp = dict(spec, atoms=[list(a) for a in spec["atoms"]], frames=[[list(p) for p in f] for f in spec["frames"]])
    if e["f"] == "element":
        obj.atoms[e["i"]].element = Element(e["v"])
        sp["atoms"][e["i"]][0] = e["v"]
    elif e["f"] == "coordinate":
        if spec["kind"] == "E":
            obj.coords[e["fr"], e["i"], e["c"]] = e["v"]
        else:
            obj.coords[e["i"], e["c"]] = e["v"]
        sp["frames"][e["fr"] if spec["kind"] == "E" else 0][e["i"]][e["c"]] = e["v"]
    elif e["f"] in ("append", "extend"):
        if spec["kind"] == "E":  # (size edit of ensembles only)
            n = len(sp["atoms"])
            geoms = [Molecule([Atom(Element(a[0])) for a in sp["atoms"]], coords=np.array(fr, dtype=float).reshape(n, 3)) for fr in e["v"]]
            if e["f"] == "append":
                obj.append(geoms[0])
                sp["frames"] = sp["frames"] + [[list(p) for p in e["v"][0]]]
            else:
                obj.extend(geoms)
                sp["frames"] = sp["frames"] + [[list(p) for p in fr] for fr in e["v"]]
    elif e["f"] == "add_atom":
        if spec["kind"] != "E":  # (size edit of single geometries only)
            z, xyz = e["v"]
            if spec["kind"] == "M":
                obj.add_atom(Atom(Element(z)), list(xyz), charge=0.0)
            else:
                obj.add_atom(Atom(Element(z)), list(xyz))
            sp["atoms"].append([z, REG])
            sp["frames"][0].append(list(xyz))
    elif e["f"] == "del_atom":
        if spec["kind"] != "E":
            obj.del_atom(e["i"])
            sp["atoms"].pop(e["i"])
            sp["frames"][0].pop(e["i"])
    else:
        raise HarnessError(repr(e))
    return sp


def check_geom(ctx, gspec, kinds=None, edit=None, name_tag=False):
    """gspec: spec without 'kind'.  All applicable classes are run inside ONE case so that the
    signature can say whether a symptom belongs to one class or to all of them."""
    tmp = Path(ctx.scratch) / f"c08-{os.getpid()}.xyz"
    tmpw = Path(ctx.scratch) / f"c08-{os.getpid()}-w.xyz"
    kinds = list(kinds or applicable_kinds(gspec))
    fmt = gspec.get("fmt")
    if fmt is not None:
        kinds = [k for k in kinds if k != "E"]  # ConformerEnsemble.dump_xyz has no format parameter
    tol = 10.0 ** (-decimals_of(fmt or "12.6f"))
    n = len(gspec["atoms"])
    ncls = "n=0" if n == 0 else "n>0"
    ctx.count(evaluations=1, states=1, traces=1)
    if n > 0 and any(c == c and c != 0 for f in gspec["frames"] for p in f for c in p):
        ctx.nontrivial(digest((gspec, edit)))
    cells, wcells, detail = {}, {}, {}
    all_texts = []
    writers = writers_used = WRITERS if fmt is None else [w for w in WRITERS if w != "dumps_xyz"]
    for kind in kinds:
        spec = dict(gspec, kind=kind)
        try:
            obj, ref, holds = build(spec)
        except UnderTestDeviation as e:
            wcells.setdefault("setup-" + e.symptom, set()).add((kind, "-"))
            detail.setdefault("setup-" + e.symptom, e.detail)
            continue
        if not holds:
            ctx.add_note("constructed_object_stores_other_coordinate_values_than_requested")
            spec = dict(spec, frames=ref)
        if edit is not None:
            # write - edit in place - write: what the writer derives from the object follows its CURRENT state
            ctx.count(transitions=1)
            try:
                if edit["first"] == "iterate":
                    if kind == "E":
                        for _c in obj:
                            pass
                    else:
                        obj.dumps_xyz()
                else:
                    do_write(obj, edit["first"], tmpw)
            except Exception:
                pass  # a failing first write is reported by the plain cases
            try:
                for e in edit["edits"]:
                    spec = apply_xyz_edit(obj, spec, e)
            except HarnessError:
                raise
            except Exception as e_:
                wcells.setdefault(f"setup-edit-raised-{exc(e_)}", set()).add((kind, "-"))
                detail.setdefault(f"setup-edit-raised-{exc(e_)}", f"{exc(e_)}: {e_}")
                continue
        texts = {}
        for w in writers:
            ctx.count(transitions=1)
            try:
                t = do_write(obj, w, tmpw, fmt)
            except Exception as e:
                wcells.setdefault(f"write-raised-{exc(e)}", set()).add((kind, w))
                detail.setdefault(f"write-raised-{exc(e)}", f"{exc(e)}: {e}")
                continue
            if not isinstance(t, str):
                wcells.setdefault("write-did-not-return-text", set()).add((kind, w))
                continue
            texts.setdefault(t, []).append(w)
        for text in sorted(texts):
            all_texts.append(text)
            tmp.write_text(text, encoding="utf-8", newline="")
            for r in XYZ_READERS:
                ctx.count(transitions=1)
                try:
                    res = do_read(r, text, tmp)
                except Exception as e:
                    syms = [(f"read-raised-{exc(e)}", f"{exc(e)}: {e}")]
                else:
                    syms = observe(spec, r, res, tol)
                for s, d in syms:
                    for w in texts[text]:
                        cells.setdefault(s, set()).add((kind, w, r))
                    detail.setdefault(s, d)
    ctx.outcome((digest(all_texts), tuple(sorted(cells)), tuple(sorted(wcells))))
    fcls = "" if fmt is None else "|fmt=explicit"
    if edit is not None:
        fcls += "|after[write+grow-or-shrink]" if any(e["f"] in ("append", "extend", "add_atom", "del_atom") for e in edit["edits"]) else "|after[write+edit-in-place]"
    if name_tag:
        fcls += f"|name[{comment_class(gspec['name'])}]"
    xf = sorted({k_ for a in gspec["atoms"] if len(a) > 2 for k_ in a[2]})
    if xf:
        fcls += "|atom-fields[" + ("+".join(xf) if len(xf) <= 2 else "many") + "]"
    case = {"layer": "RT", "gspec": gspec, "kinds": kinds, "edit": edit, "name_tag": name_tag}
    for sym in sorted(wcells):
        for gk, gw in product_groups(wcells[sym], 2):
            if gw == ["-"]:
                ctx.violation(f"rt|{ncls}{fcls}|{sym}|k={_desc([KINDNAME[k] for k in gk], [KINDNAME[k] for k in kinds])}", f"{KINDNAME[gk[0]]} ({n} atoms): {detail[sym]}", case)
                continue
            ctx.violation(
                f"rt|{ncls}{fcls}|{sym}|k={_desc([KINDNAME[k] for k in gk], [KINDNAME[k] for k in kinds])}|w={_desc(gw, writers_used)}",
                f"{KINDNAME[gk[0]]}.{gw[0]} of a valid geometry ({n} atoms): {detail[sym]}",
                case,
                repro=repro_rt(dict(gspec, kind=gk[0]), gw[0], None),
            )
    for sym in sorted(cells):
        for gk, gw, gr in product_groups(cells[sym], 3):
            ctx.violation(
                f"rt|{ncls}{fcls}|{sym}|k={_desc([KINDNAME[k] for k in gk], [KINDNAME[k] for k in kinds])}|w={_desc(gw, writers_used)}|r={_desc(gr, reader_universe(sym, len(gspec['frames']), XYZ_READERS))}",
                f"{KINDNAME[gk[0]]} ({n} atoms, {len(gspec['frames'])} frame(s)) written by {gw[0]}, read by {gr[0]}: {detail[sym]}",
                case,
                repro=repro_rt(dict(gspec, kind=gk[0]), gw[0], gr[0]),
            )


def repro_rt(spec, w, r):
    kind = spec["kind"]
    L = [
        "import io, numpy as np, molli as ml",
        "from molli.chem import Atom, Element, AtomType",
        "nan = float('nan')",
        f"atoms = [Atom(Element(a[0]), atype=AtomType(a[1]), **(a[2] if len(a) > 2 else {{}})) for a in {spec['atoms']!r}]",
        f"frames = np.array({spec['frames']!r}, dtype=float).reshape({len(spec['frames'])}, len(atoms), 3)",
    ]
    if kind == "E":
        L.append(f"g = ml.ConformerEnsemble(ml.Molecule(atoms, name={spec['name']!r}, coords=frames[0]), n_conformers=len(frames), coords=frames)")
    else:
        L.append(f"g = ml.{KINDNAME[kind]}(atoms, name={spec['name']!r}, coords=frames[0])")
    if w == "dumps_xyz":
        L.append("text = g.dumps_xyz()")
    else:
        kw = f", fmt={spec['fmt']!r}" if spec.get("fmt") else ""
        L.append(f"s = io.StringIO(); g.dump_xyz(s{kw}); text = s.getvalue()")
    L.append("print(repr(text))")
    if r:
        cname, fn = r.split(".", 1)
        base = fn.split("[")[0]
        L.append(f"r = ml.{cname}.{base}({'io.StringIO(text)' if '[' in fn else 'text'})")
        L.append("print(r, [x.coords for x in r] if isinstance(r, list) else r.coords)")
    return "\n".join(L)


# =================================================================================================
# UNITS
# =================================================================================================
def own_xyz(atoms, frames, name="u"):
    out = []
    for f in frames:
        out.append(f"{len(atoms)}\n{name}\n")
        for (z, _t), p in zip(atoms, f):
            out.append(f"{Element(z).name:<3} {p[0]:.10f} {p[1]:.10f} {p[2]:.10f}\n")
    return "".join(out)


def own_mol2(atoms, frames, name="u"):
    out = []
    n = len(atoms)
    for f in frames:
        out.append(f"@<TRIPOS>MOLECULE\n{name}\n{n} {max(n - 1, 0)} 0 0 0\nSMALL\nUSER_CHARGES\n\n@<TRIPOS>ATOM\n")
        for i, ((z, _t), p) in enumerate(zip(atoms, f)):
            s = Element(z).name
            out.append(f"{i + 1:>6} {s}{i + 1:<4} {p[0]:.10f} {p[1]:.10f} {p[2]:.10f} {s:<6} 1 UNL1 0.000\n")
        out.append("@<TRIPOS>BOND\n")
        for i in range(n - 1):
            out.append(f"{i + 1:>6} {i + 1:>6} {i + 2:>6} 1\n")
    return "".join(out)


def unit_names():
    lib = list(DistanceUnit.__members__)
    return sorted(set(lib) | set(ANGSTROM_PER), key=lambda u: (u not in ANGSTROM_PER, list(ANGSTROM_PER).index(u) if u in ANGSTROM_PER else 0, u))


def classify_scale(file_xyz, got, apu, exact=False):
    """file_xyz: numbers in the file (unit U); got: coordinates returned; apu: Angstrom per U;
    exact: the unit is an exact power of ten of the Angstrom (no 6-digit library constant involved)"""
    f = np.asarray(file_xyz, dtype=float)
    g = np.asarray(got, dtype=float)
    if g.shape != f.shape:
        return "coords-shape-changed", f"shape {g.shape} expected {f.shape}"

    def close(a, b):
        return bool(np.all(np.abs(a - b) <= UNIT_REL_TOL * np.abs(b) + 1e-12))

    e = f * apu
    i = int(np.argmax(np.abs(e)))
    info = "file value %r [unit] -> expected %r A, got %r" % (float(f.flat[i]), float(e.flat[i]), float(g.flat[i]))
    if close(g, e):
        if exact and not bool(np.all((np.abs(g - e) <= 1e-9 * np.abs(e) + 1e-12) | (np.isnan(g) & np.isnan(e)))):
            j = int(np.argmax(np.abs(g - e)))
            info = "file value %r [unit] -> expected %r A, got %r" % (float(f.flat[j]), float(e.flat[j]), float(g.flat[j]))
            single = bool(np.all(g == g.astype(np.float32).astype(np.float64)))
            return ("right-scale-but-rounded-to-single-precision" if single else "right-scale-but-imprecise"), info
        return None, info
    if close(g, f):
        return "source_units-ignored", info
    if close(g, f / apu):
        return "scaled-inversely", info
    nz = np.abs(f) > 0
    if nz.any():
        ratio = g[nz] / f[nz]
        if np.all(np.abs(ratio - ratio.flat[0]) <= 1e-9 * abs(ratio.flat[0])):
            return "wrong-scale-factor", info + " (factor %r instead of %r)" % (float(ratio.flat[0]), apu)
    return "wrong-coordinates", info


def check_units(ctx, fmt, atoms, frames_A):
    """one geometry (Angstrom) x every unit name x every reader entry point of format fmt"""
    tmp = Path(ctx.scratch) / f"c08-{os.getpid()}-u.{fmt}"
    readers = XYZ_READERS if fmt == "xyz" else MOL2_READERS
    units = unit_names()
    k, n = len(frames_A), len(atoms)
    A = np.array(frames_A, dtype=float).reshape(k, n, 3)
    case = {"layer": "UNITS", "fmt": fmt, "atoms": [list(a) for a in atoms], "frames": [[list(p) for p in f] for f in frames_A]}
    ctx.count(evaluations=1, states=1, traces=1)
    ctx.nontrivial(("U", digest(case)))
    cells, detail = {}, {}
    for u in units:
        if u not in ANGSTROM_PER:
            ctx.cap_hit(f"DistanceUnit member {u!r} is not in the harness's unit table")
            continue
        apu = ANGSTROM_PER[u]
        F = A / apu  # the same geometry expressed in unit u
        text = (own_xyz if fmt == "xyz" else own_mol2)(atoms, F.tolist())
        # the numbers actually in the file (10 decimals) are the reference
        F = np.array([[[float(f"{c:.10f}") for c in p] for p in fr] for fr in F.tolist()]).reshape(k, n, 3)
        tmp.write_text(text, encoding="utf-8", newline="")
        for r in readers:
            ctx.count(transitions=1)
            cname, fn = r.split(".", 1)
            try:
                res = do_read(r, text, tmp, source_units=u)
            except Exception as e:
                sym, info = f"raised-{exc(e)}", f"{exc(e)}: {e}"
            else:
                try:
                    if cname == "ConformerEnsemble":
                        got, want = np.asarray(res.coords, dtype=float), F
                    elif "all" in fn:
                        got, want = np.array([np.asarray(m.coords, dtype=float) for m in res]), F
                    else:
                        got, want = np.asarray(res.coords, dtype=float), F[0]
                except Exception as e:
                    sym, info = "unusable-result", repr(e)
                else:
                    sym, info = classify_scale(want, got, apu, exact=u not in ("Bohr", "au"))
            ctx.outcome(("U", fmt, u, sym))
            if sym:
                cells.setdefault(sym, set()).add((u, r))
                detail.setdefault((sym, u, r), info)
    nonA = [u for u in units if u in ANGSTROM_PER and ANGSTROM_PER[u] != 1.0]
    for sym in sorted(cells):
        for gu, gr in product_groups(cells[sym], 2):
            ud = "*" if set(gu) == set(units) else ("non-Angstrom" if set(gu) == set(nonA) else ",".join(gu))
            ctx.violation(
                f"units|{fmt}|{sym}|u={ud}|r={_desc(gr, readers)}",
                f"{gr[0]}(..., source_units={gu[0]!r}): {detail[(sym, gu[0], gr[0])]}",
                case,
                repro=repro_units(fmt, gu[0], gr[0]),
            )


def repro_units(fmt, u, r):
    apu = ANGSTROM_PER.get(u, 1.0)
    d = 1.0 / apu
    cname, fn = r.split(".", 1)
    base = fn.split("[")[0]
    if fmt == "xyz":
        text = f"2\\ntwo H atoms 1 Angstrom apart, written in {u}\\nH 0 0 0\\nH 0 0 {d:.10f}\\n"
    else:
        text = f"@<TRIPOS>MOLECULE\\nh2\\n2 1 0 0 0\\nSMALL\\nUSER_CHARGES\\n\\n@<TRIPOS>ATOM\\n1 H1 0 0 0 H 1 UNL1 0.0\\n2 H2 0 0 {d:.10f} H 1 UNL1 0.0\\n@<TRIPOS>BOND\\n1 1 2 1\\n"
    arg = "io.StringIO(text)" if "[" in fn else "text"
    return (
        "import io, numpy as np, molli as ml\n"
        f'text = "{text}"\n'
        f"r = ml.{cname}.{base}({arg}, source_units={u!r})\n"
        "r = r[0] if isinstance(r, list) else r\n"
        "c = np.asarray(r.coords).reshape(-1, 3)\n"
        "print(np.linalg.norm(c[1] - c[0]), '(expected 1.0 Angstrom)')"
    )


# =================================================================================================
# alphabets
# =================================================================================================
CVALS = [0.0, -0.0000004, 1.5, -123456.789, 1e7, NAN, 0.1234565, 99999.9999995]
NAMES = ["m", "a b", "12"]
REG, DUMMY = int(AtomType.Regular), int(AtomType.Dummy)
FMTS = ["12.6f", "12.4f", "20.10f", "10.3f", ".8f", "8.1f"]


def triples(seed, vals=CVALS):
    n = len(vals)
    s1, s2 = 1 + seed % (n - 1), 1 + (2 * seed + 2) % (n - 1)
    return [(vals[i], vals[(i + s1) % n], vals[(i + s1 + s2) % n]) for i in range(n)]


def gspec(name, atoms, frames, fmt=None):
    s = mkspec("G", name, atoms, frames, fmt)
    del s["kind"]
    return s


def gen_R0(seed, thorough):
    for name in rot(NAMES, seed):
        for k in (1, 2, 3):
            yield gspec(name, [], [[]] * k)


def gen_R1(seed, thorough):
    """one atom: every element (and the dummy variants) x coordinate triple"""
    atoms = [(int(e), REG) for e in Element] + [(0, DUMMY), (6, DUMMY)]
    full = list(itertools.product(CVALS, repeat=3))  # independent axes
    names = rot(NAMES, seed)
    for ai, a in enumerate(atoms):
        tr = full if (thorough or a in ((6, REG), (0, REG), (118, REG))) else triples(seed)
        for pi, p in enumerate(tr):
            yield gspec(names[(ai + pi) % len(names)], [a], [[p]])


def descriptors(seed, thorough):
    tr = triples(seed + 1)
    base = [(6, REG), (1, REG), (0, DUMMY), (118, REG), (0, REG), (17, REG)]
    if thorough:
        base += [(26, REG), (6, DUMMY)]
    return [(a, tr[i % len(tr)]) for i, a in enumerate(base)]


def gen_R2(seed, thorough):
    """2..3 atoms (thorough ..4): every sequence with repetition of the atom descriptors;
    as single geometries and as 2-frame ensembles (second frame = positions shifted cyclically)"""
    D = descriptors(seed, thorough)
    for n in (2, 3, 4) if thorough else (2, 3):
        Dn = D if n < 4 else D[:5]
        for seq in itertools.product(range(len(Dn)), repeat=n):
            atoms = [Dn[i][0] for i in seq]
            xyz = [Dn[i][1] for i in seq]
            yield gspec("r2", atoms, [xyz])
            yield gspec("r2", atoms, [xyz, xyz[1:] + xyz[:1]])


def gen_R3(seed, thorough):
    """frames: every sequence of 1..3 frames (with repetition) over a frame alphabet, 1..2 atoms"""
    tr = triples(seed + 3)
    nF = 5 if thorough else 4
    for n in (1, 2):
        atoms = [(8, REG), (1, REG)][:n]
        F = [[tr[(f + 3 * a) % len(tr)] for a in range(n)] for f in range(nF)]
        for k in (1, 2, 3):
            for seq in itertools.product(range(nF), repeat=k):
                yield gspec("frames", atoms, [F[i] for i in seq])


def gen_R4(seed, thorough):
    """explicit fmt= of dump_xyz: the written precision is what the caller asked for"""
    tr = triples(seed)
    for f in rot(FMTS, seed):
        for p in tr:
            yield gspec("fmt", [(6, REG), (1, REG)], [[p, tr[0]]], fmt=f)


def gen_RW(seed, thorough):
    """write - edit in place (an element, a coordinate) - write again, every class, every writer as the first write"""
    tr = triples(seed + 6, [v for v in CVALS if v == v])
    atoms = [(6, REG), (8, REG), (1, REG)]
    f0 = [tr[0], tr[2], tr[4]]
    for frames in ([f0], [f0, f0[1:] + f0[:1]]):
        k = len(frames)
        edits = []
        for i in range(3):
            edits += [{"f": "element", "i": i, "v": 9}, {"f": "element", "i": i, "v": 0}, {"f": "element", "i": i, "v": 46}]
            edits += [{"f": "coordinate", "i": i, "c": i % 3, "fr": i % k, "v": 7.25 + i}]
        for first in rot(WRITERS, seed):
            for e in edits:
                yield gspec("rw", atoms, frames), {"first": first, "edits": [e]}
            for a in edits[:4]:
                for b in edits[4:8]:
                    yield gspec("rw", atoms, frames), {"first": first, "edits": [a, b]}
        # size-changing edits between the two writes: an ensemble gains conformers, a geometry gains / loses an atom
        n1 = [[p[1] + 1.0, p[2] - 2.0, p[0]] for p in frames[-1]]
        n2 = [[p[2], p[0] + 3.5, p[1]] for p in frames[-1]]
        size = [{"f": "append", "v": [n1]}, {"f": "extend", "v": [n1, n2]}]
        if k == 1:
            size += [{"f": "add_atom", "v": [17, [3.25, -4.5, 0.125]]}] + [{"f": "del_atom", "i": i} for i in range(3)]
        for first in rot(WRITERS + ["iterate"], seed):
            for e in size:
                yield gspec("rw", atoms, frames), {"first": first, "edits": [e]}
            for a in size[:3]:
                for b in size[:3]:
                    yield gspec("rw", atoms, frames), {"first": first, "edits": [a, b]}


COMMENTS = ["", " ", "\t", " a", "a ", "3", "0", "C 0 0 0", "x" * 300, "#c"]


def gen_RC(seed, thorough):
    """molli-written: the object's NAME is the comment line - every name of the comment alphabet x frame shapes"""
    tr = triples(seed + 7, [v for v in CVALS if v == v])
    a2 = [(6, REG), (1, REG)]
    for name in rot(COMMENTS, seed):
        yield gspec(name, a2, [[tr[0], tr[1]]])
        yield gspec(name, a2, [[tr[0], tr[1]], [tr[2], tr[3]]])
        yield gspec(name, [(8, REG)], [[tr[1]], [tr[2]], [tr[4]]])
        yield gspec(name, [], [[]])
        yield gspec(name, [], [[], []])
        yield gspec(name, [], [[], [], []])


def gen_RC2(seed, thorough):
    """(frames, comments, final_newline): multi-frame texts (harness formatter = 'foreign' files, and concatenated molli dumps)
    with every comment of the alphabet on every / the first / the last frame, 0-atom frames (also two in a row),
    with and without a terminated last line"""
    A = het_alphabet(seed, thorough)
    Z = {"atoms": [], "xyz": []}
    shapes = [[A[2][0]], [A[2][0], A[2][1]], [Z, Z], [Z, A[2][0]], [A[2][0], Z, Z], [A[1][0], A[1][1], A[1][3]], [Z], [A[3][0], Z, A[3][1]]]
    for c in rot(COMMENTS, seed):
        for frames in shapes:
            k = len(frames)
            variants = [[c] * k]
            if k > 1:
                variants += [[c] + ["title"] * (k - 1), ["title"] * (k - 1) + [c]]
            for comments in variants:
                for fnl in (True, False):
                    if not fnl and not frames[-1]["atoms"] and comments[-1].strip() == "":
                        continue  # "0\n" + blank comment without a line end: the comment line is not there at all
                    yield frames, comments, fnl


R_LAYERS = {"R0": gen_R0, "R1": gen_R1, "R2": gen_R2, "R3": gen_R3, "R4": gen_R4}

# incl. values whose float32 and float64 images differ in the 6th decimal (48.123456 -> 48.123455)
UVALS = [1.0, -2.5, 48.123456, 0.529177, 100.0, -61.654321, 0.001, 12345.678, 1234.567891, 0.0]


def gen_units(seed, thorough):
    """(fmt, atoms, frames in Angstrom): 1..3 atoms, 1..2 frames, every position a rotation of the value list
    (at least one non-zero finite component per geometry so that a scale error is visible)"""
    vals = rot(UVALS, seed)
    tr = [(vals[i], vals[(i + 2) % len(vals)], vals[(i + 3) % len(vals)]) for i in range(len(vals))]
    els = [1, 8, 26]
    for fmt in ("xyz", "mol2"):
        for n in (1, 2, 3):
            starts = range(len(tr)) if (thorough or n == 1) else range(0, len(tr), 2)
            for s in starts:
                atoms = [(els[a], REG) for a in range(n)]
                f0 = [tr[(s + a) % len(tr)] for a in range(n)]
                yield fmt, atoms, [f0]
                if n > 1:
                    yield fmt, atoms, [f0, f0[1:] + f0[:1]]


# =================================================================================================
# RF : text -> object.  "Coordinates mean what the file says": a harness-written text with 6 written
#      decimals, read by every reader of every class, must give the FILE's numbers
#      (half a unit of the last written decimal + a few float64 ulps) - ensembles included
# =================================================================================================
RF_READERS = XYZ_READERS + [f"{c}.yield_from_xyz" for c in ("CartesianGeometry", "Structure", "Molecule")]
# magnitudes 1, 16..100, 1e3..1e5; several are not representable in float32 to 6 decimals
FVALS = ["1.000000", "48.123456", "-61.654321", "1234.567891", "-99999.123457", "16.000001", "0.000001", "-0.500000", "31415.926536"]


def rf_frames(seed, start, n, k):
    v = rot(FVALS, seed)
    m = len(v)
    return [[[v[(start + 3 * a + 5 * f + c * (1 + a)) % m] for c in range(3)] for a in range(n)] for f in range(k)]


def check_file(ctx, atoms, sframes):
    """sframes: frames of coordinate STRINGS as they stand in the file"""
    tmp = Path(ctx.scratch) / f"c08-{os.getpid()}-f.xyz"
    k, n = len(sframes), len(atoms)
    case = {"layer": "RF", "atoms": [list(a) for a in atoms], "sframes": sframes}
    ctx.count(evaluations=1, states=1, traces=1)
    ctx.nontrivial(("RF", digest(case)))
    text = "".join(f"{n}\nfile {fi}\n" + "".join(f"{Element(z).name:<3} {p[0]:>14} {p[1]:>14} {p[2]:>14}\n" for (z, _t), p in zip(atoms, fr)) for fi, fr in enumerate(sframes))
    F = np.array([[[float(c) for c in p] for p in fr] for fr in sframes]).reshape(k, n, 3)
    tmp.write_text(text, encoding="utf-8", newline="")
    cells, detail = {}, {}
    for r in RF_READERS:
        ctx.count(transitions=1)
        cname, fn = r.split(".", 1)
        try:
            res = do_read(r, text, tmp)
            if cname == "ConformerEnsemble":
                got, want = np.array(res.coords, dtype=float), F
                els = [[int(a.element) for a in res.atoms]] * k
            elif "all" in fn or "yield_from" in fn:
                got, want = np.array([np.asarray(m.coords, dtype=float) for m in res]), F
                els = [[int(a.element) for a in m.atoms] for m in res]
            else:
                got, want = np.array(res.coords, dtype=float), F[0]
                els = [[int(a.element) for a in res.atoms]]
        except Exception as e:
            sym, info = f"read-raised-{exc(e)}", f"{exc(e)}: {e}"
        else:
            sym = info = None
            if got.shape != want.shape or any(e_ != [a[0] for a in atoms] for e_ in els):
                sym, info = "atoms-or-frames-differ-from-the-file", f"shape {got.shape} expected {want.shape}; elements {els}"
            else:
                tol = 0.5e-6 * (1 + 1e-9) + 4 * np.spacing(np.abs(want))
                bad = np.abs(got - want) > tol
                if bad.any():
                    j = int(np.argmax(np.abs(got - want)))
                    single = bool(np.all(got == got.astype(np.float32).astype(np.float64)))
                    sym = "coords-rounded-to-single-precision" if single else "coords-differ-from-the-file-beyond-half-a-unit-of-the-last-decimal"
                    info = "file says %r, read %r" % (float(want.flat[j]), float(got.flat[j]))
        ctx.outcome(("RF", r, sym))
        if sym:
            cells.setdefault(sym, set()).add(r)
            detail.setdefault((sym, r), info)
    for sym in sorted(cells):
        rs = sorted(cells[sym], key=RF_READERS.index)
        ctx.violation(
            f"file|xyz|{sym}|r={_desc(rs, RF_READERS)}",
            f"{rs[0]} of a harness-written {k}-frame xyz text: {detail[(sym, rs[0])]}",
            case,
            repro=(
                "import io, molli as ml\n"
                f"text = {text!r}\n"
                f"r = ml.{rs[0].split('.')[0]}.{rs[0].split('.')[1].split('[')[0]}({'text' if rs[0].split('.')[1].startswith('loads') else 'io.StringIO(text)'})\n"
                "r = [r] if hasattr(r, 'coords') else list(r)\n"
                "for g in r: print(g.coords.dtype, g.coords.tolist())"
            ),
        )


def gen_RF(seed, thorough):
    for n in (1, 2, 3) if thorough else (1, 2):
        atoms = [(6, REG), (1, REG), (46, REG)][:n]
        for k in (1, 2, 3) if thorough else (1, 2):
            for start in range(len(FVALS)):
                yield atoms, rf_frames(seed, start, n, k)


# =================================================================================================
# RS : element symbol SPELLINGS in foreign files.  The harness's own periodic table (symbol -> Z), every
#      element x every spelling the reference tree accepts x every xyz entry point
# =================================================================================================
PERIODIC = (
    "H He Li Be B C N O F Ne Na Mg Al Si P S Cl Ar K Ca Sc Ti V Cr Mn Fe Co Ni Cu Zn Ga Ge As Se Br Kr Rb Sr Y Zr Nb Mo Tc Ru Rh Pd Ag Cd In Sn Sb Te I Xe "
    "Cs Ba La Ce Pr Nd Pm Sm Eu Gd Tb Dy Ho Er Tm Yb Lu Hf Ta W Re Os Ir Pt Au Hg Tl Pb Bi Po At Rn Fr Ra Ac Th Pa U Np Pu Am Cm Bk Cf Es Fm Md No Lr "
    "Rf Db Sg Bh Hs Mt Ds Rg Cn Nh Fl Mc Lv Ts Og"
).split()
SYMBOL_OF = {0: "Unknown", **{i + 1: sym for i, sym in enumerate(PERIODIC)}}


def spellings(z):
    c = SYMBOL_OF[z]
    out = {"canonical": c, "upper": c.upper(), "lower": c.lower(), "inverted-case": c.swapcase()}
    seen, res = set(), {}
    for k_, v in out.items():
        if v not in seen:
            seen.add(v)
            res[k_] = v
    return res


def check_spellings(ctx, zs, mode):
    """mode 'one': one element, an atom per spelling, two frames (second frame: spellings in reverse order);
    mode 'all-<spelling>': every element of zs once, all in that spelling"""
    tmp = Path(ctx.scratch) / f"c08-{os.getpid()}-s.xyz"
    case = {"layer": "RS", "zs": list(zs), "mode": mode}
    ctx.count(evaluations=1, states=1, traces=1)
    ctx.nontrivial(("RS", tuple(zs), mode))
    if mode == "one":
        sp = spellings(zs[0])
        rows = [(k_, v, zs[0]) for k_, v in sp.items()]
        frames_rows = [rows, rows[::-1]]
    else:
        which = mode.split("-", 1)[1]
        rows = [(which, spellings(z).get(which, SYMBOL_OF[z]), z) for z in zs]
        frames_rows = [rows]
    text = ""
    for fi, rws in enumerate(frames_rows):
        text += f"{len(rws)}\nspelling {fi}\n" + "".join(f"{v:<8} {1.5 * i + fi:.6f} {-2.0 * i:.6f} {0.25 * (i + 1):.6f}\n" for i, (_k, v, _z) in enumerate(rws))
    tmp.write_text(text, encoding="utf-8", newline="")
    cells, detail = {}, {}
    for r in RF_READERS:
        ctx.count(transitions=1)
        cname, fn = r.split(".", 1)
        try:
            res = do_read(r, text, tmp)
            if cname == "ConformerEnsemble":
                got = [[int(a.element) for a in res.atoms]] * res.n_conformers
                want = [[z for _k, _v, z in frames_rows[0]]] * len(frames_rows)  # an ensemble has ONE atom list
                if len(frames_rows) == 2 and [z for *_x, z in frames_rows[0]] != [z for *_x, z in frames_rows[1]]:
                    raise HarnessError("frames of a spelling case must hold the same elements")
                keys = [[k_ for k_, _v, _z in frames_rows[0]]] * len(frames_rows)
            elif "all" in fn or "yield_from" in fn:
                got = [[int(a.element) for a in g.atoms] for g in res]
                want = [[z for *_x, z in rws] for rws in frames_rows]
                keys = [[k_ for k_, *_x in rws] for rws in frames_rows]
            else:
                got = [[int(a.element) for a in res.atoms]]
                want = [[z for *_x, z in frames_rows[0]]]
                keys = [[k_ for k_, *_x in frames_rows[0]]]
        except HarnessError:
            raise
        except Exception as e:
            # which spelling is rejected?  read each row alone through the same entry point
            bad = []
            for k_, v, z in frames_rows[0]:
                try:
                    do_read(r, f"1\nx\n{v} 0.0 0.0 0.0\n", _write(tmp, f"1\nx\n{v} 0.0 0.0 0.0\n"))
                except Exception:
                    bad.append(k_)
            tmp.write_text(text, encoding="utf-8", newline="")
            for k_ in sorted(set(bad)) or ["?"]:
                cells.setdefault(f"read-raised-{exc(e)}", set()).add((k_, r))
                detail.setdefault(f"read-raised-{exc(e)}", f"{exc(e)}: {e}")
            continue
        if [len(x) for x in got] != [len(x) for x in want]:
            cells.setdefault("atom-or-frame-count-changed", set()).add(("*", r))
            detail.setdefault("atom-or-frame-count-changed", f"{[len(x) for x in got]} atoms per frame read, {[len(x) for x in want]} written")
            continue
        for gf, wf, kf in zip(got, want, keys):
            for g, w, k_ in zip(gf, wf, kf):
                if g != w:
                    cells.setdefault("element-changed", set()).add((k_, r))
                    detail.setdefault("element-changed", f"symbol {spellings(w).get(k_, SYMBOL_OF[w])!r} (Z={w}, {SYMBOL_OF[w]}) read as Z={g} ({SYMBOL_OF.get(g, '?')})")
    ctx.outcome(("RS", mode, tuple(zs)[:3], tuple(sorted(cells))))
    allsp = ["canonical", "upper", "lower", "inverted-case"]
    for sym in sorted(cells):
        for gk, gr in product_groups(cells[sym], 2):
            ctx.violation(
                f"symbols|xyz|{sym}|spelling={','.join(k_ for k_ in allsp + ['*', '?'] if k_ in gk)}|r={_desc(gr, RF_READERS)}",
                f"{gr[0]} of a foreign xyz text: {detail[sym]}",
                case,
                repro=f"import molli as ml\nfor s in {sorted(set(v for rws in frames_rows for _k, v, _z in rws))[:8]!r}:\n    print(s, ml.CartesianGeometry.loads_xyz(f'1\\nx\\n{{s}} 0 0 0\\n').atoms[0].element)",
            )


def _write(tmp, text):
    tmp.write_text(text, encoding="utf-8", newline="")
    return tmp


def gen_RS(seed, thorough):
    zs = rot(list(range(0, 119)), seed * 13)
    for z in zs:
        yield [z], "one"
    for which in ("canonical", "upper", "lower", "inverted-case"):
        yield zs, f"all-{which}"


# =================================================================================================
# RX : atoms that carry every field the xyz format does NOT store (isotope, label, stereo, geom, formal
#      charge / spin, attrib): the text must still read back with the count, elements and coordinates
# =================================================================================================
def gen_RX(seed, thorough):
    tr = triples(seed + 8, [v for v in CVALS if v == v])
    single = [
        (1, {"isotope": 2}),
        (1, {"isotope": 3}),
        (6, {"isotope": 13}),
        (6, {"isotope": 14}),
        (8, {"isotope": 18}),
        (6, {"label": "C13"}),
        (1, {"label": "D"}),
        (7, {"formal_charge": 1}),
        (8, {"formal_charge": -2}),
        (6, {"formal_spin": 1}),
        (6, {"stereo": int(AtomStereo.R)}),
        (15, {"geom": int(AtomGeom.R5_TrigonalBipyramidal)}),
        (6, {"attrib": {"k": "v", "n": 1}}),
    ]
    everything = {"isotope": 2, "label": "D1", "formal_charge": -1, "formal_spin": 1, "stereo": int(AtomStereo.S), "geom": int(AtomGeom.R1), "attrib": {"note": "x y"}}
    atypes = [REG, int(AtomType.Aromatic), DUMMY]
    items = [(z, REG, x) for z, x in single] + [(1, t, everything) for t in atypes] + [(6, REG, dict(everything, isotope=13))]
    for i, a in enumerate(rot(items, seed)):
        plain = (8, REG)
        yield gspec("rx", [list(a)], [[tr[i % len(tr)]]])
        yield gspec("rx", [list(plain), list(a)], [[tr[0], tr[(i + 1) % len(tr)]]])
        yield gspec("rx", [list(a), list(plain)], [[tr[1], tr[2]], [tr[3], tr[(i + 4) % len(tr)]]])


# =================================================================================================
# RV : VIEWS as written objects: Substructure over ascending / reversed / shuffled index lists, the
#      CartesianGeometry / Structure / Molecule copies of it, Conformer views and copies of them.
#      Line k of the written frame = (element, coordinates) of source.atoms[k] by the PARENT's own data
# =================================================================================================
RV_SOURCES = ["Substructure", "CartesianGeometry(sub)", "Structure(sub)", "Molecule(sub)", "Conformer", "Molecule(conformer)"]


def check_xyz_views(ctx, atoms, frames, idx, pedit=None):
    """atoms/frames: the parent (k frames; frame 0 for Substructure sources, every frame for the Conformer sources); idx: index list"""
    tmp = Path(ctx.scratch) / f"c08-{os.getpid()}-v.xyz"
    tmpw = Path(ctx.scratch) / f"c08-{os.getpid()}-vw.xyz"
    case = {"layer": "RV", "atoms": [list(a) for a in atoms], "frames": frames, "idx": list(idx), "pedit": pedit}
    ptag = "after[parent-edited]|" if pedit else ""
    order = "ascending" if list(idx) == sorted(idx) else ("reversed" if list(idx) == sorted(idx, reverse=True) else "shuffled")
    ctx.count(evaluations=1, states=1, traces=1)
    ctx.nontrivial(("RV", digest(case)))
    cells, wcells, detail = {}, {}, {}
    texts_all = []
    for src in RV_SOURCES:
        objs = []  # (object, expected pseudo-spec)
        if pedit and src in ("Conformer", "Molecule(conformer)"):
            continue
        try:
            if src in ("Conformer", "Molecule(conformer)"):
                ens, ref, _h = build(mkspec("E", "parent", atoms, frames))
                for ci in range(len(frames)):
                    o = ens[ci] if src == "Conformer" else Molecule(ens[ci])
                    objs.append((o, {"kind": "M", "atoms": [list(a) for a in atoms], "frames": [ref[ci]]}))
            else:
                parent, ref, _h = build(mkspec("S", "parent", atoms, frames[:1]))
                sub = parent.substructure(list(idx))
                if pedit:
                    # the PARENT is edited after the view was made; every member atom keeps its own coordinates
                    if pedit[0] == "del":
                        parent.del_atom(parent.atoms[pedit[1]])
                    else:
                        parent.add_atom(Atom(Element(17)), [9.5, -9.5, 0.5])
                o = {"Substructure": lambda: sub, "CartesianGeometry(sub)": lambda: CartesianGeometry(sub), "Structure(sub)": lambda: Structure(sub), "Molecule(sub)": lambda: Molecule(sub)}[src]()
                objs.append((o, {"kind": "S", "atoms": [list(atoms[i]) for i in idx], "frames": [[ref[0][i] for i in idx]]}))
        except UnderTestDeviation as e:
            wcells.setdefault("setup-" + e.symptom, set()).add((src, "-"))
            detail.setdefault("setup-" + e.symptom, e.detail)
            continue
        except Exception as e:
            if not raised_in_library(e):
                raise
            wcells.setdefault(f"setup-raised-{exc(e)}", set()).add((src, "-"))
            detail.setdefault(f"setup-raised-{exc(e)}", f"{src} over atoms {list(idx)}: {exc(e)}: {e}")
            continue
        for obj, espec in objs:
            texts = {}
            for w in WRITERS:
                ctx.count(transitions=1)
                try:
                    t = do_write(obj, w, tmpw)
                except Exception as e:
                    wcells.setdefault(f"write-raised-{exc(e)}", set()).add((src, w))
                    detail.setdefault(f"write-raised-{exc(e)}", f"{exc(e)}: {e}")
                    continue
                texts.setdefault(t, []).append(w)
            for text in sorted(texts):
                texts_all.append(text)
                tmp.write_text(text, encoding="utf-8", newline="")
                for r in XYZ_READERS:
                    ctx.count(transitions=1)
                    try:
                        res = do_read(r, text, tmp)
                    except Exception as e:
                        syms = [(f"read-raised-{exc(e)}", f"{exc(e)}: {e}")]
                    else:
                        syms = observe(espec, r, res, 1e-6)
                    for s_, d in syms:
                        for w in texts[text]:
                            cells.setdefault(s_, set()).add((src, w, r))
                        detail.setdefault(s_, d)
    ctx.outcome(("RV", digest(texts_all), tuple(sorted(cells)), tuple(sorted(wcells))))

    def sdesc(ss):
        ss = [x for x in RV_SOURCES if x in ss]
        if ss == RV_SOURCES:
            return "*"
        if ss == RV_SOURCES[:4]:
            return "Substructure-and-copies"
        if ss == RV_SOURCES[4:]:
            return "Conformer-and-copies"
        return ",".join(ss)

    for sym in sorted(wcells):
        for gs, gw in product_groups(wcells[sym], 2):
            ctx.violation(f"rt-view|{ptag}order={order}|{sym}|src={sdesc(gs)}|w={_desc([w for w in gw if w != '-'], WRITERS) or '-'}", f"{gs[0]} over atoms {list(idx)}: {detail[sym]}", case)
    for sym in sorted(cells):
        for gs, gw, gr in product_groups(cells[sym], 3):
            # the index order only matters for the Substructure family
            o = order if any(x in RV_SOURCES[:4] for x in gs) else "-"
            ctx.violation(
                f"rt-view|{ptag}order={o}|{sym}|src={sdesc(gs)}|w={_desc(gw, WRITERS)}|r={_desc(gr, XYZ_READERS)}",
                f"{gs[0]} over atoms {list(idx)} written by {gw[0]}, read by {gr[0]}: {detail[sym]}",
                case,
                repro=(
                    "import molli as ml, numpy as np\nfrom molli.chem import Atom, Element\n"
                    f"p = ml.Structure([Atom(Element(z)) for z in {[a[0] for a in atoms]!r}], coords=np.array({frames[0]!r}, dtype=float))\n"
                    f"sub = p.substructure({list(idx)!r}); print([a.element.name for a in sub.atoms]); print(sub.dumps_xyz()); print(ml.Structure(sub).dumps_xyz())"
                ),
            )


def gen_RV(seed, thorough):
    tr = triples(seed + 11, [v for v in CVALS if v == v])
    atoms = [(1, REG), (6, REG), (7, REG), (8, REG), (9, REG)]
    f0 = [[tr[i % len(tr)][0] + i, tr[i % len(tr)][1], tr[i % len(tr)][2] - i] for i in range(5)]
    f1 = [[p[1], p[2] + 2.0, p[0]] for p in f0[::-1]]
    lists = [[0, 1, 2, 3, 4], [4, 3, 2, 1, 0], [4, 1, 3], [1, 3, 4], [3, 1], [2], [2, 4, 0, 3, 1], [1, 2]]
    if thorough:
        lists += [list(p) for p in itertools.permutations(range(5), 3)]
    for idx in rot(lists, seed):
        yield atoms, [f0, f1], idx, None
    # history: the parent is edited AFTER the view was made (a non-member atom before / between / after the members is deleted, an atom is added)
    for idx in rot(lists[:8], seed):
        for x in [x for x in range(5) if x not in idx]:
            yield atoms, [f0, f1], idx, ["del", x]
        yield atoms, [f0, f1], idx, ["add"]


# =================================================================================================
# RH : multi-frame texts whose frames are DIFFERENT geometries (same or different atom count)
#      - per-stream state of the multi-frame reader must not leak from one frame into the next
# =================================================================================================
GEOM_CLASSES = ("CartesianGeometry", "Structure", "Molecule")
HET_ALL = [f"{c}.{f}" for c in GEOM_CLASSES for f in ("loads_all_xyz", "load_all_xyz[StringIO]", "load_all_xyz[path]", "yield_from_xyz")]
HET_FIRST = [f"{c}.{f}" for c in GEOM_CLASSES for f in ("loads_xyz", "load_xyz[StringIO]", "load_xyz[path]")]
HET_SOURCES = ["harness-formatter"] + [f"molli:{c}.dumps_xyz" for c in GEOM_CLASSES]
_CLAUSE = {"atom-count-changed": "atom-count", "element-changed": "elements", "atoms-reordered": "elements", "dummy-flag-wrong": "dummy-flags"}


def clause_of(sym):
    return _CLAUSE.get(sym, "coords" if sym.startswith("coords-") else sym)


def het_frame_symptoms(fr, g, from_harness):
    """one frame of the spec against one geometry that was read -> [(symptom, detail)]"""
    pseudo = {"atoms": fr["atoms"], "frames": [fr["xyz"]]}
    out = cmp_frame(pseudo, 0, g.atoms, g.coords, 1e-6)
    if from_harness and len(g.atoms) == len(fr["atoms"]):
        # the harness writes '*' for a dummy: the reader documents '*' -> AtomType.Dummy; any other symbol is a real atom
        for i, (z, t) in enumerate(fr["atoms"]):
            is_d = int(g.atoms[i].atype) == DUMMY
            if is_d != (t == DUMMY):
                out.append(("dummy-flag-wrong", f"atom {i}: written {'*' if t == DUMMY else Element(z).name!r}, read with atype {g.atoms[i].atype!r}"))
                break
    return out


def comment_class(c):
    """input class of a comment / name line"""
    if c.strip() == "":
        return "blank"
    if c != c.strip():
        return "padded"
    try:
        float(c)
        return "number-like"
    except ValueError:
        pass
    f = c.split()
    if len(f) == 4 and all(_isnum(x) for x in f[1:]):
        return "atom-line-like"
    return "long" if len(c) > 100 else "plain"


def _isnum(x):
    try:
        float(x)
        return True
    except ValueError:
        return False


def het_text(frames, source, comments=None, final_newline=True):
    if source == "harness-formatter":
        out = []
        for fi, fr in enumerate(frames):
            out.append(f"{len(fr['atoms'])}\n{comments[fi] if comments else f'frame {fi}'}\n")
            for (z, t), p in zip(fr["atoms"], fr["xyz"]):
                sym = "*" if t == DUMMY else Element(z).name
                out.append(f"{sym:<3} {p[0]:.6f} {p[1]:.6f} {p[2]:.6f}\n")
        text = "".join(out)
    else:
        cname = source.split(":")[1].split(".")[0]
        kind = {v: k for k, v in KINDNAME.items()}[cname]
        text = "".join(build(mkspec(kind, comments[fi] if comments else f"f{fi}", fr["atoms"], [fr["xyz"]]))[0].dumps_xyz() for fi, fr in enumerate(frames))
    if not final_newline and text.endswith("\n"):
        text = text[:-1]  # the last line of the file is not terminated
    return text


HET_PARSER = ["parsing.read_xyz"]
Z_OF_SYMBOL = None


class _Shim:
    def __init__(self, **kw):
        self.__dict__.update(kw)


def xyz_block_shim(b):
    """an XYZBlock of the public parser API as a geometry-like object for the oracle"""
    global Z_OF_SYMBOL
    if Z_OF_SYMBOL is None:
        Z_OF_SYMBOL = {v.lower(): k_ for k_, v in SYMBOL_OF.items()}
    atoms = [_Shim(element=(0 if a.symbol == "*" else Z_OF_SYMBOL.get(a.symbol.lower(), -1)), atype=(DUMMY if a.symbol == "*" else REG)) for a in b.atoms]
    return _Shim(atoms=atoms, coords=np.array([(a.x, a.y, a.z) for a in b.atoms], dtype=float).reshape(len(atoms), 3), n_ok=b.n_atoms == len(atoms), n=(b.n_atoms, len(atoms)))


def check_hetero(ctx, frames, comments=None, final_newline=True, _collect=False):
    """frames: [{"atoms": [[Z, atype]..], "xyz": [[x,y,z]..]}, ..] (1..k frames, each its own geometry);
    comments: the comment (= name) line of every frame (layer RC), else 'frame i'"""
    tmp = Path(ctx.scratch) / f"c08-{os.getpid()}-h.xyz"
    k = len(frames)
    case = {"layer": "RH", "frames": frames, "comments": comments, "final_newline": final_newline}
    ctag = ""
    if comments is not None:
        # input class = the unusual comment kinds present (a plain title next to them is not named; the line-end variant is in the case)
        ctag = "comment[" + ("+".join(sorted({comment_class(c) for c in comments} - {"plain"})) or "plain") + "]|"
    ctx.count(evaluations=1, states=1, traces=1)
    if comments is not None or any(frames[i]["atoms"] != frames[i - 1]["atoms"] for i in range(1, k)):
        ctx.nontrivial(("RH", digest((frames, comments, final_newline))))
    cells, detail = {}, {}

    def add(sym, src, r, d):
        cells.setdefault(sym, set()).add((src, r))
        detail.setdefault((sym, src, r), d)

    texts = []
    for src in HET_SOURCES:
        ctx.count(transitions=k if src != "harness-formatter" else 0)
        try:
            text = het_text(frames, src, comments, final_newline)
        except Exception as e:
            add(f"write-raised-{exc(e)}", src, "-", f"{exc(e)}: {e}")
            continue
        texts.append(text)
        harness = src == "harness-formatter"
        tmp.write_text(text, encoding="utf-8", newline="")
        for r in HET_ALL + HET_FIRST + HET_PARSER:
            ctx.count(transitions=1)
            try:
                if r in HET_PARSER:
                    from molli.parsing import read_xyz

                    res = [xyz_block_shim(b) for b in list(read_xyz(io.StringIO(text)))]  # consume FIRST, compare afterwards
                else:
                    res = do_read(r, text, tmp)
            except Exception as e:
                add(f"read-raised-{exc(e)}", src, r, f"{exc(e)}: {e}")
                continue
            cname = r.split(".")[0]
            if r in HET_FIRST:
                if not isinstance(res, RCLASS[cname]):
                    add("wrong-result-type", src, r, type(res).__name__)
                    continue
                sy = het_frame_symptoms(frames[0], res, harness)
                if sy:
                    later = [j for j in range(1, k) if frames[j] != frames[0] and not het_frame_symptoms(frames[j], res, harness)]
                    if later:
                        add("first-frame-reader-returned-a-later-frame", src, r, f"frame {later[0]} of {k} returned instead of frame 0")
                    else:
                        for s_, d in sy:
                            add(s_, src, r, d)
                continue
            if not isinstance(res, list) or (r not in HET_PARSER and any(not isinstance(g, RCLASS[cname]) for g in res)):
                add("wrong-result-type", src, r, type(res).__name__)
                continue
            if len(res) != k:
                add("frame-count-changed", src, r, f"{len(res)} geometries read, {k} frames written")
                continue
            if r in HET_PARSER and any(not g.n_ok for g in res):
                bad = next(g for g in res if not g.n_ok)
                add("block-n_atoms-disagrees-with-its-atom-list", src, r, f"n_atoms={bad.n[0]}, {bad.n[1]} atoms in the block kept from list(read_xyz(...))")
            for fi in range(k):
                sy = het_frame_symptoms(frames[fi], res[fi], harness)
                if not sy:
                    continue
                if r in HET_PARSER:
                    add("parser-block-content-differs-from-the-text", src, r, f"block {fi} of {k} kept from list(read_xyz(...)): " + "; ".join(d for _s, d in sy)[:300])
                    continue
                # which clauses hold for an EARLIER frame of the text but not for this one -> state leaked between frames
                mine = {clause_of(s_) for s_, _ in sy}
                leaked = set()
                for j in range(fi):
                    theirs = {clause_of(s_) for s_, _ in het_frame_symptoms(frames[j], res[fi], harness)}
                    if "atom-count" not in theirs:
                        leaked |= mine - theirs
                for s_, d in sy:
                    c = clause_of(s_)
                    if c in leaked:
                        add(f"frame-has-the-{c}-of-an-earlier-frame", src, r, f"frame {fi} of {k}: {d}")
                    else:
                        add(s_, src, r, f"frame {fi} of {k}: {d}")
    ctx.outcome(("RH", digest(texts), tuple(sorted(cells))))
    if _collect:
        return set(cells)
    base_syms = set()
    if comments is not None and cells:
        # which symptoms belong to the COMMENT alphabet?  the same frames with plain titles are read too;
        # what they show as well is reported without the comment tag
        base_syms = check_hetero(ctx, frames, None, True, _collect=True)

    def rdesc(rs):
        rs = set(rs)
        if rs == set(HET_ALL + HET_FIRST + HET_PARSER):
            return "*"
        if rs == set(HET_ALL + HET_PARSER):
            return "all-frame-readers"
        if rs == set(HET_ALL):
            return "object-level-all-frame-readers"
        if rs == set(HET_FIRST):
            return "first-frame-readers"
        return _desc(sorted(rs, key=(HET_ALL + HET_FIRST + HET_PARSER + ["-"]).index), HET_ALL + HET_FIRST + HET_PARSER)

    for sym in sorted(cells):
        for gs, gr in product_groups(cells[sym], 2):
            sd = "*" if set(gs) == set(HET_SOURCES) else ",".join(gs)
            ctx.violation(
                f"rt-hetero|{'' if sym in base_syms else ctag}{sym}|src={sd}|r={rdesc(gr)}",
                f"{k}-frame xyz text of different geometries ({gs[0]}), read by {gr[0]}: {detail[(sym, gs[0], gr[0])]}",
                case,
                repro=repro_hetero(frames, gr[0]),
            )


def repro_hetero(frames, r):
    text = het_text(frames, "harness-formatter")
    if "." not in r:  # a write-side finding: there is no reader in the cell
        r = "CartesianGeometry.loads_all_xyz"
    cname, fn = r.split(".", 1)
    base = fn.split("[")[0]
    arg = "text" if (base.startswith("loads")) else "io.StringIO(text)"
    return (
        "import io, molli as ml\n"
        f"text = {text!r}\n"
        f"r = ml.{cname}.{base}({arg})\n"
        "r = list(r) if not hasattr(r, 'atoms') else [r]\n"
        "for g in r: print([a.element.name for a in g.atoms], [a.atype.name for a in g.atoms], g.coords.tolist())"
    )


def het_alphabet(seed, thorough):
    """frames of EQUAL atom count with different element sequences / permutations / dummy positions, and
    pairwise different coordinates; by size"""
    H, C, N, O, X = (1, REG), (6, REG), (7, REG), (8, REG), (0, DUMMY)
    by_n = {
        1: [[H], [C], [X], [O]],
        2: [[H, C], [C, H], [X, H], [O, O]],
        3: [[H, C, N], [H, N, C], [N, C, H], [O, H, H], [X, C, N]] + ([[C, O, O], [H, O, H]] if thorough else []),
    }
    out = {}
    fid = 0
    for n in (1, 2, 3):
        out[n] = []
        for atoms in rot(by_n[n], seed):
            fid += 1
            xyz = [[fid * 1.5 + a * 0.25 + seed * 0.125, -(fid * 2.0) + a, 0.001 * fid * (a + 1)] for a in range(n)]
            out[n].append({"atoms": [list(a) for a in atoms], "xyz": xyz})
    return out


def gen_RH(seed, thorough):
    A = het_alphabet(seed, thorough)
    lengths = (2, 3, 4) if thorough else (2, 3)
    for n in (1, 2, 3):
        for L in lengths:
            if L == 4 and n == 3:
                continue
            for seq in itertools.product(range(len(A[n])), repeat=L):
                yield [A[n][i] for i in seq]
    # sizes mixed in one text (the count changes between some frames and not between others)
    mixed = [A[1][0], A[1][1], A[2][0], A[2][1], A[3][0], A[3][1]]
    for L in (2, 3):
        for seq in itertools.product(range(len(mixed)), repeat=L):
            if len({len(mixed[i]["atoms"]) for i in seq}) > 1:
                yield [mixed[i] for i in seq]


# =================================================================================================
def _part_inner(ctx, part):
    layer, i, nparts = part
    seed, thorough = ctx.seed, ctx.thorough
    if layer in R_LAYERS:
        for idx, g in enumerate(R_LAYERS[layer](seed, thorough)):
            if idx % nparts != i:
                continue
            check_geom(ctx, g)
            ctx.add_note(f"cases_{layer}")
            if idx == i and i < 2:
                ctx.sample({"layer": layer, "gspec": g})
        return
    if layer == "RV":
        for idx, (atoms, frames, ilist, pedit) in enumerate(gen_RV(seed, thorough)):
            if idx % nparts != i:
                continue
            check_xyz_views(ctx, atoms, frames, ilist, pedit)
            ctx.add_note("cases_RV")
        return
    if layer == "RS":
        for idx, (zs, mode) in enumerate(gen_RS(seed, thorough)):
            if idx % nparts != i:
                continue
            check_spellings(ctx, zs, mode)
            ctx.add_note("cases_RS")
        return
    if layer == "RX":
        for idx, g in enumerate(gen_RX(seed, thorough)):
            if idx % nparts != i:
                continue
            check_geom(ctx, g)
            ctx.add_note("cases_RX")
        return
    if layer == "RC":
        for idx, g in enumerate(gen_RC(seed, thorough)):
            if idx % nparts != i:
                continue
            check_geom(ctx, g, name_tag=True)
            ctx.add_note("cases_RC")
        return
    if layer == "RC2":
        for idx, (frames, comments, fnl) in enumerate(gen_RC2(seed, thorough)):
            if idx % nparts != i:
                continue
            check_hetero(ctx, frames, comments, fnl)
            ctx.add_note("cases_RC2")
        return
    if layer == "RW":
        for idx, (g, edit) in enumerate(gen_RW(seed, thorough)):
            if idx % nparts != i:
                continue
            check_geom(ctx, g, edit=edit)
            ctx.add_note("cases_RW")
        return
    if layer == "RF":
        for idx, (atoms, sframes) in enumerate(gen_RF(seed, thorough)):
            if idx % nparts != i:
                continue
            check_file(ctx, atoms, sframes)
            ctx.add_note("cases_RF")
        return
    if layer == "RH":
        for idx, frames in enumerate(gen_RH(seed, thorough)):
            if idx % nparts != i:
                continue
            check_hetero(ctx, frames)
            ctx.add_note("cases_RH")
            if idx == i and i < 1:
                ctx.sample({"layer": "RH", "frames": frames})
        return
    if layer == "UNITS":
        for idx, (fmt, atoms, frames) in enumerate(gen_units(seed, thorough)):
            if idx % nparts != i:
                continue
            check_units(ctx, fmt, atoms, frames)
            ctx.add_note("cases_UNITS")
            if idx == i and i < 2:
                ctx.sample({"layer": "UNITS", "fmt": fmt, "atoms": atoms, "frames_angstrom": frames, "units": unit_names()})
        return
    raise HarnessError(layer)


def _part(ctx, part):
    """a check may exit 2 only for its own bugs: an exception that escapes from the library through a path
    the harness did not anticipate is a finding about the library, not a harness error"""
    try:
        _part_inner(ctx, part)
    except HarnessError:
        raise
    except UnderTestDeviation as e:
        ctx.violation(f"setup|{part[0]}|{e.symptom}", e.detail, None)
    except Exception as e:
        if not raised_in_library(e):
            raise
        import traceback

        ctx.violation(f"unexpected-exception-in-the-library|{part[0]}|{exc(e)}", f"{exc(e)}: {e} :: " + traceback.format_exc()[-600:], None)


def run(ctx):
    thorough = ctx.thorough
    ctx.rule = (
        "bounded-exhaustive inputs: geometries of 0..3 atoms (thorough ..4) over all elements + dummy atoms, the stated coordinate alphabet "
        "(incl. NaN, negative, 1e7, half-way decimals), 1..3 frames, as CartesianGeometry/Structure/Molecule/ConformerEnsemble through every xyz "
        "writer entry x every xyz reader entry; plus every DistanceUnit member name x every xyz and mol2 reader entry on harness-formatted "
        "texts expressed in that unit with the harness's own constants. A case is non-trivial when it has >= 1 atom and a non-zero finite coordinate"
    )
    ctx.assumptions += [
        "written precision = the decimals of the format used (default '12.6f' -> 1e-6; explicit fmt='W.Df' -> 10^-D); |read - written| <= that",
        "NaN coordinates must read back as NaN",
        "names/comments are not part of the property (the reader names every geometry 'unnamed')",
        "dummy-ness of an atom is not required to survive xyz (only the element is); an Unknown/dummy atom is written with the symbol 'Unknown'",
        "loads_xyz/load_xyz of a multi-frame text return the first frame; loads_all/ConformerEnsemble return all frames in order",
        "unit check: |got - expected| <= 1e-5 * |expected| per coordinate (the library's Bohr constant 1.88973 has 6 digits); expected = file value x harness table (CODATA 2022 Bohr radius 0.529177210544 A; pm 0.01; nm 10; fm 1e-5)",
        "unit texts are written by the harness's own formatter with 10 decimals; the reference is the number as it stands in the file",
        "object -> text -> object is judged against what the constructed OBJECT holds (normally exactly the requested values); text -> object is judged "
        "against the numbers in the file: layer RF (6 written decimals, |read - file| <= 0.5e-6 + 4 ulp, every reader of every class) and layer UNITS "
        "(units that are exact powers of ten of the Angstrom: rel. 1e-9; Bohr/au: rel. 1e-5)",
        "layer RV: views as written objects - Substructure over ascending / reversed / shuffled index lists, CartesianGeometry/Structure/Molecule copies of it, Conformer views and "
        "Molecule(conformer): line k of the written frame is (element, coordinates) of source.atoms[k] by the parent's data",
        "generator-returning entry points (yield_from_xyz on every class, molli.parsing.read_xyz) are consumed with list() first and compared afterwards; a parser block must hold as many atoms as its n_atoms",
        "layer RS (foreign files): element symbols are matched case-insensitively - canonical 'Cl', upper 'CL', lower 'cl', inverted 'cL' and 'Unknown' in any case are the "
        "spellings the reference tree accepts for all 119 members of Element (measured when the layer was written); the expected element comes from the harness's own periodic "
        "table; NOT accepted by the reference tree and therefore not asserted: atomic numbers as text ('17'), element names ('Chlorine'), 'X', 'Du', 'D', 'T', symbols with an index ('C1'); "
        "'*' (dummy) is covered by layer RH",
        "layer RX: atoms carrying fields the xyz format does not store (isotope 2/3 on H, 13/14 on C, 18 on O, label, formal charge / spin, stereo, geom, attrib, non-regular atype) "
        "must still be written as a text that reads back with the same count, elements and coordinates",
        "layers RC/RC2 (comment line = name): comments '', ' ', TAB, padded, number-like ('3', '0'), atom-line-like ('C 0 0 0'), 300 characters, '#c' on every / the first / the "
        "last frame of single- and multi-frame texts incl. 0-atom frames (two in a row), written by molli (object names) and by the harness, with and without a terminated last line; "
        "frame count and content must be unchanged (the reader names every geometry 'unnamed': the comment itself is not compared); excluded because the reference tree's strict parser "
        "rejects them and molli never writes them: blank lines after the last frame, and a 0-atom last frame whose blank comment line is not terminated",
        "layer RW (write - edit in place - write): a geometry written once, whose atom's element or a coordinate is then edited in place, must be written "
        "according to its CURRENT state by every writer (no per-object memo of symbols / coordinates)",
        "layer RH (multi-frame texts of DIFFERENT geometries): texts come from the harness's formatter ('*' for a dummy) and from molli (each geometry "
        "dumped, texts concatenated); every frame must come back with its own count, order, elements, coordinates; '*' must read as AtomType.Dummy and a "
        "real symbol as a non-dummy (reader's documented convention) - checked on harness texts only, molli itself writes a dummy as 'Unknown'",
    ]
    ctx.bound.update(
        {
            "elements": len(Element),
            "max_atoms": 4 if thorough else 3,
            "max_frames": 3,
            "coordinate_values": [repr(v) for v in CVALS],
            "explicit_formats": FMTS,
            "writer_entries": WRITERS,
            "xyz_reader_entries": XYZ_READERS,
            "mol2_reader_entries": MOL2_READERS,
            "hetero_multi_frame_readers": HET_ALL + HET_FIRST,
            "hetero_text_sources": HET_SOURCES,
            "hetero_max_frames": 4 if thorough else 3,
            "unit_names": unit_names(),
            "angstrom_per_unit": ANGSTROM_PER,
        }
    )
    np_ = 16 if thorough else 8
    parts = []
    for layer in ("R0", "R4", "R3", "RF", "RW", "RC", "RC2", "RS", "RX", "RV", "RH", "UNITS", "R2", "R1"):
        n = 1 if layer == "R0" else np_ * (4 if (thorough and layer in ("R1", "R2")) else 1)
        parts += [(layer, i, n) for i in range(n)]
    ctx.pmap(_part, parts)


def replay(ctx, case):
    if case["layer"] == "RT":
        check_geom(ctx, normspec(case["gspec"]), kinds=case.get("kinds"), edit=case.get("edit"), name_tag=bool(case.get("name_tag")))
    elif case["layer"] == "RV":
        check_xyz_views(ctx, [(int(a[0]), int(a[1])) for a in case["atoms"]], [[[fl(c) for c in p] for p in f] for f in case["frames"]], [int(x) for x in case["idx"]], case.get("pedit"))
    elif case["layer"] == "RS":
        check_spellings(ctx, [int(z) for z in case["zs"]], case["mode"])
    elif case["layer"] == "RF":
        check_file(ctx, [(int(a[0]), int(a[1])) for a in case["atoms"]], case["sframes"])
    elif case["layer"] == "RH":
        check_hetero(
            ctx,
            [{"atoms": [[int(a[0]), int(a[1])] for a in fr["atoms"]], "xyz": [[fl(c) for c in p] for p in fr["xyz"]]} for fr in case["frames"]],
            case.get("comments"),
            case.get("final_newline", True),
        )
    elif case["layer"] == "UNITS":
        atoms = [(int(a[0]), int(a[1])) for a in case["atoms"]]
        frames = [[[fl(c) for c in p] for p in f] for f in case["frames"]]
        check_units(ctx, case["fmt"], atoms, frames)
    else:
        raise HarnessError(case["layer"])
