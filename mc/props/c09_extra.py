"""
C09 helper: two more dimensions of the matrix.

NAME cells - file-name shapes of path sources / targets (load, load_all, dump; fmt not given and given):
    multi-dot names (x.opt.xyz, conf.0001.xyz, x.v2.mol2), upper / mixed case suffixes, dots in directory
    names (with and without a suffix on the file), names starting with a dot ('.xyz', '.hidden.mol2'), a
    trailing dot, no suffix.  Documented rule (reader.py "Default format is deduced from the file
    suffix", writer.py "guessed from the extension"): with fmt=None the format is the suffix of the
    path - the part of the FILE name after its LAST dot, as pathlib defines it - and an explicit fmt wins.
    Expected: that format is supported -> the class method for it on the same path; otherwise ValueError.
    A suffix that differs from a supported format only by case may be refused (ValueError, what the
    documented case-sensitive table says) or read as that format - nothing else.

EXTENT cells - how much of a multi-record text an entry point parses: multi-record texts whose LATER
    record (2nd, 3rd, last) is damaged (short record, missing section, garbled count, garbled number) or
    that end in garbage, through load / loads (single structure) and load_all / loads_all, every otype,
    name given / not given.  Expected: exactly what the class method does with the same argument - the
    same structure(s) or the same exception class (Molecule.loads_xyz reads the first frame only and
    never sees a damaged third one; ConformerEnsemble.loads_xyz reads everything and raises).
"""
from __future__ import annotations

import io
import os
import shutil
from pathlib import Path, PurePosixPath

import molli as ml

from mc.props import c09 as M

NAME_FMTS = ("xyz", "mol2", "cdxml")
SHAPES = (
    ("multi-dot-a", "multi-dot"),
    ("multi-dot-b", "multi-dot"),
    ("multi-dot-c", "multi-dot"),
    ("upper-case", "case"),
    ("mixed-case", "case"),
    ("dotted-dir", "dotted-dir"),
    ("dotted-dir-no-suffix", "dotted-dir"),
    ("dotted-dir-multi", "dotted-dir"),
    ("dotfile-only", "dotfile"),
    ("hidden", "dotfile"),
    ("trailing-dot", "trailing-dot"),
    ("no-suffix", "no-suffix"),
)
SHAPECLASS = dict(SHAPES)


def shape_relpath(base, F, shape):
    other = {"xyz": "mol2", "mol2": "xyz", "cdxml": "mol2"}[F]
    return {
        "multi-dot-a": f"{base}.opt.{F}",
        "multi-dot-b": f"conf.0001.{F}",
        "multi-dot-c": f"{base}.v2.{F}",
        "upper-case": f"{base}.{F.upper()}",
        "mixed-case": f"{base}.{F.capitalize()}",
        "dotted-dir": f"run.v1.{other}/geom.{F}",
        "dotted-dir-no-suffix": f"data.{F}/geom",
        "dotted-dir-multi": f"a.b.c/x.y.{F}",
        "dotfile-only": f".{F}",
        "hidden": f".hidden.{F}",
        "trailing-dot": f"{base}.{F}.",
        "no-suffix": f"{base}",
    }[shape]


def name_cells(order):
    def rot(t):
        r = order % len(t)
        return t[r:] + t[:r]

    for func in rot(("load", "load_all", "dump")):
        for F in rot(NAME_FMTS):
            if func == "dump" and F == "cdxml":
                continue
            for shape, _ in rot(SHAPES):
                for kind in ("pathstr", "Path"):
                    for fmtmode in ("suffix", "explicit"):
                        if func == "dump":
                            for obj in ("Molecule", "ConformerEnsemble"):
                                for mode in M.MODES:
                                    yield {"op": "name", "func": func, "fmt": F, "shape": shape, "kind": kind, "fmtmode": fmtmode, "otype": obj, "mode": mode}
                        else:
                            for otype in ("molecule", "Structure", "ensemble"):
                                if otype == "ensemble" and func == "load_all":
                                    continue
                                yield {"op": "name", "func": func, "fmt": F, "shape": shape, "kind": kind, "fmtmode": fmtmode, "otype": otype}


def name_sig(cell, symptom):
    g = "|fmt-given" if cell["fmtmode"] == "explicit" else ""
    return f"{cell['func']}|{cell['fmt']}|path[{SHAPECLASS[cell['shape']]}]|{M.oclass(cell['otype'])}{g}:{symptom}"


def documented_format(path, explicit):
    """-> (format to use, alternative accepted because of letter case | None)"""
    if explicit is not None:
        return explicit, None
    sfx = PurePosixPath(str(path)).suffix[1:]
    return sfx, (sfx.lower() if sfx.lower() != sfx else None)


def run_name_cell(ctx, fam, cell, given):
    func, F, kind = cell["func"], cell["fmt"], cell["kind"]
    case = {"family": list(fam.spec), "cell": cell, "given": given}
    key = (fam.name, tuple(sorted((k, str(v)) for k, v in cell.items())))
    root = fam.dir / "names"
    if root.exists():
        shutil.rmtree(root)
    root.mkdir()
    p = root / shape_relpath(fam.name, F, cell["shape"])
    p.parent.mkdir(parents=True, exist_ok=True)
    arg = str(p) if kind == "pathstr" else Path(p)
    explicit = F if cell["fmtmode"] == "explicit" else None
    efmt, alt = documented_format(p, explicit)
    ctx.count(evaluations=1, traces=1)

    def viol(symptom, what):
        ctx.violation(name_sig(cell, symptom), f"ml.{func}({kind} '{shape_relpath('NAME', F, cell['shape'])}', fmt={'%r' % F if explicit else None}, {cell['otype']}): {what}", case)

    try:
        if func == "dump":
            return _name_dump(ctx, fam, cell, p, arg, explicit, efmt, alt, key, viol)
        p.write_text(fam.text[F])
        kw = {"otype": M.otype_arg(cell["otype"])}
        if explicit:
            got = M.outcome_of(lambda: getattr(ml, func)(arg, explicit, **kw))
        else:
            got = M.outcome_of(lambda: getattr(ml, func)(arg, **kw))
        ctx.count(transitions=1)
        ctx.outcome(("name", got[0], got[1] if got[0] == "exc" else M.digest(M.snap(got[1]))))

        def cls_outcome(fmt):
            cls = M.otype_cls(cell["otype"])
            if fmt == "cdxml":

                def thunk():
                    cdxf = ml.CDXMLFile(arg)
                    if func == "load":
                        return cls(cdxf._parse_fragment(cdxf.xfrags[0], name=None))
                    return [cls(cdxf._parse_fragment(fg, name=None)) for fg in cdxf.xfrags]

                return M.outcome_of(thunk)
            return M.outcome_of(lambda: getattr(cls, f"{func}_{fmt}")(arg))

        def agrees(fmt):
            exp = cls_outcome(fmt)
            ctx.count(transitions=1)
            if exp[0] == "exc":
                return got[0] == "exc" and got[1] == exp[1], exp
            return got[0] == "ok" and M.snap(got[1]) == M.snap(exp[1]), exp

        if efmt in M.FMT_SUPPORTED_READ:
            ok, exp = agrees(efmt)
            if not ok:
                sym = f"raised-{got[1]}" if got[0] == "exc" else "result-differs-from-class-method"
                viol(sym, f"{M.describe(got)}; the suffix rule gives {efmt!r} and the class method {M.describe(exp)}")
            elif exp[0] == "ok":
                ctx.nontrivial(key)
            return
        # not a supported format: ValueError - or, for a suffix that is a supported format in other
        # letter case, reading it as that format
        if got[0] == "exc" and isinstance(got[2], ValueError):
            return
        if alt in M.FMT_SUPPORTED_READ:
            ok, exp = agrees(alt)
            if ok:
                return
        if got[0] == "ok":
            viol("returned-instead-of-ValueError", f"{M.describe(got)}; the suffix rule gives {efmt!r}, which is not a supported format")
        else:
            viol(f"raised-{got[1]}", f"{M.describe(got)}; the suffix rule gives {efmt!r}: ValueError is documented")
    finally:
        shutil.rmtree(root, ignore_errors=True)


def _name_dump(ctx, fam, cell, p, arg, explicit, efmt, alt, key, viol):
    cls = {"Molecule": ml.Molecule, "ConformerEnsemble": ml.ConformerEnsemble}[cell["otype"]]
    try:
        obj = cls.load_mol2(fam.path["mol2"])
    except Exception:
        ctx.add_note("name_cells_skipped_object_not_loadable")
        return
    p.write_text(M.PREFIX)
    mode = cell["mode"]
    if explicit:
        got = M.outcome_of(lambda: ml.dump(obj, arg, explicit, mode=mode))
    else:
        got = M.outcome_of(lambda: ml.dump(obj, arg, mode=mode))
    ctx.count(transitions=1)
    ctx.outcome(("name-dump", got[0], got[1] if got[0] == "exc" else None))

    def text_for(fmt):
        buf = io.StringIO()
        e = M.outcome_of(lambda: getattr(obj, f"dump_{fmt}")(buf))
        ctx.count(transitions=1)
        return e, buf.getvalue()

    def agrees(fmt):
        e, text = text_for(fmt)
        if e[0] == "exc":
            return got[0] == "exc" and got[1] == e[1]
        return got[0] == "ok" and p.read_text() == (M.PREFIX if mode == "a" else "") + text

    if efmt in M.FMT_SUPPORTED_WRITE:
        if not agrees(efmt):
            sym = f"raised-{got[1]}" if got[0] == "exc" else "text-differs-from-class-method"
            viol(sym, f"{M.describe(got) if got[0] == 'exc' else 'wrote %d characters' % len(p.read_text())}; the suffix rule gives {efmt!r}")
        else:
            ctx.nontrivial(key)
        return
    if got[0] == "exc" and isinstance(got[2], ValueError):
        return
    if alt in M.FMT_SUPPORTED_WRITE and agrees(alt):
        return
    if got[0] == "ok":
        viol("returned-instead-of-ValueError", f"dump returned; the suffix rule gives {efmt!r}, which is not a supported format")
    else:
        viol(f"raised-{got[1]}", f"{M.describe(got)}; the suffix rule gives {efmt!r}: ValueError is documented")


# =================================================================================================
# EXTENT cells
# =================================================================================================
EXTENT_SOURCES = ("extent_mixed", "extent_confs")
POSITIONS = ("second", "third", "last")
XYZ_DAMAGE = ("short-record", "bad-count", "bad-number")
MOL2_DAMAGE = ("short-record", "missing-section", "bad-count", "bad-number")
TRAILING = ("trailing-garbage", "trailing-partial-header")


def variants():
    out = []
    for d in sorted(set(XYZ_DAMAGE) | set(MOL2_DAMAGE)):
        for pos in POSITIONS:
            out.append(f"{d}@{pos}")
    out += list(TRAILING)
    return out


def split_records(fmt, text):
    lines = text.splitlines(keepends=True)
    recs, cur = [], []
    if fmt == "mol2":
        for l in lines:
            if l.startswith("@<TRIPOS>MOLECULE") and any(x.startswith("@<TRIPOS>MOLECULE") for x in cur):
                recs.append(cur)
                cur = []
            cur.append(l)
        recs.append(cur)
        return recs
    i = 0
    while i < len(lines):
        n = int(lines[i].split()[0])
        recs.append(lines[i : i + n + 2])
        i += n + 2
    return recs


def damage(fmt, text, variant):
    """-> damaged text, or None when the variant does not apply to the format"""
    if variant == "trailing-garbage":
        return text + "this line is not part of the format\n"
    if variant == "trailing-partial-header":
        return text + ("@<TRIPOS>MOLECULE\nunfinished\n" if fmt == "mol2" else "5\n")
    kind, pos = variant.split("@")
    if kind not in (XYZ_DAMAGE if fmt == "xyz" else MOL2_DAMAGE):
        return None
    recs = [list(r) for r in split_records(fmt, text)]
    k = {"second": 1, "third": 2, "last": len(recs) - 1}[pos]
    r = recs[k]
    if fmt == "xyz":
        if kind == "short-record":
            del r[-1]
        elif kind == "bad-count":
            r[0] = "x" + r[0]
        else:
            t = r[2].split()
            r[2] = f"{t[0]} {t[1]} 1.2x5 {t[3]}\n"
    else:
        ia = next(i for i, l in enumerate(r) if l.startswith("@<TRIPOS>ATOM"))
        ib = next(i for i, l in enumerate(r) if l.startswith("@<TRIPOS>BOND"))
        im = next(i for i, l in enumerate(r) if l.startswith("@<TRIPOS>MOLECULE"))
        if kind == "short-record":
            last = max(i for i, l in enumerate(r) if i > ib and l.strip() and not l.startswith(("#", "@")))
            del r[last]
        elif kind == "missing-section":
            del r[ib]
        elif kind == "bad-count":
            r[im + 2] = "x" + r[im + 2]
        else:
            t = r[ia + 1].split()
            t[3] = "1.2x5"
            r[ia + 1] = " ".join(t) + "\n"
    return "".join("".join(x) for x in recs)


class ExtentFamily:
    """what run_reader_cell needs from a family, holding one damaged multi-record text per format"""

    def __init__(self, ctx, source, variant):
        self.spec = (source, None, None, "substituents.cdxml")
        self.name = source
        self.variant = variant
        self.dir = Path(ctx.scratch) / f"extent-{source}-{variant.replace('@', '-at-')}-{os.getpid()}"
        if self.dir.exists():
            shutil.rmtree(self.dir)
        self.dir.mkdir(parents=True)
        if source == "extent_mixed":
            mols = [ml.Molecule.load_mol2(M.FILES / f) for f in ("dummy.mol2", "dmf.mol2", "benzene.mol2", "propyne.mol2")]
            good = {"mol2": "".join(m.dumps_mol2() for m in mols), "xyz": "".join(m.dumps_xyz() for m in mols)}
        else:
            good = {"mol2": (M.FILES / "pentane_confs.mol2").read_text(), "xyz": (M.FILES / "pentane_confs.xyz").read_text()}
        self.text, self.path = {}, {}
        for fmt in ("xyz", "mol2"):
            t = damage(fmt, good[fmt], variant)
            if t is None:
                continue
            self.text[fmt] = t
            self.path[fmt] = self.dir / f"{source}.{fmt}"
            self.path[fmt].write_text(t)

    def source(self, kind, fmt, suffix="agree"):
        if kind == "pathstr":
            return str(self.path[fmt]), None
        if kind == "Path":
            return Path(self.path[fmt]), None
        return self.text[fmt], None

    def cleanup(self):
        shutil.rmtree(self.dir, ignore_errors=True)


def extent_cells(order):
    def rot(t):
        r = order % len(t)
        return t[r:] + t[:r]

    for variant in variants():
        for func in rot(M.READERS):
            kinds = ("pathstr", "Path") if func in ("load", "load_all") else ("str",)
            for fmt in ("xyz", "mol2"):
                for kind in kinds:
                    for otype in rot(M.OTYPES):
                        for nm in ("none", "given"):
                            yield {"op": "read", "func": func, "fmt": fmt, "fmtmode": "explicit", "kind": kind, "suffix": "agree", "otype": otype, "name": nm, "parser": "molli", "variant": variant}


def run_extent(ctx, source, given):
    n = 0
    fams = {}
    try:
        for cell in extent_cells(ctx.seed):
            v = cell["variant"]
            if v not in fams:
                fams[v] = ExtentFamily(ctx, source, v)
            fam = fams[v]
            if cell["fmt"] not in fam.text:
                continue
            M.run_reader_cell(ctx, fam, cell, given)
            n += 1
    finally:
        for f in fams.values():
            f.cleanup()
    ctx.count(states=n)
    return n


# =================================================================================================
# OPTION cells - keyword options of the writers (dump / dumps take **kwargs and hand them to the codec)
# =================================================================================================
import inspect  # noqa: E402

OPTION_TARGETS = ("str", "stringio", "stream", "pathstr", "Path")
UNKNOWN_OPTION = {"no_such_codec_option": 1}


def option_sets(obj, method_name):
    """{} is the matrix itself; here: every parameter the class method takes beyond the stream with every
    non-default value of its type, all of them together, and one keyword it does not know"""
    meth = getattr(obj, method_name)
    sets = []
    allopts = {}
    for pname, par in inspect.signature(meth).parameters.items():
        if pname in ("self", "stream", "output") or par.kind in (par.VAR_KEYWORD, par.VAR_POSITIONAL):
            continue
        d = par.default
        if isinstance(d, bool):
            vals = [not d]
        elif isinstance(d, str):
            vals = ["10.3f", "16.8e"] if "f" in d or "e" in d else [d + "_x"]
        elif isinstance(d, int):
            vals = [d + 1]
        elif isinstance(d, float):
            vals = [d * 2 + 1]
        else:
            continue
        for v in vals:
            sets.append({pname: v})
        allopts[pname] = vals[0]
    if len(allopts) > 1:
        sets.append(dict(allopts))
    return sets


def option_cells(order):
    def rot(t):
        r = order % len(t)
        return t[r:] + t[:r]

    for fmt in rot(("xyz", "mol2")):
        for obj in rot(M.OBJKINDS):
            for target in rot(OPTION_TARGETS):
                for mode in M.MODES if target in ("pathstr", "Path") else ("a",):
                    yield {"op": "options", "func": "dumps" if target == "str" else "dump", "fmt": fmt, "kind": target, "otype": obj, "mode": mode}


def _codec_options(fmt, objkind):
    """the union of the options any class method of this format knows (so that an option dump_xyz takes
    and dumps_xyz does not is also tried on dumps, where the class method answers with TypeError)"""
    out = []
    cls = {"Molecule": ml.Molecule, "Structure": ml.Structure, "ConformerEnsemble": ml.ConformerEnsemble}[objkind]
    for c in (cls, ml.Molecule):
        for mname in (f"dump_{fmt}", f"dumps_{fmt}"):
            for o in option_sets(c, mname):
                if o not in out:
                    out.append(o)
    return out + [dict(UNKNOWN_OPTION)]


def run_option_cell(ctx, fam, cell, given):
    func, fmt, kind = cell["func"], cell["fmt"], cell["kind"]
    obj = M.make_object(fam, cell["otype"], "none", given)
    if obj is None:
        ctx.add_note("option_cells_skipped_object_not_loadable")
        return
    # a codec option whose name is a parameter of the entry point itself (dump_xyz(fmt=...) is a number
    # format, ml.dump(fmt=...) the file format) cannot be expressed through the entry point at all
    own = set(inspect.signature(getattr(ml, func)).parameters)
    for opts in _codec_options(fmt, cell["otype"]):
        if own & set(opts):
            ctx.add_note("option_sets_not_expressible_(name_taken_by_the_entry_point)")
            continue
        _one_option(ctx, fam, cell, given, obj, opts)


def _one_option(ctx, fam, cell, given, obj, opts):
    func, fmt, kind = cell["func"], cell["fmt"], cell["kind"]
    case = {"family": list(fam.spec), "cell": dict(cell, options=opts), "given": given}
    key = (fam.name, tuple(sorted((k, str(v)) for k, v in cell.items())), tuple(sorted(opts.items())))
    oname = "+".join(sorted(opts))

    def viol(symptom, what):
        ctx.violation(f"{func}|{fmt}|{M.kindclass(kind)}|{M.oclass(cell['otype'])}|options={oname}:{symptom}", f"ml.{func}({cell['otype']} -> {kind}, {fmt!r}, **{opts}): {what}", case)

    ctx.count(evaluations=1, transitions=2, traces=1, states=1)
    if func == "dumps":
        exp = M.outcome_of(lambda: getattr(obj, f"dumps_{fmt}")(**opts))
        got = M.outcome_of(lambda: ml.dumps(obj, fmt, **opts))
        content = got[1] if got[0] == "ok" else None
        want = exp[1] if exp[0] == "ok" else None
    else:
        buf = io.StringIO()
        exp = M.outcome_of(lambda: getattr(obj, f"dump_{fmt}")(buf, **opts))
        want = None
        root = fam.dir / "options"
        root.mkdir(exist_ok=True)
        p = root / f"target.{fmt}"
        p.write_text(M.PREFIX)
        stream = None
        if kind == "stringio":
            stream = target = io.StringIO()
            stream.write(M.PREFIX)
        elif kind == "stream":
            stream = target = open(p, "a")
        else:
            target = str(p) if kind == "pathstr" else Path(p)
        try:
            got = M.outcome_of(lambda: ml.dump(obj, target, fmt, mode=cell["mode"], **opts))
            if exp[0] == "ok":
                want = (M.PREFIX if (stream is not None or cell["mode"] == "a") else "") + buf.getvalue()
            content = None
            if got[0] == "ok":
                if kind == "stringio":
                    content = stream.getvalue()
                else:
                    if stream is not None:
                        stream.flush()
                    content = p.read_text()
        finally:
            if stream is not None and not stream.closed:
                stream.close()
    ctx.outcome(("options", oname, got[0], got[1] if got[0] == "exc" else None))
    if exp[0] == "exc":
        if got[0] == "ok":
            viol(f"returned-but-class-method-raised-{exp[1]}", f"the option was accepted; obj.{func}_{fmt}(**options) {M.describe(exp)}")
        elif got[1] != exp[1]:
            viol(f"raised-{got[1]}", f"{M.describe(got)}; obj.{func}_{fmt}(**options) {M.describe(exp)}")
        return
    if got[0] == "exc":
        viol(f"raised-{got[1]}", f"{M.describe(got)}; obj.{func}_{fmt}(**options) works")
        return
    ctx.nontrivial(key)
    if content != want:
        viol("text-differs-from-class-method", f"{len(content or '')} characters written / returned; obj.{func}_{fmt}(**options) gives {len(want or '')} (the option was not handed to the codec?)")


# =================================================================================================
# KEY cells - cdxml retrieval by key
# =================================================================================================
import xml.etree.ElementTree as _et  # noqa: E402


def reordered_cdxml(src, dst):
    """the same drawing with the fragments of every page stored in reverse order: the first label no
    longer belongs to the first fragment of the file"""
    tree = _et.parse(src)
    for page in tree.getroot().findall("page"):
        kids = list(page)
        idx = [i for i, ch in enumerate(kids) if ch.tag == "fragment"]
        frs = [kids[i] for i in idx]
        for i, fr in zip(idx, reversed(frs)):
            kids[i] = fr
        for ch in list(page):
            page.remove(ch)
        for ch in kids:
            page.append(ch)
    tree.write(dst)


def key_class(k, n):
    if isinstance(k, str):
        return "empty-string" if k == "" else "label"
    if k == 0:
        return "int-0"
    if k < 0:
        return "int-negative"
    return "int-positive" if k < n else "int-out-of-range"


def run_key_cells(ctx, fam, given):
    """ml.load(path, 'cdxml', key=K) for every label, every integer position (0, -1 and one past the end
    included) and '' - on the family's drawing and on a re-ordered copy of it; expected: otype(CDXMLFile(path)[K])
    or the same exception class.  (key=None is the matrix itself.)"""
    root = fam.dir / "keys"
    root.mkdir(exist_ok=True)
    files = [("as-drawn", fam.path["cdxml"])]
    try:
        reordered_cdxml(fam.path["cdxml"], root / "reordered.cdxml")
        files.append(("reordered", root / "reordered.cdxml"))
    except Exception:
        ctx.add_note("key_cells_reordered_file_not_generated")
    n = 0
    for variant, p in files:
        labels = list(ml.CDXMLFile(p).keys())
        keys = list(labels) + list(range(len(labels))) + [-1, len(labels), ""]
        if not labels:
            keys = [0, -1, "", "no-such-label"]
        for K in keys:
            for kind in ("pathstr", "Path"):
                for otype in ("molecule", "Structure", "ensemble"):
                    cell = {"op": "key", "func": "load", "fmt": "cdxml", "kind": kind, "otype": otype, "file": variant, "key": K}
                    _one_key(ctx, fam, cell, p, len(labels))
                    n += 1
    ctx.count(states=n)


def _one_key(ctx, fam, cell, p, nlabels):
    K, kind = cell["key"], cell["kind"]
    arg = str(p) if kind == "pathstr" else Path(p)
    cls = M.otype_cls(cell["otype"])
    case = {"family": list(fam.spec), "cell": cell, "given": None}
    exp = M.outcome_of(lambda: cls(ml.CDXMLFile(arg)[K]))
    got = M.outcome_of(lambda: ml.load(arg, "cdxml", key=K, otype=M.otype_arg(cell["otype"])))
    ctx.count(evaluations=1, transitions=2, traces=1)
    ctx.outcome(("key", got[0], got[1] if got[0] == "exc" else M.digest(M.snap(got[1]))))
    sig = f"load|cdxml|{M.kindclass(kind)}|{M.oclass(cell['otype'])}|key={key_class(K, nlabels)}"
    what = f"ml.load({kind} [{cell['file']}], 'cdxml', key={K!r}, otype={cell['otype']})"
    if exp[0] == "exc":
        if got[0] == "ok":
            ctx.violation(f"{sig}:returned-but-CDXMLFile-raised-{exp[1]}", f"{what}: {M.describe(got)}; CDXMLFile(path)[key] {M.describe(exp)}", case)
        elif got[1] != exp[1]:
            ctx.violation(f"{sig}:raised-{got[1]}", f"{what}: {M.describe(got)}; CDXMLFile(path)[key] {M.describe(exp)}", case)
        return
    if got[0] == "exc":
        ctx.violation(f"{sig}:raised-{got[1]}", f"{what}: {M.describe(got)}; CDXMLFile(path)[key] {M.describe(exp)}", case)
        return
    ctx.nontrivial((fam.name, cell["file"], repr(K), kind, cell["otype"]))
    if M.snap(got[1]) != M.snap(exp[1]):
        ctx.violation(f"{sig}:result-differs-from-CDXMLFile-item", f"{what}: {M.describe(got)}; CDXMLFile(path)[key] {M.describe(exp)}", case)


def replay_key(ctx, fam, cell):
    root = fam.dir / "keys"
    root.mkdir(exist_ok=True)
    p = fam.path["cdxml"]
    if cell["file"] == "reordered":
        reordered_cdxml(fam.path["cdxml"], root / "reordered.cdxml")
        p = root / "reordered.cdxml"
    _one_key(ctx, fam, cell, p, len(list(ml.CDXMLFile(p).keys())))


# =================================================================================================
# STREAM-KIND cells - what counts as "a stream" / "a path"
# =================================================================================================
import codecs  # noqa: E402
import tempfile  # noqa: E402


class DuckWriter:
    """the least a text sink has to be for the class-level codecs: write()"""

    def __init__(self):
        self.chunks = []

    def write(self, s):
        self.chunks.append(s)
        return len(s)


class Tee:
    def __init__(self):
        self.a, self.b = io.StringIO(), io.StringIO()

    def write(self, s):
        self.a.write(s)
        return self.b.write(s)


class FsPath:
    """os.PathLike that is neither str nor pathlib.Path"""

    def __init__(self, p):
        self.p = str(p)

    def __fspath__(self):
        return self.p


class DuckReader:
    """what the class-level loaders use of a stream: iteration and the context manager protocol"""

    def __init__(self, text):
        self.it = iter(text.splitlines(keepends=True))

    def __iter__(self):
        return self

    def __next__(self):
        return next(self.it)

    def __enter__(self):
        return self

    def __exit__(self, *a):
        return False


WRITE_KINDS = ("StringIO", "file-w", "file-a", "file-r+", "NamedTemporaryFile-w+", "codecs.open-w", "duck-writer", "tee", "PathLike", "bytes-path")
READ_KINDS = ("StringIO", "file", "duck-reader", "codecs.open-r", "PathLike", "bytes-path")


def make_sink(kind, d, tag):
    """-> (target, read_back, close); every call makes a fresh, equally prepared target"""
    p = Path(d) / f"sink-{tag}.txt"
    p.write_text(M.PREFIX)
    if kind == "StringIO":
        s = io.StringIO()
        return s, s.getvalue, s.close
    if kind in ("file-w", "file-a", "file-r+"):
        f = open(p, kind.split("-")[1])
        return f, lambda: (f.flush(), p.read_text())[1], f.close
    if kind == "NamedTemporaryFile-w+":
        f = tempfile.NamedTemporaryFile("w+", dir=d)
        return f, lambda: (f.flush(), f.seek(0), f.read())[2], f.close
    if kind == "codecs.open-w":
        f = codecs.open(str(p), "w", "utf-8")
        return f, lambda: (f.flush(), p.read_text())[1], f.close
    if kind == "duck-writer":
        w = DuckWriter()
        return w, lambda: "".join(w.chunks), lambda: None
    if kind == "tee":
        t = Tee()
        return t, lambda: t.a.getvalue() + "\x00" + t.b.getvalue(), lambda: None
    if kind == "PathLike":
        return FsPath(p), p.read_text, lambda: None
    if kind == "bytes-path":
        return os.fsencode(str(p)), p.read_text, lambda: None
    raise ValueError(kind)


def stream_cells(order):
    def rot(t):
        r = order % len(t)
        return t[r:] + t[:r]

    for fmt in rot(("xyz", "mol2")):
        for obj in rot(M.OBJKINDS):
            for kind in rot(WRITE_KINDS):
                yield {"op": "stream-kind", "func": "dump", "fmt": fmt, "kind": kind, "otype": obj}
        for func in ("load", "load_all"):
            for otype in ("molecule", "Structure", "ensemble"):
                if func == "load_all" and otype == "ensemble":
                    continue
                for kind in rot(READ_KINDS):
                    yield {"op": "stream-kind", "func": func, "fmt": fmt, "kind": kind, "otype": otype}


def run_stream_cell(ctx, fam, cell, given):
    func, fmt, kind = cell["func"], cell["fmt"], cell["kind"]
    case = {"family": list(fam.spec), "cell": cell, "given": given}
    key = (fam.name, tuple(sorted((k, str(v)) for k, v in cell.items())))
    d = fam.dir / "streams"
    d.mkdir(exist_ok=True)
    sig = f"{func}|{fmt}|{'path' if kind in ('PathLike', 'bytes-path') else 'stream'}[{kind}]|{M.oclass(cell['otype'])}"
    ctx.count(evaluations=1, transitions=2, traces=1, states=1)

    def viol(symptom, what):
        ctx.violation(f"{sig}:{symptom}", f"ml.{func}({cell['otype']}, {kind}, {fmt!r}): {what}", case)

    if func == "dump":
        obj = M.make_object(fam, cell["otype"], "none", given)
        if obj is None:
            ctx.add_note("stream_cells_skipped_object_not_loadable")
            return
        t1, read1, close1 = make_sink(kind, d, "class")
        t2, read2, close2 = make_sink(kind, d, "entry")
        try:
            exp = M.outcome_of(lambda: getattr(obj, f"dump_{fmt}")(t1))
            got = M.outcome_of(lambda: ml.dump(obj, t2, fmt))
            ctx.outcome(("stream-kind", kind, got[0], got[1] if got[0] == "exc" else None))
            if kind in ("PathLike", "bytes-path"):
                # not a documented target kind (str | Path | IO): refused like the class method refuses
                # it, or written to as a path - nothing else
                if got[0] == "exc":
                    if exp[0] != "exc" or got[1] != exp[1]:
                        viol(f"raised-{got[1]}", f"{M.describe(got)}; the class method {M.describe(exp)}")
                    return
                buf = io.StringIO()
                getattr(obj, f"dump_{fmt}")(buf)
                if read2() != M.PREFIX + buf.getvalue():
                    viol("accepted-as-a-path-but-text-differs", "the file does not hold prefix + obj.dump text")
                return
            if exp[0] == "exc":
                if got[0] == "ok":
                    viol(f"returned-but-class-method-raised-{exp[1]}", f"obj.dump_{fmt}(target) {M.describe(exp)}")
                elif got[1] != exp[1]:
                    viol(f"raised-{got[1]}", f"{M.describe(got)}; obj.dump_{fmt}(target) {M.describe(exp)}")
                return
            if got[0] == "exc":
                viol(f"raised-{got[1]}", f"{M.describe(got)}; obj.dump_{fmt}(target) wrote {len(read1())} characters into the same kind of target")
                return
            ctx.nontrivial(key)
            try:
                a, b = read1(), read2()
            except Exception as e:  # noqa: BLE001
                viol("target-not-readable-after-dump", f"{type(e).__name__}: {e}")
                return
            if a != b:
                viol("text-differs-from-class-method", f"the target holds {len(b)} characters, after obj.dump_{fmt}(target) {len(a)}")
        finally:
            for c in (close1, close2):
                try:
                    c()
                except Exception:
                    pass
        return

    # ---- load side: every one of these is outside the documented signature (path: str | Path) -----
    text = fam.text[fmt]
    p = fam.path[fmt]

    def source():
        if kind == "StringIO":
            return io.StringIO(text)
        if kind == "file":
            return open(p, "rt")
        if kind == "duck-reader":
            return DuckReader(text)
        if kind == "codecs.open-r":
            return codecs.open(str(p), "r", "utf-8")
        if kind == "PathLike":
            return FsPath(p)
        return os.fsencode(str(p))

    cls = M.otype_cls(cell["otype"])
    meth = getattr(cls, f"{func}_{fmt}")
    s1, s2 = source(), source()
    try:
        exp = M.outcome_of(lambda: meth(s1))
        got = M.outcome_of(lambda: getattr(ml, func)(s2, fmt, otype=M.otype_arg(cell["otype"])))
    finally:
        for s in (s1, s2):
            try:
                s.close()
            except Exception:
                pass
    ctx.outcome(("stream-kind", kind, got[0], got[1] if got[0] == "exc" else M.digest(M.snap(got[1]))))
    if got[0] == "exc":
        return  # an argument of an undocumented kind may be refused
    alts = [exp]
    if kind in ("PathLike", "bytes-path"):
        alts.append(M.outcome_of(lambda: meth(Path(os.fsdecode(os.fspath(source()))))))
    if not any(e[0] == "ok" and M.snap(e[1]) == M.snap(got[1]) for e in alts):
        viol("undocumented-source-kind-returned-something-else", f"{M.describe(got)}; the class method {M.describe(exp)}")
    else:
        ctx.nontrivial(key)


# =================================================================================================
# ENCODING cells - the same content by path, as text and through an open utf-8 stream
# =================================================================================================
def run_encoding_cells(ctx, fam, given):
    """ml.load(path) / ml.load_all(path) against ml.loads(text) / ml.loads_all(text) of the same content and
    against the class method on a stream opened with encoding='utf-8' - three ways to the same bytes"""
    tag = getattr(fam, "sigtag", "")
    n = 0
    for fpath, ftext in (("load", "loads"), ("load_all", "loads_all")):
        for fmt in ("xyz", "mol2"):
            for otype in ("molecule", "Structure", "ensemble"):
                if otype == "ensemble" and fpath == "load_all":
                    continue
                for kind in ("pathstr", "Path"):
                    cell = {"op": "encoding", "func": fpath, "fmt": fmt, "kind": kind, "otype": otype}
                    _one_encoding(ctx, fam, cell, ftext, tag)
                    n += 1
    ctx.count(states=n)


def _one_encoding(ctx, fam, cell, ftext, tag):
    fpath, fmt, otype = cell["func"], cell["fmt"], cell["otype"]
    p = fam.path[fmt]
    arg = str(p) if cell["kind"] == "pathstr" else Path(p)
    case = {"family": list(fam.spec), "cell": cell, "given": None}
    oa = M.otype_arg(otype)
    by_path = M.outcome_of(lambda: getattr(ml, fpath)(arg, fmt, otype=oa))
    by_text = M.outcome_of(lambda: getattr(ml, ftext)(fam.text[fmt], fmt, otype=oa))

    def by_stream_thunk():
        with open(p, "rt", encoding="utf-8") as f:
            return getattr(M.otype_cls(otype), f"{fpath}_{fmt}")(f)

    by_stream = M.outcome_of(by_stream_thunk)
    ctx.count(evaluations=1, transitions=3, traces=1)
    ctx.outcome(("encoding", by_path[0], by_path[1] if by_path[0] == "exc" else M.digest(M.snap(by_path[1]))))

    def same(a, b):
        if a[0] != b[0]:
            return False
        return a[1] == b[1] if a[0] == "exc" else M.snap(a[1]) == M.snap(b[1])

    base = f"{fpath}|{fmt}|path|{M.oclass(otype)}{tag}"
    if not same(by_path, by_stream):
        ctx.violation(f"{base}:differs-from-class-method-on-utf8-stream", f"ml.{fpath}({cell['kind']}, {fmt!r}, otype={otype}): {M.describe(by_path)}; {otype}.{fpath}_{fmt}(open(path, encoding='utf-8')) {M.describe(by_stream)}", case)
    elif not same(by_path, by_text):
        ctx.violation(f"{base}:differs-from-{ftext}-of-the-same-content", f"ml.{fpath}(path): {M.describe(by_path)}; ml.{ftext}(text): {M.describe(by_text)}", case)
    elif by_path[0] == "ok":
        ctx.nontrivial((fam.name, tuple(sorted((k, str(v)) for k, v in cell.items()))))


# =================================================================================================
# SPELLING cells - name-valued arguments in lower / Capitalised / UPPER case
# =================================================================================================
def _spellings(s):
    out = []
    for v in (s.capitalize(), s.upper(), s.title()):
        if v != s and v not in out:
            out.append(v)
    return out


def run_spelling_cells(ctx, fam, given):
    """writer= / parser= names are matched case-insensitively by every entry point (reader.py and writer.py
    lower() them): the call with 'Molli' / 'MOLLI' / 'OpenBabel' / 'OBABEL' ... has the outcome of the
    all-lower-case call, on dump (stream, path), dumps, load, loads, load_all, loads_all.  fmt and the otype
    strings are matched as they are: another spelling gives the lower-case result or is refused."""
    tag = getattr(fam, "sigtag", "")
    n = 0

    def same(a, b):
        if a[0] != b[0]:
            return False
        if a[0] == "exc":
            return a[1] == b[1]
        x, y = a[1], b[1]
        return x == y if isinstance(x, str) or x is None else M.snap(x) == M.snap(y)

    def check(func, arg, what, lower_thunk, thunk, strict, case, sigbase):
        nonlocal n
        n += 1
        exp = M.outcome_of(lower_thunk)
        got = M.outcome_of(thunk)
        ctx.count(evaluations=1, transitions=2, traces=1)
        ctx.outcome(("spelling", func, arg, got[0], got[1] if got[0] == "exc" else None))
        if same(exp, got):
            if got[0] == "ok":
                ctx.nontrivial((fam.name, func, what))
            return
        if not strict and got[0] == "exc":
            return  # fmt / otype are matched literally: another spelling may be refused
        sym = f"raised-{got[1]}" if got[0] == "exc" else "differs-from-lower-case-call"
        ctx.violation(f"{sigbase}:{sym}", f"{what}: {M.describe(got) if got[0] == 'exc' or not isinstance(got[1], (str, type(None))) else 'returned'}; the all-lower-case call {M.describe(exp) if exp[0] == 'exc' or not isinstance(exp[1], (str, type(None))) else 'returned'}", case)

    objs = {k: M.make_object(fam, k, "none", given) for k in ("Molecule", "ConformerEnsemble")}
    d = fam.dir / "spelling"
    d.mkdir(exist_ok=True)
    for fmt in ("xyz", "mol2"):
        # ---- writers ----
        for okind, obj in objs.items():
            if obj is None:
                continue
            for wname in ("molli", "openbabel", "obabel"):
                for sp in _spellings(wname):
                    base = {"op": "spelling", "fmt": fmt, "otype": okind, "arg": "writer", "lower": wname, "spelled": sp}
                    case = lambda func, kind: {"family": list(fam.spec), "cell": dict(base, func=func, kind=kind), "given": given}  # noqa: E731
                    check("dumps", "writer", f"ml.dumps({okind}, {fmt!r}, writer={sp!r})", lambda: ml.dumps(obj, fmt, writer=wname), lambda: ml.dumps(obj, fmt, writer=sp), True, case("dumps", "str"), f"dumps|{fmt}|str|{M.oclass(okind)}|writer-spelling{tag}")

                    def to_stream(w):
                        s = io.StringIO()
                        ml.dump(obj, s, fmt, writer=w)
                        return s.getvalue()

                    check("dump", "writer", f"ml.dump({okind}, StringIO, {fmt!r}, writer={sp!r})", lambda: to_stream(wname), lambda: to_stream(sp), True, case("dump", "stringio"), f"dump|{fmt}|stream|{M.oclass(okind)}|writer-spelling{tag}")

                    def to_path(w):
                        p = d / f"out.{fmt}"
                        p.write_text("")
                        ml.dump(obj, str(p), fmt, writer=w, mode="w")
                        return p.read_text()

                    check("dump", "writer", f"ml.dump({okind}, path, {fmt!r}, writer={sp!r})", lambda: to_path(wname), lambda: to_path(sp), True, case("dump", "pathstr"), f"dump|{fmt}|path|{M.oclass(okind)}|writer-spelling{tag}")
            for sp in _spellings(fmt):
                base = {"op": "spelling", "fmt": fmt, "otype": okind, "arg": "fmt", "lower": fmt, "spelled": sp}
                check("dumps", "fmt", f"ml.dumps({okind}, {sp!r})", lambda: ml.dumps(obj, fmt), lambda: ml.dumps(obj, sp), False, {"family": list(fam.spec), "cell": dict(base, func="dumps", kind="str"), "given": given}, f"dumps|{fmt}|str|{M.oclass(okind)}|fmt-spelling{tag}")
        # ---- readers ----
        for func in M.READERS:
            src = str(fam.path[fmt]) if func in ("load", "load_all") else fam.text[fmt]
            kind = "pathstr" if func in ("load", "load_all") else "str"
            f = getattr(ml, func)
            for pname in ("molli", "openbabel", "obabel"):
                for sp in _spellings(pname):
                    base = {"op": "spelling", "func": func, "kind": kind, "fmt": fmt, "otype": "molecule", "arg": "parser", "lower": pname, "spelled": sp}
                    check(func, "parser", f"ml.{func}({kind}, {fmt!r}, parser={sp!r})", lambda: f(src, fmt, parser=pname), lambda: f(src, fmt, parser=sp), True, {"family": list(fam.spec), "cell": base, "given": given}, f"{func}|{fmt}|{M.kindclass(kind)}|molecule|parser-spelling{tag}")
            for ot in ("molecule", "ensemble"):
                if ot == "ensemble" and func in ("load_all", "loads_all"):
                    continue
                for sp in _spellings(ot):
                    base = {"op": "spelling", "func": func, "kind": kind, "fmt": fmt, "otype": ot, "arg": "otype", "lower": ot, "spelled": sp}
                    check(func, "otype", f"ml.{func}({kind}, {fmt!r}, otype={sp!r})", lambda: f(src, fmt, otype=ot), lambda: f(src, fmt, otype=sp), False, {"family": list(fam.spec), "cell": base, "given": given}, f"{func}|{fmt}|{M.kindclass(kind)}|{M.oclass(ot)}|otype-spelling{tag}")
            for sp in _spellings(fmt):
                base = {"op": "spelling", "func": func, "kind": kind, "fmt": fmt, "otype": "molecule", "arg": "fmt", "lower": fmt, "spelled": sp}
                check(func, "fmt", f"ml.{func}({kind}, {sp!r})", lambda: f(src, fmt), lambda: f(src, sp), False, {"family": list(fam.spec), "cell": base, "given": given}, f"{func}|{fmt}|{M.kindclass(kind)}|molecule|fmt-spelling{tag}")
    ctx.count(states=n)
